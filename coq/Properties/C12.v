(** C12 — UDP tracker exchange follows BEP 15 and trusts only matching replies.
    Only pinned statements, theorems closed by [exact], examples, and [Print Assumptions].
    Model: Model/Tracker.v over Generated/GenTracker.v (regenerated from src/tracker/*.rs by
    tools/rs2v_tracker.py on every run); proofs: Proofs/TrackerProofs.v; integers: Base/BE.v. *)
From Coq Require Import NArith List Bool Arith.
From Imdl Require Import Base.Key Base.BE Base.Chunks Generated.GenTracker Model.Tracker Proofs.TrackerProofs.
Import ListNotations.
Local Open Scope N_scope.

(** (T) the translator understood the current sources (layouts, initialisers, guards, offsets,
    action codes, the shape of exchange / connect_exchange / announce_exchange /
    parse_compact_peer_list / from_url) *)
Theorem c12_sources_translated : GenTracker.translated = true.
Proof. reflexivity. Qed.

(** big-endian integers: reading back what was written, and conversely *)
Theorem c12_be_roundtrip :
  (forall w n, n < 256 ^ N.of_nat w -> unbe (be w n) = n) /\
  (forall l, wf_bytes l -> be (length l) (unbe l) = l).
Proof. exact (conj unbe_be be_unbe). Qed.

(** connect request: 16 bytes = magic 0x41727101980, action 0, the fresh transaction id *)
Check connect_layout : forall txid,
  let d := connect_req txid in
  length d = 16%nat /\ slice 0 8 d = be 8 4497486125440 /\ slice 8 4 d = be 4 0 /\ slice 12 4 d = be 4 txid /\
  connect_ints txid "action"%key = 0 /\ connect_ints txid "transaction_id"%key = txid /\
  N.to_nat connect_request_length = 16%nat /\ udp_tracker_magic = 4497486125440.
Theorem c12_connect_request_layout : forall txid,
  let d := connect_req txid in
  length d = 16%nat /\ slice 0 8 d = be 8 4497486125440 /\ slice 8 4 d = be 4 0 /\ slice 12 4 d = be 4 txid /\
  connect_ints txid "action"%key = 0 /\ connect_ints txid "transaction_id"%key = txid /\
  N.to_nat connect_request_length = 16%nat /\ udp_tracker_magic = 4497486125440.
Proof. exact connect_layout. Qed.

(** announce request: 98 bytes; connection id 0..8, action 1, transaction id, infohash 16..36,
    peer id, downloaded 0, left = 2^64-1, uploaded 0, event/IP/key 0, num_want -1, port 96..98 *)
Theorem c12_announce_request_layout : forall conn ih pid port txid,
  length ih = 20%nat -> length pid = 20%nat ->
  let d := announce_req conn ih pid port txid in
  length d = 98%nat /\ slice 0 8 d = be 8 conn /\ slice 8 4 d = be 4 1 /\ slice 12 4 d = be 4 txid /\
  slice 16 20 d = ih /\ slice 36 20 d = pid /\ slice 56 8 d = be 8 0 /\
  slice 64 8 d = be 8 18446744073709551615 /\ slice 72 8 d = be 8 0 /\ slice 80 8 d = be 8 0 /\
  slice 88 4 d = be 4 0 /\ slice 92 4 d = be 4 4294967295 /\ slice 96 2 d = be 2 port /\
  announce_ints conn port txid "action"%key = 1 /\
  announce_ints conn port txid "transaction_id"%key = txid /\
  N.to_nat announce_request_length = 98%nat.
Proof. exact announce_layout. Qed.

(** `left` is non-zero and the port field is the socket's port *)
Theorem c12_announce_left_nonzero_port : forall conn ih pid port txid,
  length ih = 20%nat -> length pid = 20%nat -> port < 2 ^ 16 ->
  let d := announce_req conn ih pid port txid in
  unbe (slice 64 8 d) <> 0 /\ unbe (slice 96 2 d) = port.
Proof. exact announce_left_port. Qed.

(** the announce is sent only after a valid connect reply (long enough, action 0, echoed
    transaction id) and carries the connection id of exactly that reply; otherwise nothing is
    announced and the tracker is reported as failed *)
Check session_connect_gate : forall txid1 txid2 ih pid port v6 ans1 ans2,
  let r := session txid1 txid2 ih pid port v6 ans1 ans2 in
  r_connect_dgram r = connect_req txid1 /\
  ((exists i d, first_answer ans1 = Some (i, d) /\ (i < 3)%nat /\
      valid_reply 16 0 txid1 (firstn connect_buf d) /\
      r_announce_dgram r = announce_req (unbe (slice 8 8 (firstn connect_buf d))) ih pid port txid2 /\
      (1 <= r_announce_sends r)%nat)
   \/ (r_announce_sends r = 0%nat /\ r_announce_dgram r = [] /\ exists e, r_result r = Fail e)).
Theorem c12_announce_carries_received_connection_id : forall txid1 txid2 ih pid port v6 ans1 ans2,
  let r := session txid1 txid2 ih pid port v6 ans1 ans2 in
  r_connect_dgram r = connect_req txid1 /\
  ((exists i d, first_answer ans1 = Some (i, d) /\ (i < 3)%nat /\
      valid_reply 16 0 txid1 (firstn connect_buf d) /\
      r_announce_dgram r = announce_req (unbe (slice 8 8 (firstn connect_buf d))) ih pid port txid2 /\
      (1 <= r_announce_sends r)%nat)
   \/ (r_announce_sends r = 0%nat /\ r_announce_dgram r = [] /\ exists e, r_result r = Fail e)).
Proof. exact session_connect_gate. Qed.

(** accept => echo, for each of the two exchanges *)
Theorem c12_accept_implies_echo :
  (forall txid ans n fs payload, connect_exchange txid ans = (n, Ok (fs, payload)) ->
     exists i d, first_answer ans = Some (i, d) /\ (i < 3)%nat /\ n = S i /\
       valid_reply 16 0 txid (firstn connect_buf d) /\
       get "connection_id" fs = unbe (slice 8 8 (firstn connect_buf d))) /\
  (forall conn port txid v6 ans n l, announce_exchange conn port txid v6 ans = (n, Ok l) ->
     exists i d, first_answer ans = Some (i, d) /\ (i < 3)%nat /\ n = S i /\
       valid_reply 20 1 txid (firstn announce_buf d) /\
       peers v6 (skipn 20 (firstn announce_buf d)) = Ok l).
Proof. exact (conj connect_accept announce_accept). Qed.

(** compact peer list: accepted iff a whole number of 6- / 18-byte records, and then exactly those *)
Theorem c12_peers_exact : forall v6 p,
  (forall l, peers v6 p = Ok l <->
     (length p mod stride v6 = 0)%nat /\ l = map (record (stride v6)) (chunks (stride v6) p)) /\
  (peers v6 p = Fail FPeerList <-> (length p mod stride v6 <> 0)%nat) /\
  stride false = 6%nat /\ stride true = 18%nat.
Proof.
  exact (fun v6 p => conj (peers_exact v6 p) (conj (peers_ragged v6 p) stride_values)).
Qed.

(** never a crash: no datagram of any length, no drop pattern, makes the client index out of bounds *)
Theorem c12_never_crashes :
  (forall buf, deser_connect buf <> Panic) /\ (forall buf, deser_announce buf <> Panic) /\
  (forall v6 p, peers v6 p <> Panic) /\
  (forall txid1 txid2 ih pid port v6 ans1 ans2,
     r_result (session txid1 txid2 ih pid port v6 ans1 ans2) <> Panic).
Proof. exact (conj deser_connect_total (conj deser_announce_total (conj peers_total session_total))). Qed.

(** an unanswered request is sent at most three times: exactly min(3, index of the first answer + 1) *)
Theorem c12_at_most_three : forall txid1 txid2 ih pid port v6 ans1 ans2,
  let r := session txid1 txid2 ih pid port v6 ans1 ans2 in
  r_connect_sends r = sends_spec 3 ans1 /\ (r_connect_sends r <= 3)%nat /\
  (r_announce_sends r = 0%nat \/ r_announce_sends r = sends_spec 3 ans2) /\ (r_announce_sends r <= 3)%nat.
Proof. exact session_sends. Qed.

(** no invented peers: a peer list comes only from an answer to one of the three announce
    requests that is long enough, has action 1 and the request's transaction id, and it is the
    list of its records *)
Theorem c12_no_invented_peers : forall txid1 txid2 ih pid port v6 ans1 ans2 l,
  r_result (session txid1 txid2 ih pid port v6 ans1 ans2) = Ok l ->
  exists i d, first_answer ans2 = Some (i, d) /\ (i < 3)%nat /\
    let data := firstn announce_buf d in
    valid_reply 20 1 txid2 data /\
    (length (skipn 20 data) mod stride v6 = 0)%nat /\
    l = map (record (stride v6)) (chunks (stride v6) (skipn 20 data)).
Proof. exact session_peers. Qed.

(** honest trackers are understood; a ragged list is a reported failure *)
Theorem c12_valid_replies_accepted : forall txid1 txid2 ih pid port v6 ans1 ans2 i1 d1 i2 d2,
  first_answer ans1 = Some (i1, d1) -> (i1 < 3)%nat -> valid_reply 16 0 txid1 (firstn connect_buf d1) ->
  first_answer ans2 = Some (i2, d2) -> (i2 < 3)%nat -> valid_reply 20 1 txid2 d2 ->
  (length d2 <= announce_buf)%nat ->
  let r := session txid1 txid2 ih pid port v6 ans1 ans2 in
  r_connect_sends r = S i1 /\ r_announce_sends r = S i2 /\
  r_result r = peers v6 (skipn 20 d2) /\
  ((length d2 - 20) mod stride v6 = 0 ->
     r_result r = Ok (map (record (stride v6)) (chunks (stride v6) (skipn 20 d2))))%nat /\
  ((length d2 - 20) mod stride v6 <> 0 -> r_result r = Fail FPeerList)%nat.
Proof. exact session_complete. Qed.

(** (T) the receive buffer regenerated from the source holds every datagram UDP can deliver
    ([max_udp_payload] = 65527 = 65535 - 8; 65507 over IPv4) — a smaller RX_BUF_LEN breaks this *)
Theorem c12_receive_buffer_holds_any_udp_datagram :
  (max_udp_payload <= announce_buf)%nat /\ max_udp_payload = N.to_nat 65527 /\
  announce_buf = N.to_nat rx_buf_len /\
  (forall d, udp_deliverable d <-> (length d <= max_udp_payload)%nat).
Proof.
  exact (conj buffer_holds_any_datagram (conj eq_refl (conj eq_refl (fun d => conj (fun H => H) (fun H => H))))).
Qed.

(** the headline, for every datagram a UDP socket can deliver ([udp_deliverable]: the explicit
    hypothesis about UDP): valid replies yield exactly the records of the whole announce reply *)
Theorem c12_peers_exactly_the_records :
  forall txid1 txid2 ih pid port v6 ans1 ans2 i1 d1 i2 d2,
  udp_deliverable d2 ->
  first_answer ans1 = Some (i1, d1) -> (i1 < 3)%nat -> valid_reply 16 0 txid1 (firstn connect_buf d1) ->
  first_answer ans2 = Some (i2, d2) -> (i2 < 3)%nat -> valid_reply 20 1 txid2 d2 ->
  ((length d2 - 20) mod stride v6 = 0)%nat ->
  r_result (session txid1 txid2 ih pid port v6 ans1 ans2) =
    Ok (map (record (stride v6)) (chunks (stride v6) (skipn 20 d2))).
Proof. exact session_exact. Qed.

(** and only those: reported peers are the records of the whole accepted datagram, nothing cut *)
Theorem c12_only_the_records_of_the_whole_reply :
  forall txid1 txid2 ih pid port v6 ans1 ans2 l,
  (forall i d, first_answer ans2 = Some (i, d) -> udp_deliverable d) ->
  r_result (session txid1 txid2 ih pid port v6 ans1 ans2) = Ok l ->
  exists i d, first_answer ans2 = Some (i, d) /\ (i < 3)%nat /\
    valid_reply 20 1 txid2 d /\
    (length (skipn 20 d) mod stride v6 = 0)%nat /\
    l = map (record (stride v6)) (chunks (stride v6) (skipn 20 d)).
Proof. exact session_peers_deliverable. Qed.

(** beyond the buffer (unreachable for UDP) the client would see the first [announce_buf] bytes *)
Theorem c12_beyond_buffer_truncated : forall d : list N,
  (announce_buf <= length d)%nat -> length (firstn announce_buf d) = announce_buf.
Proof. exact beyond_buffer_truncated. Qed.

Example c12_hypotheses_satisfiable :
  first_answer [None; Some ex_connect_reply] = Some (1%nat, ex_connect_reply) /\
  valid_reply 16 0 5 (firstn connect_buf ex_connect_reply) /\
  first_answer [None; None; Some ex_announce_reply] = Some (2%nat, ex_announce_reply) /\
  valid_reply 20 1 7 ex_announce_reply /\ udp_deliverable ex_announce_reply /\
  ((length ex_announce_reply - 20) mod stride false = 0)%nat.
Proof. exact example_valid_replies. Qed.

Example c12_example_session :
  let r := session 5 7 (repeat 1 20) (repeat 2 20) 40000 false
                   [None; Some ex_connect_reply] [None; None; Some ex_announce_reply] in
  r_connect_sends r = 2%nat /\ r_announce_sends r = 3%nat /\
  slice 0 8 (r_announce_dgram r) = be 8 99 /\
  r_result r = Ok [([10; 0; 0; 1], 6881); ([10; 0; 0; 2], 51413); ([10; 0; 0; 1], 6881)] /\
  printed [([10; 0; 0; 1], 6881); ([10; 0; 0; 2], 51413); ([10; 0; 0; 1], 6881)]
    = [([10; 0; 0; 2], 51413); ([10; 0; 0; 1], 6881)].
Proof. exact example_session. Qed.

Example c12_example_rejections :
  let run d := r_result (session 5 7 (repeat 1 20) (repeat 2 20) 40000 false [Some ex_connect_reply] [Some d]) in
  run (be 4 1 ++ be 4 8 ++ repeat 0 12) = Fail FResponse /\
  run (be 4 3 ++ be 4 7 ++ repeat 0 12) = Fail FResponse /\
  run (be 4 1 ++ be 4 7 ++ repeat 0 11) = Fail FResponse /\
  run (be 4 1 ++ be 4 7 ++ repeat 0 12 ++ [10; 0; 0; 1; 26]) = Fail FPeerList /\
  run [] = Fail FNoAnswer /\
  r_result (session 5 7 (repeat 1 20) (repeat 2 20) 40000 false [Some (be 4 0 ++ be 4 6 ++ be 8 99)] [Some ex_announce_reply])
    = Fail FResponse.
Proof. exact example_rejections. Qed.

(** each peer is printed once (`HashSet`), and nothing else is printed *)
Theorem c12_printed_each_once : forall l,
  NoDup (printed l) /\ (forall p, In p (printed l) <-> In p l).
Proof. exact printed_each_once. Qed.

(** tracker URL screening: only udp:// URLs with a host and a port are contacted *)
Theorem c12_url_screening : forall scheme host port,
  (screen scheme host port = Usable <-> scheme = "udp"%key /\ host = true /\ port = true) /\
  (scheme <> "udp"%key -> screen scheme host port = SkipNotUdp) /\
  (scheme = "udp"%key -> host && port = false -> screen scheme host port = SkipNoHostPort).
Proof. exact screen_spec. Qed.

Print Assumptions c12_sources_translated.
Print Assumptions c12_be_roundtrip.
Print Assumptions c12_connect_request_layout.
Print Assumptions c12_announce_request_layout.
Print Assumptions c12_announce_left_nonzero_port.
Print Assumptions c12_announce_carries_received_connection_id.
Print Assumptions c12_accept_implies_echo.
Print Assumptions c12_peers_exact.
Print Assumptions c12_never_crashes.
Print Assumptions c12_at_most_three.
Print Assumptions c12_no_invented_peers.
Print Assumptions c12_valid_replies_accepted.
Print Assumptions c12_receive_buffer_holds_any_udp_datagram.
Print Assumptions c12_peers_exactly_the_records.
Print Assumptions c12_only_the_records_of_the_whole_reply.
Print Assumptions c12_beyond_buffer_truncated.
Print Assumptions c12_hypotheses_satisfiable.
Print Assumptions c12_example_session.
Print Assumptions c12_example_rejections.
Print Assumptions c12_printed_each_once.
Print Assumptions c12_url_screening.
