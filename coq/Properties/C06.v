(** C06 — create includes exactly the documented files, in the documented order.
    This file contains only pinned statements, theorems closed by [exact] (or [vm_compute] on
    closed instances), and [Print Assumptions]. Model: Model/Walk.v; proofs: Proofs/WalkProofs.v;
    tables regenerated from /repo by tools/rs2v_walker.py: Generated/GenWalker.v.
    globset's matcher is the universally quantified [gmatch]; the `ignore` crate's walker is
    represented by [yield] / [walk_error]. *)
From Coq Require Import NArith List Bool String.
From Coq Require Import Sorting.Permutation Sorting.Sorted.
From Imdl Require Import Generated.GenWalker Model.Walk Proofs.WalkProofs.
Import ListNotations.
Local Open Scope N_scope.

(** (T) the translator understood the current sources *)
Theorem c06_sources_translated : GenWalker.translated = true.
Proof. reflexivity. Qed.

(** (T) the tables of the Rust sources are the tables of the model: the junk list is the
    documented one and is tested on [FilePath::name] = the last component, under
    `!include_junk`; the WalkBuilder is configured as [yield] assumes; [FilePath] orders by its
    component vector; the sort keys / orders / default and what each arm compares are those of
    [compare_file_info] / [default_spec]; the list is sorted with [SortSpec::compare] over
    `--sort-by`. *)
Theorem c06_model_matches_source :
  GenWalker.junk_text = ["Thumbs.db"; "Desktop.ini"]%string /\
  GenWalker.junk = map name_of_string GenWalker.junk_text /\
  GenWalker.junk_test = ("!self.include_junk", "file_path.name()")%string /\
  GenWalker.filepath_name_body = "&self.components[self.components.len() - 1]"%string /\
  GenWalker.filepath_derives_ord_on_components = true /\
  GenWalker.walkbuilder_calls =
    [("follow_links", "self.follow_symlinks"); ("standard_filters", "self.ignore");
     ("require_git", "false"); ("hidden", "!self.include_hidden")]%string /\
  GenWalker.sort_keys = ["path"; "size"]%string /\
  GenWalker.sort_orders = ["ascending"; "descending"]%string /\
  (GenWalker.default_key, GenWalker.default_order) = ("path", "ascending")%string /\
  GenWalker.key_arms = [("path", "a.path.cmp(&b.path)"); ("size", "a.length.cmp(&b.length)")]%string /\
  GenWalker.order_arms = [("ascending", "ordering"); ("descending", "ordering.reverse()")]%string /\
  GenWalker.sort_call = ("sort_by", "|a, b| SortSpec::compare(&self.sort_by, a, b)")%string.
Proof. repeat split; vm_compute; reflexivity. Qed.

Theorem c06_junk_is_generated_list : forall n, is_junk n = true <-> In n GenWalker.junk.
Proof. exact is_junk_spec. Qed.

(** pruning while walking = filtering the set of all reachable regular files by the documented
    per-path predicate, then sorting: for every glob matcher, configuration and tree *)
Check walk_refines_spec : forall (pat : Type) (gmatch : pat -> list (list N) -> bool) (c : cfg pat) root es,
  (follow_symlinks c = true \/ is_symlink root = false) ->
  resolve root = WDir es -> walk_error pat c (WDir es) = false ->
  walk pat gmatch c root =
  WalkListing (isort (leb (sort_by c)) (filter (included pat gmatch c) (all_files pat c (WDir es)))).
Theorem c06_walk_refines_spec : forall (pat : Type) (gmatch : pat -> list (list N) -> bool) (c : cfg pat) root es,
  (follow_symlinks c = true \/ is_symlink root = false) ->
  resolve root = WDir es -> walk_error pat c (WDir es) = false ->
  walk pat gmatch c root =
  WalkListing (isort (leb (sort_by c)) (filter (included pat gmatch c) (all_files pat c (WDir es)))).
Proof. exact walk_refines_spec. Qed.

(** [all_files] is exactly the set of regular files below the root (through symlinks iff followed) *)
Theorem c06_all_files_exact : forall (pat : Type) (c : cfg pat) t p sz,
  In (p, sz) (all_files pat c t) <-> file_at (follow_symlinks c) t p sz.
Proof. exact all_files_exact. Qed.

(** the listing contains exactly the included files, is sorted, and is the only sorted
    arrangement of them (so it does not matter which correct sort the code uses) *)
Theorem c06_walk_listing_characterised :
  forall (pat : Type) (gmatch : pat -> list (list N) -> bool) (c : cfg pat) root files,
  walk pat gmatch c root = WalkListing files ->
  exists es, resolve root = WDir es /\
    (forall e, In e files <-> In e (all_files pat c (WDir es)) /\ included pat gmatch c e = true) /\
    Permutation (filter (included pat gmatch c) (all_files pat c (WDir es))) files /\
    StronglySorted (fun a b => leb (sort_by c) a b = true) files /\
    (wf_tree root -> forall other,
       Permutation (filter (included pat gmatch c) (all_files pat c (WDir es))) other ->
       StronglySorted (fun a b => leb (sort_by c) a b = true) other -> other = files).
Proof. exact walk_listing_characterised. Qed.

(** hypotheses satisfiable, non-trivially: the sample tree under the default flags, one
    exclude glob (matching `b`), `--sort-by size:descending` *)
Example c06_walk_instance :
  let c := sample_cfg false false false [(false, [[nm "b"]])] [(KSize, Descending)] in
  resolve sample_tree = sample_tree /\ walk_error _ c sample_tree = false /\
  walk_table c sample_tree =
  WalkListing [([nm "Desktop.ini"; nm "q"], 7); ([nm "a"; nm "x"], 2); ([nm "a b"], 2); ([nm "a.b"], 2)].
Proof. vm_compute. repeat split. Qed.

Example c06_walk_instance_all_flags :
  let c := sample_cfg true true true [] [] in
  walk_table c sample_tree =
  WalkListing [([nm ".h"; nm "x"], 1); ([nm "Desktop.ini"; nm "q"], 7); ([nm "a"; nm ".y"], 1);
           ([nm "a"; nm "Thumbs.db"], 3); ([nm "a"; nm "x"], 2); ([nm "a b"], 2); ([nm "a.b"], 2);
           ([nm "b"], 1); ([nm "l"], 5); ([nm "ld"; nm "o"], 9)].
Proof. vm_compute. reflexivity. Qed.

(** glob precedence *)
Check pattern_filter_spec : forall (pat : Type) (gmatch : pat -> list (list N) -> bool) (p : list (list N)),
  pattern_filter pat gmatch [] p = true /\
  (forall before inc g after,
      gmatch g p = true -> (forall q, In q after -> gmatch (snd q) p = false) ->
      pattern_filter pat gmatch (before ++ (inc, g) :: after) p = inc) /\
  (forall inc0 g0 rest,
      (forall q, In q ((inc0, g0) :: rest) -> gmatch (snd q) p = false) ->
      pattern_filter pat gmatch ((inc0, g0) :: rest) p = negb inc0).
Theorem c06_pattern_filter_spec : forall (pat : Type) (gmatch : pat -> list (list N) -> bool) (p : list (list N)),
  pattern_filter pat gmatch [] p = true /\
  (forall before inc g after,
      gmatch g p = true -> (forall q, In q after -> gmatch (snd q) p = false) ->
      pattern_filter pat gmatch (before ++ (inc, g) :: after) p = inc) /\
  (forall inc0 g0 rest,
      (forall q, In q ((inc0, g0) :: rest) -> gmatch (snd q) p = false) ->
      pattern_filter pat gmatch ((inc0, g0) :: rest) p = negb inc0).
Proof. exact pattern_filter_spec. Qed.

Example c06_pattern_filter_instance :
  (* --glob a --glob '!a' --glob x : `a` matched last by `!a` -> excluded; `x` -> included;
     `z` unmatched, first glob is an include -> excluded *)
  let ps := [(true, [[nm "a"]]); (false, [[nm "a"]]); (true, [[nm "x"]])] in
  pattern_filter _ table_match ps [nm "a"] = false /\
  pattern_filter _ table_match ps [nm "x"] = true /\
  pattern_filter _ table_match ps [nm "z"] = false /\
  pattern_filter _ table_match [(false, [[nm "a"]])] [nm "z"] = true.
Proof. vm_compute. repeat split. Qed.

(** SortSpec::compare is a total order on files with distinct paths, for every key list *)
Check cmp_total_order : forall specs,
  (forall a b, sort_compare specs b a = CompOpp (sort_compare specs a b)) /\
  (forall a, sort_compare specs a a = Eq) /\
  (forall a b, sort_compare specs a b = Eq -> fst a = fst b) /\
  (forall a b d, sort_compare specs a b = Lt -> sort_compare specs b d = Lt -> sort_compare specs a d = Lt) /\
  (forall a b d, sort_compare specs a b = Eq -> sort_compare specs a d = sort_compare specs b d) /\
  (forall a b, leb specs a b = true \/ leb specs b a = true) /\
  (forall a b d, leb specs a b = true -> leb specs b d = true -> leb specs a d = true).
Theorem c06_cmp_total_order : forall specs,
  (forall a b, sort_compare specs b a = CompOpp (sort_compare specs a b)) /\
  (forall a, sort_compare specs a a = Eq) /\
  (forall a b, sort_compare specs a b = Eq -> fst a = fst b) /\
  (forall a b d, sort_compare specs a b = Lt -> sort_compare specs b d = Lt -> sort_compare specs a d = Lt) /\
  (forall a b d, sort_compare specs a b = Eq -> sort_compare specs a d = sort_compare specs b d) /\
  (forall a b, leb specs a b = true \/ leb specs b a = true) /\
  (forall a b d, leb specs a b = true -> leb specs b d = true -> leb specs a d = true).
Proof. exact cmp_total_order. Qed.

(** the `--sort-by` keys in order, then ascending path *)
Theorem c06_compare_is_lexicographic : forall specs a b,
  sort_compare specs a b = lex (specs ++ [(KPath, Ascending)]) a b /\
  (forall s r, lex (s :: r) a b = match compare_file_info s a b with Eq => lex r a b | o => o end) /\
  lex [] a b = Eq.
Proof. exact compare_is_lexicographic. Qed.

(** sorted permutations are unique *)
Check sorted_unique : forall specs l l',
  Permutation l l' -> NoDup (map fst l) -> isort (leb specs) l = isort (leb specs) l'.
Theorem c06_sorted_unique : forall specs l l',
  Permutation l l' -> NoDup (map fst l) -> isort (leb specs) l = isort (leb specs) l'.
Proof. exact sorted_unique. Qed.

Theorem c06_any_sort_agrees : forall specs l s,
  NoDup (map fst l) -> Permutation l s -> sorted_by specs s -> s = isort (leb specs) l.
Proof. exact any_sort_agrees. Qed.

Theorem c06_isort_sorted_permutation : forall specs l,
  Permutation l (isort (leb specs) l) /\ sorted_by specs (isort (leb specs) l).
Proof. exact isort_sorted_permutation. Qed.

(** the listing does not depend on the order in which directories are enumerated *)
Check enumeration_order_independent : forall (pat : Type) (gmatch : pat -> list (list N) -> bool) (c : cfg pat) t t',
  wf_tree t -> tree_perm t t' -> walk pat gmatch c t = walk pat gmatch c t'.
Theorem c06_enumeration_order_independent :
  forall (pat : Type) (gmatch : pat -> list (list N) -> bool) (c : cfg pat) t t',
  wf_tree t -> tree_perm t t' -> walk pat gmatch c t = walk pat gmatch c t'.
Proof. exact enumeration_order_independent. Qed.

Example c06_enumeration_instance :
  wf_tree sample_tree /\ tree_perm sample_tree sample_tree_shuffled /\ sample_tree <> sample_tree_shuffled.
Proof. split; [exact sample_wf|]. split; [exact sample_perm|]. intros H. discriminate H. Qed.

(** paths are ordered component by component, which is not the order of the joined strings:
    a/x < "a b" < a.b component-wise, while as strings "a b" < "a.b" < "a/x" *)
Example c06_component_order_not_string_order :
  path_cmp [nm "a"; nm "x"] [nm "a b"] = Lt /\ path_cmp [nm "a b"] [nm "a.b"] = Lt /\
  name_cmp (joined [nm "a b"]) (joined [nm "a.b"]) = Lt /\
  name_cmp (joined [nm "a.b"]) (joined [nm "a"; nm "x"]) = Lt.
Proof. vm_compute. repeat split. Qed.

(** a symlink given as the root is refused unless symlinks are followed *)
Check symlink_root_refused : forall (pat : Type) (gmatch : pat -> list (list N) -> bool) (c : cfg pat) root,
  follow_symlinks c = false -> is_symlink root = true -> walk pat gmatch c root = WalkRefused.
Theorem c06_symlink_root_refused : forall (pat : Type) (gmatch : pat -> list (list N) -> bool) (c : cfg pat) root,
  follow_symlinks c = false -> is_symlink root = true -> walk pat gmatch c root = WalkRefused.
Proof. exact symlink_root_refused. Qed.

Theorem c06_symlink_root_followed : forall (pat : Type) (gmatch : pat -> list (list N) -> bool) (c : cfg pat) t,
  follow_symlinks c = true -> walk pat gmatch c (WLink t) = walk pat gmatch c t.
Proof. exact symlink_root_followed. Qed.

Theorem c06_plain_root_not_refused : forall (pat : Type) (gmatch : pat -> list (list N) -> bool) (c : cfg pat) root,
  is_symlink root = false -> walk pat gmatch c root <> WalkRefused.
Proof. exact plain_root_not_refused. Qed.

Example c06_symlink_root_instance :
  walk_table (sample_cfg false false false [] []) (WLink sample_tree) = WalkRefused /\
  walk_table (sample_cfg false false true [] []) (WLink sample_tree) =
  walk_table (sample_cfg false false true [] []) sample_tree /\
  walk_table (sample_cfg false false true [] []) (WLink (WFile 4)) = WalkSingle 4.
Proof. vm_compute. repeat split. Qed.

Print Assumptions c06_sources_translated.
Print Assumptions c06_model_matches_source.
Print Assumptions c06_junk_is_generated_list.
Print Assumptions c06_walk_refines_spec.
Print Assumptions c06_all_files_exact.
Print Assumptions c06_walk_listing_characterised.
Print Assumptions c06_walk_instance.
Print Assumptions c06_walk_instance_all_flags.
Print Assumptions c06_pattern_filter_spec.
Print Assumptions c06_pattern_filter_instance.
Print Assumptions c06_cmp_total_order.
Print Assumptions c06_compare_is_lexicographic.
Print Assumptions c06_sorted_unique.
Print Assumptions c06_any_sort_agrees.
Print Assumptions c06_isort_sorted_permutation.
Print Assumptions c06_enumeration_order_independent.
Print Assumptions c06_enumeration_instance.
Print Assumptions c06_component_order_not_string_order.
Print Assumptions c06_symlink_root_refused.
Print Assumptions c06_symlink_root_followed.
Print Assumptions c06_plain_root_not_refused.
Print Assumptions c06_symlink_root_instance.

(** * the whole create pipeline (X7)

    The listing above is over the walker's own [tree] (sizes only). `torrent create` hands that
    listing to the hasher, and `torrent verify` later looks the listed paths up again; the models of
    those two (C01, C02/C03) work over Model/Fs.v's content tree [node]. Model/CreateWalk.v connects
    them with a size-erasing map [erase : node -> tree] (a file becomes its length, a directory keeps
    its entries in order), so every theorem above applies to [walk c (erase src)] as it stands.
    [Fs.node] has no symlinks, hence the fragment is the link-free trees; there `--follow-symlinks`
    is irrelevant, the walk never refuses and never fails. [wf_node] says what every directory
    tree shown by an operating system satisfies: sibling names distinct, each name one plain
    component. The statements: what the walker lists of [erase src] is exactly the set of regular
    files [Fs.lookup] / [Fs.resolve] find below [src] that pass the documented filters, with their
    lengths; each listed path is plain; no path twice; sorted by the real comparison.
    Proofs: Proofs/CreateWalkProofs.v. The composition with the hasher and the verifier is in
    Properties/C02.v (same heading). *)
From Imdl Require Model.Fs Model.Verify Model.CreateVerify Model.CreateWalk Proofs.VerifyProofs Proofs.CreateWalkProofs
     Proofs.CreateWalkExamples.

Check CreateWalkProofs.walk_selection_resolves :
  forall (pat : Type) (gmatch : pat -> list (list N) -> bool) (c : cfg pat) ch files,
  CreateWalk.wf_node (Fs.Dir ch) -> walk pat gmatch c (CreateWalk.erase (Fs.Dir ch)) = WalkListing files ->
  forall pa sz, In (pa, sz) files <->
                exists d, Fs.lookup (Fs.Dir ch) pa = Some (Fs.File d) /\ sz = Verify.blen d /\
                          CreateWalk.selected pat gmatch c pa = true.
Theorem c06_walk_selection_resolves :
  forall (pat : Type) (gmatch : pat -> list (list N) -> bool) (c : cfg pat) ch files,
  CreateWalk.wf_node (Fs.Dir ch) -> walk pat gmatch c (CreateWalk.erase (Fs.Dir ch)) = WalkListing files ->
  forall pa sz, In (pa, sz) files <->
                exists d, Fs.lookup (Fs.Dir ch) pa = Some (Fs.File d) /\ sz = Verify.blen d /\
                          CreateWalk.selected pat gmatch c pa = true.
Proof. exact CreateWalkProofs.walk_selection_resolves. Qed.

(** [selected] is C06's documented per-path predicate, nothing else *)
Theorem c06_selected_is_included :
  forall (pat : Type) (gmatch : pat -> list (list N) -> bool) (c : cfg pat) e,
  included pat gmatch c e = CreateWalk.selected pat gmatch c (fst e).
Proof. exact CreateWalkProofs.included_selected. Qed.

(** under any absolute root that resolves to the input, the verifier's [resolve] finds every listed
    path as a regular file of the listed length *)
Theorem c06_walk_selection_resolves_fs :
  forall (pat : Type) (gmatch : pat -> list (list N) -> bool) (c : cfg pat) ch files fs root,
  CreateWalk.wf_node (Fs.Dir ch) -> Fs.resolve fs root = Some (Fs.Dir ch) ->
  walk pat gmatch c (CreateWalk.erase (Fs.Dir ch)) = WalkListing files ->
  forall pa sz, In (pa, sz) files ->
                exists d, Fs.resolve fs (Fs.absolute root pa) = Some (Fs.File d) /\ sz = Verify.blen d.
Proof. exact CreateWalkProofs.walk_selection_resolves_fs. Qed.

Check CreateWalkProofs.walk_selection_plain :
  forall (pat : Type) (gmatch : pat -> list (list N) -> bool) (c : cfg pat) ch files,
  CreateWalk.wf_node (Fs.Dir ch) -> walk pat gmatch c (CreateWalk.erase (Fs.Dir ch)) = WalkListing files ->
  Forall VerifyProofs.plain_path (map fst files).
Theorem c06_walk_selection_plain :
  forall (pat : Type) (gmatch : pat -> list (list N) -> bool) (c : cfg pat) ch files,
  CreateWalk.wf_node (Fs.Dir ch) -> walk pat gmatch c (CreateWalk.erase (Fs.Dir ch)) = WalkListing files ->
  Forall VerifyProofs.plain_path (map fst files).
Proof. exact CreateWalkProofs.walk_selection_plain. Qed.

Theorem c06_walk_selection_nodup :
  forall (pat : Type) (gmatch : pat -> list (list N) -> bool) (c : cfg pat) n files,
  CreateWalk.wf_node n -> walk pat gmatch c (CreateWalk.erase n) = WalkListing files -> NoDup (map fst files).
Proof. exact CreateWalkProofs.walk_selection_nodup. Qed.

Theorem c06_walk_selection_sorted :
  forall (pat : Type) (gmatch : pat -> list (list N) -> bool) (c : cfg pat) n files,
  walk pat gmatch c (CreateWalk.erase n) = WalkListing files -> sorted_by (sort_by c) files.
Proof. exact CreateWalkProofs.walk_selection_sorted. Qed.

(** the fragment: no links, so no refusal, no failure, and `--follow-symlinks` changes nothing *)
Theorem c06_walk_erased_outcome :
  forall (pat : Type) (gmatch : pat -> list (list N) -> bool) (c : cfg pat),
  (forall d, walk pat gmatch c (CreateWalk.erase (Fs.File d)) = WalkSingle (Verify.blen d)) /\
  (forall ch, walk pat gmatch c (CreateWalk.erase (Fs.Dir ch)) =
              WalkListing (isort (leb (sort_by c))
                             (filter (included pat gmatch c) (all_files pat c (CreateWalk.erase (Fs.Dir ch)))))).
Proof.
  intros pat gmatch c. split; [exact (CreateWalkProofs.walk_erase_file pat gmatch c)|exact (CreateWalkProofs.walk_erase_dir pat gmatch c)].
Qed.

Theorem c06_walk_erased_follow_irrelevant :
  forall (pat : Type) (gmatch : pat -> list (list N) -> bool) h j f f' ps sb n,
  walk pat gmatch (Build_cfg h j f ps sb) (CreateWalk.erase n) =
  walk pat gmatch (Build_cfg h j f' ps sb) (CreateWalk.erase n).
Proof. exact CreateWalkProofs.walk_erase_follow_irrelevant. Qed.

(** well-formedness and permutation of content trees are those of the walker's trees *)
Theorem c06_erase_wf_perm :
  (forall n, CreateWalk.wf_node n -> wf_tree (CreateWalk.erase n)) /\
  (forall s s', CreateWalk.node_perm s s' -> tree_perm (CreateWalk.erase s) (CreateWalk.erase s')).
Proof. split; [exact CreateWalkProofs.erase_wf|exact CreateWalkProofs.erase_perm]. Qed.

(** instance: a hidden file, a junk file, a glob-excluded file, two included files - with contents *)
Example c06_walk_selection_instance :
  CreateWalk.wf_node CreateWalkExamples.w_src /\
  walk_table CreateWalkExamples.w_cfg (CreateWalk.erase CreateWalkExamples.w_src) =
  WalkListing [([nm "b"], 6); ([nm "d"; nm "a"], 5)] /\
  walk_table CreateWalkExamples.w_cfg_size (CreateWalk.erase CreateWalkExamples.w_src) =
  WalkListing [([nm "d"; nm "a"], 5); ([nm "b"], 6)] /\
  Fs.lookup CreateWalkExamples.w_src [nm "d"; nm "a"] = Some (Fs.File (nm "abcde")).
Proof. split; [exact CreateWalkExamples.w_src_wf|]. vm_compute. repeat split. Qed.

Print Assumptions c06_walk_selection_resolves.
Print Assumptions c06_selected_is_included.
Print Assumptions c06_walk_selection_resolves_fs.
Print Assumptions c06_walk_selection_plain.
Print Assumptions c06_walk_selection_nodup.
Print Assumptions c06_walk_selection_sorted.
Print Assumptions c06_walk_erased_outcome.
Print Assumptions c06_walk_erased_follow_irrelevant.
Print Assumptions c06_erase_wf_perm.
Print Assumptions c06_walk_selection_instance.

(** * globset's matcher, concretely (X13)

    Everything above holds for any [gmatch]. Model/Glob.v is a concrete model of what imdl really passes:
    globset 0.4.14 with its default options — [glob_parse] is `Glob::new` ([None] = the error that makes
    `--glob` fail), [glob_match] is `compile_matcher().is_match` on the bytes of the path; tokens are
    globset's `Token`s one for one. [Matches] (Proofs/GlobProofs.v) is the declarative meaning of a token
    list: the language of the regex `to_regex_with` writes, token by token (a literal is its bytes, `?`
    one byte, `*` any bytes, a class one byte of the set, the three recursive tokens as their regex
    fragments say, a group some non-empty branch), anchored at both ends. The instance of [gmatch] is
    [glob_path_match g p = glob_match g (joined p)]: the glob against the root-relative path with its
    components joined by `/`. Pattern texts are valid UTF-8 (a Rust `&str`); paths are any bytes. *)
From Imdl Require Import Model.Glob Proofs.GlobProofs.

(** soundness and completeness of the backtracking matcher: every token list, every text; no fuel *)
Check glob_match_iff : forall ts s, glob_match ts s = true <-> Matches ts s.
Theorem c06_glob_match_decides : forall ts s, glob_match ts s = true <-> Matches ts s.
Proof. exact glob_match_iff. Qed.

(** the parser's fuel suffices for every text: `Glob::new` is modelled everywhere, and [glob_parse] is
    [None] exactly when the parser reports one of globset's errors *)
Check parse_fuel_suffices : forall text, exists r, glob_parse_result text = Some r.
Theorem c06_glob_parse_fuel_suffices : forall text, exists r, glob_parse_result text = Some r.
Proof. exact parse_fuel_suffices. Qed.

Theorem c06_glob_parse_none_is_error :
  forall text, glob_parse text = None <-> exists e, glob_parse_result text = Some (PErr e).
Proof. exact glob_parse_none_is_error. Qed.

(** a pattern without metacharacters matches exactly itself, anchored at both ends *)
Check plain_pattern_matches_itself : forall p, no_meta p = true ->
  glob_parse p = Some (lits p) /\ forall s, glob_match (lits p) s = true <-> s = p.
Theorem c06_glob_plain_pattern : forall p, no_meta p = true ->
  glob_parse p = Some (lits p) /\ forall s, glob_match (lits p) s = true <-> s = p.
Proof. exact plain_pattern_matches_itself. Qed.

Theorem c06_glob_anchored : forall p x y, no_meta p = true ->
  glob_match (lits p) (x ++ p ++ y) = true -> x = [] /\ y = [].
Proof. exact plain_pattern_anchored. Qed.

(** `*` matches every path, `/` included; `?` exactly one byte; `**` everything *)
Check star_matches_everything : glob_parse [42] = Some [TAtom AStar] /\ forall s, glob_match [TAtom AStar] s = true.
Theorem c06_glob_star : glob_parse [42] = Some [TAtom AStar] /\ forall s, glob_match [TAtom AStar] s = true.
Proof. exact star_matches_everything. Qed.

Theorem c06_glob_question :
  glob_parse [63] = Some [TAtom AAny] /\ forall s, glob_match [TAtom AAny] s = true <-> exists b, s = [b].
Proof. exact question_matches_one_byte. Qed.

Theorem c06_glob_starstar :
  glob_parse [42; 42] = Some [TAtom ARecPre] /\ glob_parse [42; 42; 47] = Some [TAtom ARecPre] /\
  glob_parse [42; 42; 47; 42; 42] = Some [TAtom ARecPre] /\ forall s, glob_match [TAtom ARecPre] s = true.
Proof. exact starstar_matches_everything. Qed.

(** `p*` = the texts with prefix p; `*s` = the texts with suffix s; `*.ext` *)
Check prefix_pattern : forall p, no_meta p = true ->
  glob_parse (p ++ [42]) = Some (lits p ++ [TAtom AStar]) /\
  forall s, glob_match (lits p ++ [TAtom AStar]) s = true <-> exists w, s = p ++ w.
Theorem c06_glob_prefix : forall p, no_meta p = true ->
  glob_parse (p ++ [42]) = Some (lits p ++ [TAtom AStar]) /\
  forall s, glob_match (lits p ++ [TAtom AStar]) s = true <-> exists w, s = p ++ w.
Proof. exact prefix_pattern. Qed.

Check suffix_pattern : forall q, no_meta q = true ->
  glob_parse (42 :: q) = Some (TAtom AStar :: lits q) /\
  forall s, glob_match (TAtom AStar :: lits q) s = true <-> exists w, s = w ++ q.
Theorem c06_glob_suffix : forall q, no_meta q = true ->
  glob_parse (42 :: q) = Some (TAtom AStar :: lits q) /\
  forall s, glob_match (TAtom AStar :: lits q) s = true <-> exists w, s = w ++ q.
Proof. exact suffix_pattern. Qed.

Theorem c06_glob_extension : forall ext, no_meta ext = true ->
  glob_parse (42 :: 46 :: ext) = Some (TAtom AStar :: lits (46 :: ext)) /\
  forall s, glob_match (TAtom AStar :: lits (46 :: ext)) s = true <-> exists w, s = w ++ 46 :: ext.
Proof. exact extension_pattern. Qed.

(** `dir/**` = exactly the paths below dir; `**/name` = name at any depth *)
Check below_dir_pattern : forall d, no_meta d = true ->
  glob_parse (d ++ [47; 42; 42]) = Some (lits d ++ [TAtom ARecSuf]) /\
  forall s, glob_match (lits d ++ [TAtom ARecSuf]) s = true <-> exists w, s = d ++ 47 :: w.
Theorem c06_glob_below_dir : forall d, no_meta d = true ->
  glob_parse (d ++ [47; 42; 42]) = Some (lits d ++ [TAtom ARecSuf]) /\
  forall s, glob_match (lits d ++ [TAtom ARecSuf]) s = true <-> exists w, s = d ++ 47 :: w.
Proof. exact below_dir_pattern. Qed.

Check any_depth_pattern : forall n, no_meta n = true -> n <> [] ->
  glob_parse (42 :: 42 :: 47 :: n) = Some (TAtom ARecPre :: lits n) /\
  forall s, glob_match (TAtom ARecPre :: lits n) s = true <-> s = n \/ exists w, s = w ++ 47 :: n.
Theorem c06_glob_any_depth : forall n, no_meta n = true -> n <> [] ->
  glob_parse (42 :: 42 :: 47 :: n) = Some (TAtom ARecPre :: lits n) /\
  forall s, glob_match (TAtom ARecPre :: lits n) s = true <-> s = n \/ exists w, s = w ++ 47 :: n.
Proof. exact any_depth_pattern. Qed.

(** a class is one byte of the set; an ASCII range is the byte interval *)
Theorem c06_glob_class_range : forall b l h, range_has b ([l], [h]) = (l <=? b) && (b <=? h).
Proof. exact range_has_ascii. Qed.

Theorem c06_glob_class_example :
  glob_parse [91; 97; 45; 99; 93] = Some [TAtom (AClass false [([97], [99])])] /\
  forall s, glob_match [TAtom (AClass false [([97], [99])])] s = true <-> exists b, s = [b] /\ 97 <= b <= 99.
Proof. exact class_pattern_example. Qed.

(** the hypotheses are satisfiable, non-trivially: the statements above at `src/lib.rs`, `src/` `*`, `*.txt`,
    `src/**`, `**/lib.rs`, with what the parser and the matcher compute *)
Example c06_glob_instances :
  no_meta (nm "src/lib.rs") = true /\ no_meta (nm ".txt") = true /\ nm "lib.rs" <> [] /\
  glob_parse (nm "*.txt") = Some (TAtom AStar :: lits (nm ".txt")) /\
  glob_path_match (TAtom AStar :: lits (nm ".txt")) [nm "a"; nm "b.txt"] = true /\
  glob_path_match (TAtom AStar :: lits (nm ".txt")) [nm "b.txt.bak"] = false /\
  glob_parse (nm "src/**") = Some (lits (nm "src") ++ [TAtom ARecSuf]) /\
  glob_path_match (lits (nm "src") ++ [TAtom ARecSuf]) [nm "src"; nm "a"; nm "b"] = true /\
  glob_path_match (lits (nm "src") ++ [TAtom ARecSuf]) [nm "src"] = false /\
  glob_path_match (lits (nm "src") ++ [TAtom ARecSuf]) [nm "srcs"; nm "a"] = false /\
  glob_parse (nm "**/lib.rs") = Some (TAtom ARecPre :: lits (nm "lib.rs")) /\
  glob_path_match (TAtom ARecPre :: lits (nm "lib.rs")) [nm "lib.rs"] = true /\
  glob_path_match (TAtom ARecPre :: lits (nm "lib.rs")) [nm "a"; nm "b"; nm "lib.rs"] = true /\
  glob_path_match (TAtom ARecPre :: lits (nm "lib.rs")) [nm "a"; nm "xlib.rs"] = false.
Proof. vm_compute. repeat split; try reflexivity. intros H; discriminate H. Qed.

(** groups, escapes, the recursive infix, classes with `]` first and negation, as the parser reads them *)
Example c06_glob_syntax_instances :
  glob_parse (nm "{a,b}") = Some [TAlt [[ALit [98]]; [ALit [97]]]] /\
  glob_match [TAlt [[ALit [98]]; [ALit [97]]]] (nm "a") = true /\
  glob_match [TAlt [[ALit [98]]; [ALit [97]]]] (nm "ab") = false /\
  glob_parse (nm "a/**/b") = Some [TAtom (ALit [97]); TAtom ARecMid; TAtom (ALit [98])] /\
  glob_path_match [TAtom (ALit [97]); TAtom ARecMid; TAtom (ALit [98])] [nm "a"; nm "b"] = true /\
  glob_path_match [TAtom (ALit [97]); TAtom ARecMid; TAtom (ALit [98])] [nm "a"; nm "x"; nm "y"; nm "b"] = true /\
  glob_path_match [TAtom (ALit [97]); TAtom ARecMid; TAtom (ALit [98])] [nm "ab"] = false /\
  glob_parse (nm "\*[]a][!x-z]") =
    Some [TAtom (ALit [42]); TAtom (AClass false [([93], [93]); ([97], [97])]); TAtom (AClass true [([120], [122])])] /\
  glob_parse (nm "a**b") = Some [TAtom (ALit [97]); TAtom AStar; TAtom AStar; TAtom (ALit [98])] /\
  glob_parse (nm "a/**/**") = Some [TAtom (ALit [97]); TAtom ARecSuf].
Proof. vm_compute. repeat split. Qed.

(** what `Glob::new` refuses: unclosed class, reversed range, unclosed group, nested group, dangling `\` *)
Example c06_glob_errors :
  glob_parse_result (nm "[ab") = Some (PErr EUnclosedClass) /\
  glob_parse_result (nm "[]") = Some (PErr EUnclosedClass) /\
  glob_parse_result (nm "[z-a]") = Some (PErr EInvalidRange) /\
  glob_parse_result (nm "{a,b") = Some (PErr EUnclosedAlternates) /\
  glob_parse_result (nm "{a,{b}}") = Some (PErr ENestedAlternates) /\
  glob_parse_result (nm "ab\") = Some (PErr EDanglingEscape).
Proof. vm_compute. repeat split. Qed.

(** three things the library does that its documentation does not say (witnesses; each is replayed on the
    real library by the correspondence run):
    - a `}` without a `{` is NOT an error (`ErrorKind::UnopenedAlternates` is never raised): it is read as
      a group without branches, which matches the empty string, so `a}` is the glob `a`;
    - `?` and a class match one BYTE, not one character: `?` does not match `é` (C3 A9), `??` does, and
      `[é]` is the two-byte set {C3, A9};
    - inside a group, `**` after an escaped `,` takes the comma back: `{a\,**}` is `{a/**}`. *)
Example c06_glob_undocumented_behaviour :
  glob_parse (nm "a}") = Some [TAtom (ALit [97]); TAlt []] /\
  glob_match [TAtom (ALit [97]); TAlt []] (nm "a") = true /\
  glob_match [TAtom (ALit [97]); TAlt []] (nm "a}") = false /\
  glob_match [TAtom AAny] [195; 169] = false /\ glob_match [TAtom AAny; TAtom AAny] [195; 169] = true /\
  glob_parse [91; 195; 169; 93] = Some [TAtom (AClass false [([195; 169], [195; 169])])] /\
  glob_match [TAtom (AClass false [([195; 169], [195; 169])])] [195; 169] = false /\
  glob_match [TAtom (AClass false [([195; 169], [195; 169])])] [169] = true /\
  glob_parse (nm "{a\,**}") = Some [TAlt [[ALit [97]; ARecSuf]]] /\
  glob_match [TAlt [[ALit [97]; ARecSuf]]] (nm "a/x") = true /\
  glob_match [TAlt [[ALit [97]; ARecSuf]]] (nm "a,x") = false.
Proof. vm_compute. repeat split. Qed.

(** glob precedence with the concrete matcher and its declarative meaning *)
Check glob_precedence : forall p : list (list N),
  pattern_filter (list token) glob_path_match [] p = true /\
  (forall before inc g after,
      Matches g (joined p) -> (forall q, In q after -> ~ Matches (snd q) (joined p)) ->
      pattern_filter (list token) glob_path_match (before ++ (inc, g) :: after) p = inc) /\
  (forall inc0 g0 rest,
      (forall q, In q ((inc0, g0) :: rest) -> ~ Matches (snd q) (joined p)) ->
      pattern_filter (list token) glob_path_match ((inc0, g0) :: rest) p = negb inc0).
Theorem c06_glob_precedence : forall p : list (list N),
  pattern_filter (list token) glob_path_match [] p = true /\
  (forall before inc g after,
      Matches g (joined p) -> (forall q, In q after -> ~ Matches (snd q) (joined p)) ->
      pattern_filter (list token) glob_path_match (before ++ (inc, g) :: after) p = inc) /\
  (forall inc0 g0 rest,
      (forall q, In q ((inc0, g0) :: rest) -> ~ Matches (snd q) (joined p)) ->
      pattern_filter (list token) glob_path_match ((inc0, g0) :: rest) p = negb inc0).
Proof. exact glob_precedence. Qed.

(** with globs g1..gn the file at root-relative path p passes the glob rule iff the LAST gi with
    [Matches gi p] is an including glob, or none matches and there is no glob or g1 is an excluding one *)
Check glob_filter_decides : forall gs (p : list (list N)),
  pattern_filter (list token) glob_path_match gs p = true <->
  (exists before g after, gs = before ++ (true, g) :: after /\ Matches g (joined p) /\
                          forall q, In q after -> ~ Matches (snd q) (joined p)) \/
  ((forall q, In q gs -> ~ Matches (snd q) (joined p)) /\ (gs = [] \/ exists g0 rest, gs = (false, g0) :: rest)).
Theorem c06_glob_filter_decides : forall gs (p : list (list N)),
  pattern_filter (list token) glob_path_match gs p = true <->
  (exists before g after, gs = before ++ (true, g) :: after /\ Matches g (joined p) /\
                          forall q, In q after -> ~ Matches (snd q) (joined p)) \/
  ((forall q, In q gs -> ~ Matches (snd q) (joined p)) /\ (gs = [] \/ exists g0 rest, gs = (false, g0) :: rest)).
Proof. exact glob_filter_decides. Qed.

(** `--glob '*'` alone includes every file, `--glob '!*'` alone excludes every file *)
Check star_glob_alone :
  glob_args [[42]] = Some [(true, [TAtom AStar])] /\ glob_args [[33; 42]] = Some [(false, [TAtom AStar])] /\
  (forall p, pattern_filter (list token) glob_path_match [(true, [TAtom AStar])] p = true) /\
  (forall p, pattern_filter (list token) glob_path_match [(false, [TAtom AStar])] p = false) /\
  (forall s, glob_filter [[42]] s = Some true) /\ (forall s, glob_filter [[33; 42]] s = Some false).
Theorem c06_star_glob_alone :
  glob_args [[42]] = Some [(true, [TAtom AStar])] /\ glob_args [[33; 42]] = Some [(false, [TAtom AStar])] /\
  (forall p, pattern_filter (list token) glob_path_match [(true, [TAtom AStar])] p = true) /\
  (forall p, pattern_filter (list token) glob_path_match [(false, [TAtom AStar])] p = false) /\
  (forall s, glob_filter [[42]] s = Some true) /\ (forall s, glob_filter [[33; 42]] s = Some false).
Proof. exact star_glob_alone. Qed.

Theorem c06_star_glob_in_walk : forall (c : cfg (list token)) e,
  (patterns c = [(true, [TAtom AStar])] ->
   included (list token) glob_path_match c e = no_hidden (list token) c (fst e) && junk_ok (list token) c (fst e)) /\
  (patterns c = [(false, [TAtom AStar])] -> included (list token) glob_path_match c e = false).
Proof. exact star_glob_in_walk. Qed.

(** the refinement theorem at the concrete matcher: what `torrent create` lists, with real globs *)
Theorem c06_walk_refines_spec_globs : forall (c : cfg (list token)) root es,
  (follow_symlinks c = true \/ is_symlink root = false) ->
  resolve root = WDir es -> walk_error (list token) c (WDir es) = false ->
  walk_globs c root =
  WalkListing (isort (leb (sort_by c)) (filter (included (list token) glob_path_match c) (all_files (list token) c (WDir es)))).
Proof. exact (walk_refines_spec (list token) glob_path_match). Qed.

(** instance: --glob '*.txt' --glob '!a*' --glob 'a/keep.txt' on three paths and a path no glob matches *)
Example c06_glob_filter_instance :
  let args := [nm "*.txt"; nm "!a*"; nm "a/keep.txt"] in
  glob_filter args (nm "b/x.txt") = Some true /\ glob_filter args (nm "a/x.txt") = Some false /\
  glob_filter args (nm "a/keep.txt") = Some true /\ glob_filter args (nm "b/x.rs") = Some false /\
  glob_filter [nm "!*.bak"] (nm "b/x.rs") = Some true /\ glob_filter [nm "*.txt"; nm "[z-a]"] (nm "x") = None.
Proof. vm_compute. repeat split. Qed.

(** instance of the walk with real globs: the sample tree, hidden and junk files included, links followed,
    --glob '**/x' --glob '!.h/**' *)
Example c06_walk_globs_instance :
  glob_args [nm "**/x"; nm "!.h/**"] =
    Some [(true, TAtom ARecPre :: lits (nm "x")); (false, lits (nm ".h") ++ [TAtom ARecSuf])] /\
  walk_globs (Build_cfg true true true [(true, TAtom ARecPre :: lits (nm "x")); (false, lits (nm ".h") ++ [TAtom ARecSuf])] [])
             sample_tree = WalkListing [([nm "a"; nm "x"], 2)].
Proof. vm_compute. repeat split. Qed.

Print Assumptions c06_glob_match_decides.
Print Assumptions c06_glob_parse_fuel_suffices.
Print Assumptions c06_glob_parse_none_is_error.
Print Assumptions c06_glob_plain_pattern.
Print Assumptions c06_glob_anchored.
Print Assumptions c06_glob_star.
Print Assumptions c06_glob_question.
Print Assumptions c06_glob_starstar.
Print Assumptions c06_glob_prefix.
Print Assumptions c06_glob_suffix.
Print Assumptions c06_glob_extension.
Print Assumptions c06_glob_below_dir.
Print Assumptions c06_glob_any_depth.
Print Assumptions c06_glob_class_range.
Print Assumptions c06_glob_class_example.
Print Assumptions c06_glob_instances.
Print Assumptions c06_glob_syntax_instances.
Print Assumptions c06_glob_errors.
Print Assumptions c06_glob_undocumented_behaviour.
Print Assumptions c06_glob_precedence.
Print Assumptions c06_glob_filter_decides.
Print Assumptions c06_star_glob_alone.
Print Assumptions c06_star_glob_in_walk.
Print Assumptions c06_walk_refines_spec_globs.
Print Assumptions c06_glob_filter_instance.
Print Assumptions c06_walk_globs_instance.
