(** C13 — verify judges only files inside the content root.
    Only pinned statements, theorems closed by [exact], examples, [Print Assumptions].
    Model: Model/Fs.v (the kernel's component walk with "..", ".", absolute restarts;
    [PathBuf::push]), Model/Verify.v (the tree with the repaired [FilePath] deserialiser). *)
From Coq Require Import NArith ZArith List Bool.
From Imdl Require Import Base.Chunks Model.Bencode Model.Fs Model.Verify Proofs.FsProofs Proofs.LoaderProofs Proofs.VerifyProofs Proofs.VerifyExamples.
Import ListNotations.
Local Open Scope N_scope.

(** the screening the deserialiser applies (one [Normal] component equal to the whole string) admits
    exactly the plain names: non-empty, not "." or "..", no separator *)
Check screen_comp_plain : forall c, screen_comp c = true <-> plain c = true.
Theorem c13_screening_is_plain : forall c, screen_comp c = true <-> plain c = true.
Proof. exact screen_comp_plain. Qed.

(** every torrent the loader admits lists only plain components ... *)
Check load_screens : forall tb t, load tb = Some t -> Forall (fun f => plain_path (fpath f)) (files_of t).
Theorem c13_loader_admits_only_plain : forall tb t,
  load tb = Some t -> Forall (fun f => plain_path (fpath f)) (files_of t).
Proof. exact load_screens. Qed.
(** ... in particular every torrent the command's typed loader admits (X4: [load_typed] refuses more than [load]) *)
Check load_typed_screens : forall hd un tb t, load_typed hd un tb = Some t -> Forall (fun f => plain_path (fpath f)) (files_of t).
Theorem c13_typed_loader_admits_only_plain : forall hd un tb t,
  load_typed hd un tb = Some t -> Forall (fun f => plain_path (fpath f)) (files_of t).
Proof. exact load_typed_screens. Qed.

(** ... and a multi-file torrent listing any other component is refused, whatever else it says *)
Check load_info_rejects : forall i fl d l s,
  dlookup K_length i = None -> dlookup K_files i = Some (Lst fl) -> In (Dict d) fl ->
  dlookup K_path d = Some (Lst l) -> In (Str s) l -> plain s = false -> load_info i = None.
Theorem c13_hostile_component_refused : forall i fl d l s,
  dlookup K_length i = None -> dlookup K_files i = Some (Lst fl) -> In (Dict d) fl ->
  dlookup K_path d = Some (Lst l) -> In (Str s) l -> plain s = false -> load_info i = None.
Proof. exact load_info_rejects. Qed.

(** a plain path pushed onto any root is found by descending from the root's own node: nothing
    outside that subtree is consulted, on any filesystem *)
Check resolve_absolute_plain : forall fs comps root, plain_path comps ->
  resolve fs (absolute root comps) = match resolve fs root with Some r => lookup r comps | None => None end.
Theorem c13_plain_paths_are_confined : forall fs comps root, plain_path comps ->
  resolve fs (absolute root comps) = match resolve fs root with Some r => lookup r comps | None => None end.
Proof. exact resolve_absolute_plain. Qed.

(** ... and never leaves the root lexically *)
Theorem c13_plain_never_escapes : forall root comps, plain_path comps -> lex_escapes root comps = false.
Proof. exact plain_never_escapes. Qed.

(** the outcome of the command is the same on any two filesystems in which the content root
    resolves to the same node: decoys outside the root cannot matter *)
Check verify_cmd_confined : forall H MD5 sch hd un fs fs' cwd content base input tb,
  (forall t root, load_typed hd un tb = Some t ->
                  env_resolve cwd (content_root content base input (tname t)) = Some root ->
                  resolve fs root = resolve fs' root) ->
  verify_cmd H MD5 sch hd un fs cwd content base input tb = verify_cmd H MD5 sch hd un fs' cwd content base input tb.
Theorem c13_outcome_depends_only_on_root_subtree : forall H MD5 sch hd un fs fs' cwd content base input tb,
  (forall t root, load_typed hd un tb = Some t ->
                  env_resolve cwd (content_root content base input (tname t)) = Some root ->
                  resolve fs root = resolve fs' root) ->
  verify_cmd H MD5 sch hd un fs cwd content base input tb = verify_cmd H MD5 sch hd un fs' cwd content base input tb.
Proof. exact verify_cmd_confined. Qed.

(** success implies every judged path is plain, inside the root lexically, and found by descent *)
Check success_confined : forall H MD5 sch hd un fs cwd content base input tb,
  verify_cmd H MD5 sch hd un fs cwd content base input tb = Some Success ->
  exists t root, load_typed hd un tb = Some t /\
    env_resolve cwd (content_root content base input (tname t)) = Some root /\
    forall f, In f (files_of t) ->
      plain_path (fpath f) /\ lex_escapes root (fpath f) = false /\
      resolve fs (absolute root (fpath f)) = match resolve fs root with Some r => lookup r (fpath f) | None => None end.
Theorem c13_success_implies_confined : forall H MD5 sch hd un fs cwd content base input tb,
  verify_cmd H MD5 sch hd un fs cwd content base input tb = Some Success ->
  exists t root, load_typed hd un tb = Some t /\
    env_resolve cwd (content_root content base input (tname t)) = Some root /\
    forall f, In f (files_of t) ->
      plain_path (fpath f) /\ lex_escapes root (fpath f) = false /\
      resolve fs (absolute root (fpath f)) = match resolve fs root with Some r => lookup r (fpath f) | None => None end.
Proof. exact success_confined. Qed.

Theorem c13_escape_never_good : forall H MD5 sch hd un fs cwd content base input tb t,
  load_typed hd un tb = Some t ->
  (exists f root, In f (files_of t) /\ lex_escapes root (fpath f) = true) ->
  verify_cmd H MD5 sch hd un fs cwd content base input tb <> Some Success.
Proof. exact escape_never_good. Qed.

(** instances: in the model's filesystem "../decoy" and an absolute component really do reach a
    matching decoy outside the root (the defect before the repair); the loader refuses both *)
Example c13_ex_dotdot :
  let comps := [[DOT; DOT]; [100;101;99;111;121]] in
  let root := cwd_w ++ [SEP; 114] in
  resolve ex_fs (absolute root comps) = Some (File hi) /\
  lex_escapes root comps = true /\
  load (ex_multi (map Str comps)) = None /\ load_typed xid xid (ex_multi (map Str comps)) = None /\
  run (ex_multi (map Str comps)) = Some Rejected.
Proof. exact ex_escape_rejected. Qed.
Example c13_ex_absolute :
  let comps := [cwd_w ++ [SEP; 100;101;99;111;121]] in
  let root := cwd_w ++ [SEP; 114] in
  resolve ex_fs (absolute root comps) = Some (File hi) /\
  lex_escapes root comps = true /\
  run (ex_multi (map Str comps)) = Some Rejected.
Proof. exact ex_absolute_rejected. Qed.
Example c13_ex_plain_success : run (ex_multi [Str [102]]) = Some Success.
Proof. exact ex_multi_success. Qed.

Print Assumptions c13_screening_is_plain.
Print Assumptions c13_loader_admits_only_plain.
Print Assumptions c13_typed_loader_admits_only_plain.
Print Assumptions c13_hostile_component_refused.
Print Assumptions c13_plain_paths_are_confined.
Print Assumptions c13_plain_never_escapes.
Print Assumptions c13_outcome_depends_only_on_root_subtree.
Print Assumptions c13_success_implies_confined.
Print Assumptions c13_escape_never_good.
Print Assumptions c13_ex_dotdot.
Print Assumptions c13_ex_absolute.
Print Assumptions c13_ex_plain_success.
