(** C01 — Created torrent: piece hashes, lengths and MD5s match the content bytes.
    This file contains only pinned statements, theorems closed by [exact], examples and
    [Print Assumptions]. Model: Model/Hasher.v (src/hasher.rs line by line); proofs:
    Proofs/HasherProofs.v; specification of piece cutting: Base/Chunks.v.
    SHA-1 and MD5 are arbitrary functions [H], [MD5] (no property of them is used); the element
    type, digest types and path type are arbitrary. *)
From Coq Require Import NArith List Bool Arith.
From Imdl Require Import Base.Chunks Model.Hasher Proofs.HasherProofs.
Import ListNotations.

(** the headline: for every piece length > 0, every content (one file or a listed directory of
    any number of files of any sizes), with or without --md5, and every schedule of legal read
    sizes: the result is exactly (each file in listed order with its exact length and MD5,
    [H] of the consecutive piece-length blocks of the concatenated bytes) *)
Check @hash_files_spec :
  forall (byte digest md5d path : Type) (H : list byte -> digest) (MD5 : list byte -> md5d)
         (md5sum : bool) (p : nat) (sch : schedule) (c : content (byte:=byte) (path:=path)),
    0 < p -> error_free sch ->
    hash_files H MD5 md5sum p sch c = Ok (spec_mode MD5 md5sum c, spec_pieces H p c).
Theorem c01_hash_files_spec :
  forall (byte digest md5d path : Type) (H : list byte -> digest) (MD5 : list byte -> md5d)
         (md5sum : bool) (p : nat) (sch : schedule) (c : content (byte:=byte) (path:=path)),
    0 < p -> error_free sch ->
    hash_files H MD5 md5sum p sch c = Ok (spec_mode MD5 md5sum c, spec_pieces H p c).
Proof. exact @hash_files_spec. Qed.

(** what the specification side says, unfolded (so that the statement above can be read
    without the model file) *)
Theorem c01_spec_unfolded :
  forall (byte digest md5d path : Type) (H : list byte -> digest) (MD5 : list byte -> md5d)
         (md5sum : bool) (p : nat) (data : list byte) (fs : list (path * list byte)),
    spec_pieces H p (SingleFile (path:=path) data) = map H (chunks p data) /\
    spec_pieces H p (Directory fs) = map H (chunks p (concat (map snd fs))) /\
    spec_mode MD5 md5sum (SingleFile (path:=path) data) =
      Single (if md5sum then Some (MD5 data) else None) (N.of_nat (length data)) /\
    spec_mode MD5 md5sum (Directory fs) =
      Multiple (map (fun pd => (fst pd, (if md5sum then Some (MD5 (snd pd)) else None,
                                         N.of_nat (length (snd pd))))) fs).
Proof. intros. repeat split. Qed.

(** with schedules that may fail: a result, when there is one, is still exactly the specified
    one; otherwise the run ended in the propagated read error (no torrent is written) *)
Check @hash_files_sound :
  forall (byte digest md5d path : Type) (H : list byte -> digest) (MD5 : list byte -> md5d)
         (md5sum : bool) (p : nat) (sch : schedule) (c : content (byte:=byte) (path:=path)),
    0 < p ->
    match hash_files H MD5 md5sum p sch c with
    | Ok r => r = (spec_mode MD5 md5sum c, spec_pieces H p c)
    | IoError => exists j, sch j = Fail
    | Panic | OutOfFuel => False
    end.
Theorem c01_hash_files_sound :
  forall (byte digest md5d path : Type) (H : list byte -> digest) (MD5 : list byte -> md5d)
         (md5sum : bool) (p : nat) (sch : schedule) (c : content (byte:=byte) (path:=path)),
    0 < p ->
    match hash_files H MD5 md5sum p sch c with
    | Ok r => r = (spec_mode MD5 md5sum c, spec_pieces H p c)
    | IoError => exists j, sch j = Fail
    | Panic | OutOfFuel => False
    end.
Proof. exact @hash_files_sound. Qed.

(** shape of the blocks: they concatenate to the content; ceil(len/p) of them; none for empty
    content; otherwise all but the last have exactly p elements and the last is shorter
    exactly when the total is not a multiple of p *)
Check @chunks_shape :
  forall (A : Type) (p : nat) (l : list A),
    0 < p ->
    concat (chunks p l) = l /\
    length (chunks p l) = (length l + p - 1) / p /\
    (l = [] -> chunks p l = []) /\
    (l <> [] -> exists body lst,
        chunks p l = body ++ [lst] /\ Forall (fun b => length b = p) body /\
        0 < length lst <= p /\ (length lst < p <-> length l mod p <> 0)).
Theorem c01_chunks_shape :
  forall (A : Type) (p : nat) (l : list A),
    0 < p ->
    concat (chunks p l) = l /\
    length (chunks p l) = (length l + p - 1) / p /\
    (l = [] -> chunks p l = []) /\
    (l <> [] -> exists body lst,
        chunks p l = body ++ [lst] /\ Forall (fun b => length b = p) body /\
        0 < length lst <= p /\ (length lst < p <-> length l mod p <> 0)).
Proof. exact @chunks_shape. Qed.

(** independent of how the data is split into reads *)
Check @schedule_independent :
  forall (byte digest md5d path : Type) (H : list byte -> digest) (MD5 : list byte -> md5d)
         (md5sum : bool) (p : nat) (sch sch' : schedule) (c : content (byte:=byte) (path:=path)),
    0 < p -> error_free sch -> error_free sch' ->
    hash_files H MD5 md5sum p sch c = hash_files H MD5 md5sum p sch' c.
Theorem c01_schedule_independent :
  forall (byte digest md5d path : Type) (H : list byte -> digest) (MD5 : list byte -> md5d)
         (md5sum : bool) (p : nat) (sch sch' : schedule) (c : content (byte:=byte) (path:=path)),
    0 < p -> error_free sch -> error_free sch' ->
    hash_files H MD5 md5sum p sch c = hash_files H MD5 md5sum p sch' c.
Proof. exact @schedule_independent. Qed.

(** every legal read size is expressible by a schedule (the quantifier really is "all") *)
Theorem c01_schedule_complete :
  forall (byte : Type) (w : nat) (data : list byte) (k : nat),
    1 <= k <= Nat.min w (length data) -> legal (k - 1) w data = k.
Proof. exact @legal_complete. Qed.

(** standard input = single file, whatever the two read schedules; hence the same info
    dictionary for the same name and piece length *)
Check @stdin_equals_single_file :
  forall (byte digest md5d path : Type) (H : list byte -> digest) (MD5 : list byte -> md5d)
         (md5sum : bool) (p : nat) (sch sch' : schedule) (data : list byte),
    0 < p -> error_free sch -> error_free sch' ->
    hash_stdin (path:=path) H MD5 md5sum p sch data = hash_files H MD5 md5sum p sch' (SingleFile data).
Theorem c01_stdin_equals_single_file :
  forall (byte digest md5d path : Type) (H : list byte -> digest) (MD5 : list byte -> md5d)
         (md5sum : bool) (p : nat) (sch sch' : schedule) (data : list byte),
    0 < p -> error_free sch -> error_free sch' ->
    hash_stdin (path:=path) H MD5 md5sum p sch data = hash_files H MD5 md5sum p sch' (SingleFile data).
Proof. exact @stdin_equals_single_file. Qed.

Theorem c01_stdin_same_info :
  forall (byte digest md5d path : Type) (H : list byte -> digest) (MD5 : list byte -> md5d)
         (Info Name : Type) (build : Name -> nat -> outcome (mode (path:=path) * list digest) -> Info)
         (name : Name) (md5sum : bool) (p : nat) (sch sch' : schedule) (data : list byte),
    0 < p -> error_free sch -> error_free sch' ->
    build name p (hash_stdin H MD5 md5sum p sch data) =
    build name p (hash_files H MD5 md5sum p sch' (SingleFile data)).
Proof. exact @stdin_same_info. Qed.

Theorem c01_stdin_spec :
  forall (byte digest md5d path : Type) (H : list byte -> digest) (MD5 : list byte -> md5d)
         (md5sum : bool) (p : nat) (sch : schedule) (data : list byte),
    0 < p -> error_free sch ->
    hash_stdin (path:=path) H MD5 md5sum p sch data =
    Ok (Single (if md5sum then Some (MD5 data) else None) (N.of_nat (length data)),
        map H (chunks p data)).
Proof. exact @hash_stdin_spec. Qed.

(** the fuel suffices, the window subtraction never underflows, and a failing run is due to a
    failing read - for every piece length including 0 *)
Check @never_stuck :
  forall (byte digest md5d path : Type) (H : list byte -> digest) (MD5 : list byte -> md5d)
         (md5sum : bool) (p : nat) (sch : schedule) (c : content (byte:=byte) (path:=path)),
    hash_files H MD5 md5sum p sch c <> OutOfFuel /\
    hash_files H MD5 md5sum p sch c <> Panic /\
    (hash_files H MD5 md5sum p sch c = IoError -> exists j, sch j = Fail).
Theorem c01_fuel_suffices_no_panic :
  forall (byte digest md5d path : Type) (H : list byte -> digest) (MD5 : list byte -> md5d)
         (md5sum : bool) (p : nat) (sch : schedule) (c : content (byte:=byte) (path:=path)),
    hash_files H MD5 md5sum p sch c <> OutOfFuel /\
    hash_files H MD5 md5sum p sch c <> Panic /\
    (hash_files H MD5 md5sum p sch c = IoError -> exists j, sch j = Fail).
Proof. exact @never_stuck. Qed.

(** why the hypothesis 0 < p: with piece length 0 the hasher itself would report every file
    as empty and no pieces, whatever the content; [Create::run] returns
    [Error::PieceLengthZero] before hashing (checked on the real binary by the run) *)
Theorem c01_zero_piece_length_degenerate :
  forall (byte digest md5d path : Type) (H : list byte -> digest) (MD5 : list byte -> md5d)
         (md5sum : bool) (sch : schedule) (c : content (byte:=byte) (path:=path)),
    error_free sch ->
    hash_files H MD5 md5sum 0 sch c =
    Ok (match c with
        | SingleFile _ => Single (fst (spec_info MD5 md5sum [])) 0
        | Directory fs => Multiple (map (fun pd => (fst pd, spec_info MD5 md5sum [])) fs)
        end, []).
Proof. exact @zero_piece_length_degenerate. Qed.

(** the hypotheses are satisfiable, by non-trivial instances *)
Example c01_hypotheses_satisfiable :
  0 < 4 /\ error_free (fun _ => Count 0) /\ error_free (fun i => Count (i * 7 + 2)) /\
  error_free (sched_of_list [3; 1; 2]).
Proof.
  split; [repeat constructor|]. split; [intros i; discriminate|]. split; [intros i; discriminate|].
  intros i. unfold sched_of_list.
  destruct i as [|[|[|[|i]]]]; cbn; discriminate.
Qed.

(** three files of sizes 0, 5, 7, piece length 4, one-byte reads, --md5: 3 pieces, the second
    spanning the file boundary *)
Example c01_three_files :
  hash_files (fun b : list nat => b) (fun b : list nat => b) true 4 (fun _ => Count 0)
             (Directory [(10, []); (20, [1; 2; 3; 4; 5]); (30, [6; 7; 8; 9; 10; 11; 12])]) =
  Ok (Multiple [(10, (Some [], 0%N)); (20, (Some [1; 2; 3; 4; 5], 5%N));
                (30, (Some [6; 7; 8; 9; 10; 11; 12], 7%N))],
      [[1; 2; 3; 4]; [5; 6; 7; 8]; [9; 10; 11; 12]]).
Proof. vm_compute. reflexivity. Qed.

(** same content, piece length 5, an irregular schedule: a final shorter piece *)
Example c01_uneven_tail :
  hash_files (fun b : list nat => b) (fun b : list nat => b) false 5 (fun i => Count (i * 7 + 2))
             (Directory [(10, []); (20, [1; 2; 3; 4; 5]); (30, [6; 7; 8; 9; 10; 11; 12])]) =
  Ok (Multiple [(10, (None, 0%N)); (20, (None, 5%N)); (30, (None, 7%N))],
      [[1; 2; 3; 4; 5]; [6; 7; 8; 9; 10]; [11; 12]]).
Proof. vm_compute. reflexivity. Qed.

(** the error branch is reachable and yields no result *)
Example c01_failing_read :
  hash_files (path:=nat) (fun b : list nat => b) (fun b : list nat => b) false 4 (sched_of_list [2; 0])
             (SingleFile [1; 2; 3; 4; 5]) = IoError.
Proof. vm_compute. reflexivity. Qed.

Print Assumptions c01_hash_files_spec.
Print Assumptions c01_spec_unfolded.
Print Assumptions c01_hash_files_sound.
Print Assumptions c01_chunks_shape.
Print Assumptions c01_schedule_independent.
Print Assumptions c01_schedule_complete.
Print Assumptions c01_stdin_equals_single_file.
Print Assumptions c01_stdin_same_info.
Print Assumptions c01_stdin_spec.
Print Assumptions c01_fuel_suffices_no_panic.
Print Assumptions c01_zero_piece_length_degenerate.
Print Assumptions c01_hypotheses_satisfiable.
Print Assumptions c01_three_files.
Print Assumptions c01_uneven_tail.
Print Assumptions c01_failing_read.
