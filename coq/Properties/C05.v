(** C05 — created metainfo states exactly what was requested, canonically and reproducibly.
    This file contains only theorems closed by [exact] (or by computation on generated tables),
    examples showing the hypotheses are satisfiable, and [Print Assumptions].
    Model: Model/Metainfo.v, Model/Schema.v, Model/MetainfoOrder.v (+ Model/Bencode.v, Model/Picker.v);
    proofs: Proofs/MetainfoProofs.v, Proofs/SchemaProofs.v, Proofs/MetainfoOrderProofs.v, Proofs/BencodeProofs.v;
    tables regenerated from /repo on every run: Generated/GenSchema.v, Generated/GenCreate.v.

    Environment (external code, universally quantified in every theorem, never axioms):
      norm       : url crate, Url::parse(x).to_string()      (--announce, --update-url)
      url_ok     : url crate, Url::parse(x).is_ok()          (--announce-tier members)
      host_canon : url crate Host parse + Display, brackets aside (--node)
      git_suffix : GIT_HEAD_PARTIAL_HASH of the build        (`created by`) *)
From Coq Require Import Ascii String.
From Coq Require Import NArith ZArith Bool List Sorted Permutation.
From Imdl Require Import Model.Bencode Model.Schema Model.Picker Model.Metainfo Model.MetainfoOrder
  Proofs.BencodeProofs Proofs.SchemaProofs Proofs.MetainfoProofs Proofs.MetainfoOrderProofs
  Generated.GenSchema Generated.GenCreate.
Import ListNotations.
Local Open Scope N_scope.

(** (T) the translator understood the current sources *)
Theorem c05_sources_translated : GenSchema.translated = true /\ GenCreate.translated = true.
Proof. split; reflexivity. Qed.

(** (T) the serde attributes in the source give exactly the BEP keys the property names, with the
    optional ones skipped when None; Mode is untagged and flattened into Info; FilePath is
    transparent; `encoding` is the constant UTF-8 *)
Theorem c05_schema_is_bep :
  same_keys (schema_keys GenSchema.metainfo_fields)
    [(txt "announce", true); (txt "announce-list", true); (txt "comment", true); (txt "created by", true);
     (txt "creation date", true); (txt "encoding", true); (txt "info", false); (txt "nodes", true)] = true /\
  same_keys (schema_keys GenSchema.info_fields)
    [(txt "private", true); (txt "piece length", false); (txt "name", false); (txt "source", true);
     (txt "pieces", false); (txt "update-url", true)] = true /\
  GenSchema.metainfo_flatten = [] /\ GenSchema.info_flatten = ["mode"%string] /\
  GenSchema.mode_untagged = true /\ GenSchema.mode_variants = ["Single"%string; "Multiple"%string] /\
  same_keys (schema_keys GenSchema.mode_single_fields) [(txt "length", false); (txt "md5sum", true)] = true /\
  same_keys (schema_keys GenSchema.mode_multiple_fields) [(txt "files", false)] = true /\
  same_keys (schema_keys GenSchema.file_info_fields)
    [(txt "length", false); (txt "path", false); (txt "md5sum", true)] = true /\
  GenSchema.file_info_flatten = [] /\ GenSchema.file_path_transparent = true /\
  GenCreate.encoding_utf8 = txt "UTF-8".
Proof. repeat split; vm_compute; reflexivity. Qed.

(** (T) the rust types behind the keys are the ones whose serialisation the model writes *)
Theorem c05_field_types :
  GenSchema.metainfo_types =
    [("announce", "Option<String>"); ("announce_list", "Option<Vec<Vec<String>>>"); ("comment", "Option<String>");
     ("created_by", "Option<String>"); ("creation_date", "Option<u64>"); ("encoding", "Option<String>");
     ("info", "Info"); ("nodes", "Option<Vec<HostPort>>")]%string /\
  GenSchema.info_types =
    [("private", "Option<bool>"); ("piece_length", "Bytes"); ("name", "String"); ("source", "Option<String>");
     ("pieces", "PieceList"); ("mode", "Mode"); ("update_url", "Option<Url>")]%string /\
  GenSchema.mode_single_types = [("length", "Bytes"); ("md5sum", "Option<Md5Digest>")]%string /\
  GenSchema.mode_multiple_types = [("files", "Vec<FileInfo>")]%string /\
  GenSchema.file_info_types = [("length", "Bytes"); ("path", "FilePath"); ("md5sum", "Option<Md5Digest>")]%string /\
  GenSchema.file_path_types = [("components", "Vec<String>")]%string.
Proof. repeat split; reflexivity. Qed.

(** bendy refuses a repeated key; with the keys of the current schema that never happens: assembly
    and serialisation succeed for every command line and content (the one refusal is stdin
    without --name, which clap rejects earlier) *)
Theorem c05_serialisation_never_fails :
  forall norm host_canon git_suffix o c,
    name_of o (c_input c) <> None -> exists v, build norm host_canon git_suffix o c = Some v.
Proof. exact build_total. Qed.

Theorem c05_duplicate_key_would_fail : forall k v w, save_all [(k, Some v); (k, Some w)] [] = None.
Proof. exact save_all_duplicate_fails. Qed.

(** canonical: whenever create gets as far as writing, the value written has strictly increasing
    keys in every dictionary and i64 integers; the strict reader (bendy's rules: minimal integers
    and lengths, sorted unique keys) reads the bytes back as that value with nothing left over;
    and no fuel makes it read anything else *)
Theorem c05_canonical :
  forall norm url_ok host_canon git_suffix o c v,
    input_ok (c_input c) = true -> opts_ok o = true ->
    run_create norm url_ok host_canon git_suffix o c = Some v ->
    wfb v = true /\
    decode (vsize v) (encode v) = Some (v, []) /\
    (forall fuel v' rest, decode fuel (encode v) = Some (v', rest) -> v' = v /\ rest = []).
Proof. exact create_canonical. Qed.

(** the checks that run before anything is serialised *)
Theorem c05_checks_before_write :
  forall norm url_ok host_canon git_suffix o c v,
    run_create norm url_ok host_canon git_suffix o c = Some v ->
    build norm host_canon git_suffix o c = Some v /\
    0 < piece_length_of o (c_input c) < 2 ^ 32 /\
    (o_allow_small o = false -> 16 * 1024 <= piece_length_of o (c_input c)) /\
    (o_allow_uneven o = false -> is_pow2 (piece_length_of o (c_input c)) = true) /\
    (o_private o = true -> o_allow_private_trackerless o = false -> o_announce o <> None) /\
    (forall t u, In t (o_tiers o) -> In u (split_on 44 t) -> url_ok u = true).
Proof. exact run_create_build. Qed.

(** one lookup theorem per requested field: present with the requested value when given, absent
    (None) when not *)
Theorem c05_announce :
  forall norm host_canon git_suffix o c v, build norm host_canon git_suffix o c = Some v ->
    vget (txt "announce") v = option_map (fun u => Str (norm u)) (o_announce o).
Proof. exact get_announce. Qed.

Theorem c05_announce_list :
  forall norm host_canon git_suffix o c v, build norm host_canon git_suffix o c = Some v ->
    vget (txt "announce-list") v =
      match o_tiers o with
      | [] => None
      | _ => Some (Lst (map (fun t => Lst (map Str (split_on 44 t))) (o_tiers o)))
      end.
Proof. exact get_announce_list. Qed.

(** `--announce-tier a,b,c` is the tier [a; b; c], in order *)
Theorem c05_tier_members_in_order :
  forall l, l <> [] -> Forall (fun u => ~ In 44 u) l -> split_on 44 (join 44 l) = l.
Proof. exact (split_join 44). Qed.

Theorem c05_comment :
  forall norm host_canon git_suffix o c v, build norm host_canon git_suffix o c = Some v ->
    vget (txt "comment") v = option_map Str (o_comment o).
Proof. exact get_comment. Qed.

Theorem c05_created_by :
  forall norm host_canon git_suffix o c v, build norm host_canon git_suffix o c = Some v ->
    vget (txt "created by") v =
      if o_no_created_by o then None else Some (Str (GenCreate.created_by_prefix ++ git_suffix)).
Proof. exact get_created_by. Qed.

Theorem c05_creation_date :
  forall norm host_canon git_suffix o c v, build norm host_canon git_suffix o c = Some v ->
    vget (txt "creation date") v = if o_no_creation_date o then None else Some (Int (Z.of_N (o_now o))).
Proof. exact get_creation_date. Qed.

Theorem c05_encoding :
  forall norm host_canon git_suffix o c v, build norm host_canon git_suffix o c = Some v ->
    vget (txt "encoding") v = Some (Str (txt "UTF-8")).
Proof. exact get_encoding. Qed.

Theorem c05_nodes :
  forall norm host_canon git_suffix o c v, build norm host_canon git_suffix o c = Some v ->
    vget (txt "nodes") v =
      match o_nodes o with
      | [] => None
      | _ => Some (Lst (map (fun n => Lst [Str (host_canon (unbracket (fst n))); Int (Z.of_N (snd n))]) (o_nodes o)))
      end.
Proof. exact get_nodes. Qed.

(** an IPv6 node loses exactly its brackets; domains and IPv4 addresses are untouched *)
Theorem c05_node_brackets :
  (forall s, unbracket (91 :: s ++ [93]) = s) /\ (forall h, hd_is 91 h = None -> unbracket h = h).
Proof. exact (conj unbracket_brackets unbracket_plain). Qed.

Theorem c05_info_name :
  forall norm host_canon git_suffix o c v, build norm host_canon git_suffix o c = Some v ->
    iget (txt "name") v = option_map Str (name_of o (c_input c)).
Proof. exact get_info_name. Qed.

Theorem c05_info_piece_length :
  forall norm host_canon git_suffix o c v, build norm host_canon git_suffix o c = Some v ->
    iget (txt "piece length") v = Some (Int (Z.of_N (piece_length_of o (c_input c)))).
Proof. exact get_info_piece_length. Qed.

Theorem c05_info_private :
  forall norm host_canon git_suffix o c v, build norm host_canon git_suffix o c = Some v ->
    iget (txt "private") v = if o_private o then Some (Int 1) else None.
Proof. exact get_info_private. Qed.

Theorem c05_info_source :
  forall norm host_canon git_suffix o c v, build norm host_canon git_suffix o c = Some v ->
    iget (txt "source") v = option_map Str (o_source o).
Proof. exact get_info_source. Qed.

Theorem c05_info_update_url :
  forall norm host_canon git_suffix o c v, build norm host_canon git_suffix o c = Some v ->
    iget (txt "update-url") v = option_map (fun u => Str (norm u)) (o_update_url o).
Proof. exact get_info_update_url. Qed.

Theorem c05_info_pieces :
  forall norm host_canon git_suffix o c v, build norm host_canon git_suffix o c = Some v ->
    iget (txt "pieces") v = Some (Str (c_pieces c)).
Proof. exact get_info_pieces. Qed.

(** options not given leave their keys absent *)
Theorem c05_absent_when_not_given :
  forall norm host_canon git_suffix o c v, build norm host_canon git_suffix o c = Some v ->
    (o_announce o = None -> vget (txt "announce") v = None) /\
    (o_tiers o = [] -> vget (txt "announce-list") v = None) /\
    (o_comment o = None -> vget (txt "comment") v = None) /\
    (o_nodes o = [] -> vget (txt "nodes") v = None) /\
    (o_no_created_by o = true -> vget (txt "created by") v = None) /\
    (o_no_creation_date o = true -> vget (txt "creation date") v = None) /\
    (o_source o = None -> iget (txt "source") v = None) /\
    (o_update_url o = None -> iget (txt "update-url") v = None) /\
    (o_private o = false -> iget (txt "private") v = None) /\
    (o_md5 o = false -> iget (txt "md5sum") v = None).
Proof. exact absent_when_not_given. Qed.

(** and nothing else is ever written, at the top level or in `info` *)
Theorem c05_no_other_keys :
  (forall norm host_canon git_suffix o c v q x, build norm host_canon git_suffix o c = Some v ->
     vget q v = Some x ->
     In q [txt "announce"; txt "announce-list"; txt "comment"; txt "created by"; txt "creation date";
           txt "encoding"; txt "info"; txt "nodes"]) /\
  (forall norm host_canon git_suffix o c v q x, build norm host_canon git_suffix o c = Some v ->
     iget q v = Some x ->
     In q [txt "private"; txt "piece length"; txt "name"; txt "source"; txt "pieces"; txt "length";
           txt "md5sum"; txt "files"; txt "update-url"]).
Proof. exact (conj no_other_top_keys no_other_info_keys). Qed.

(** single-file shape: `length` (and `md5sum` iff --md5), no `files` *)
Theorem c05_single_shape :
  forall norm host_canon git_suffix o c v l m, build norm host_canon git_suffix o c = Some v ->
    single_of (c_input c) = Some (l, m) ->
    iget (txt "length") v = Some (Int (Z.of_N l)) /\
    iget (txt "md5sum") v = (if o_md5 o then Some (Str m) else None) /\
    iget (txt "files") v = None.
Proof. exact single_shape. Qed.

(** multi-file shape: `files` lists the walker's files in order, each with exactly length, path
    (and md5sum iff --md5); no `length` / `md5sum` beside it *)
Theorem c05_multi_shape :
  forall norm host_canon git_suffix o c v n fs, build norm host_canon git_suffix o c = Some v ->
    c_input c = InDir n fs ->
    iget (txt "length") v = None /\ iget (txt "md5sum") v = None /\
    exists es, iget (txt "files") v = Some (Lst es) /\
      Forall2 (fun f e =>
        vget (txt "length") e = Some (Int (Z.of_N (f_length f))) /\
        vget (txt "path") e = Some (Lst (map Str (f_path f))) /\
        vget (txt "md5sum") e = (if o_md5 o then Some (Str (f_md5 f)) else None) /\
        (forall q x, vget q e = Some x -> In q [txt "length"; txt "path"; txt "md5sum"])) fs es.
Proof. exact multi_shape. Qed.

(** reproducible: with --no-creation-date the outcome is a function of the command line and the
    content handed over by the walker and the hasher — the clock plays no part *)
Theorem c05_reproducible :
  forall norm url_ok host_canon git_suffix o c t, o_no_creation_date o = true ->
    run_create norm url_ok host_canon git_suffix (with_now o t) c = run_create norm url_ok host_canon git_suffix o c.
Proof. exact reproducible. Qed.

(** the walker's order (derived Ord of FilePath: lexicographic over components, bytewise) yields the
    given entries in strictly ascending path order ... *)
Theorem c05_walk_order_sorted_same_entries :
  forall l, NoDup (map f_path l) ->
    StronglySorted (fun f g => path_ltb (f_path f) (f_path g) = true) (walk_order l) /\ Permutation (walk_order l) l.
Proof. exact walk_order_spec. Qed.

(** ... so it is a function of the set of directory entries, whatever order they come in *)
Theorem c05_order_independent :
  forall l1 l2, NoDup (map f_path l1) -> Permutation l1 l2 -> walk_order l1 = walk_order l2.
Proof. exact walk_order_of_set. Qed.

(** reproducible, in full: with --no-creation-date two runs over the same directory give the same
    outcome whatever the enumeration order of the entries and whatever the clock ([hash] = the
    hasher, applied to the files in walker order) *)
Theorem c05_reproducible_any_creation_order :
  forall norm url_ok host_canon git_suffix (hash : list file -> bytes) o name l1 l2 t1 t2,
    o_no_creation_date o = true -> NoDup (map f_path l1) -> Permutation l1 l2 ->
    run_create norm url_ok host_canon git_suffix (with_now o t1) (dir_content hash name l1) =
    run_create norm url_ok host_canon git_suffix (with_now o t2) (dir_content hash name l2).
Proof. exact reproducible_any_order. Qed.

Example c05_order_instance :
  let l1 := [ {| f_path := [txt "sub"; txt "b"]; f_length := 0; f_md5 := [] |};
              {| f_path := [txt "a"]; f_length := 3; f_md5 := [] |};
              {| f_path := [txt "Z"; txt "a"]; f_length := 1; f_md5 := [] |} ] in
  NoDup (map f_path l1) /\ Permutation l1 (rev l1) /\
  map f_path (walk_order l1) = [[txt "Z"; txt "a"]; [txt "a"]; [txt "sub"; txt "b"]] /\
  walk_order (rev l1) = walk_order l1.
Proof.
  cbv zeta. split; [|split; [apply Permutation_rev|split; vm_compute; reflexivity]].
  repeat constructor; intros H; vm_compute in H; repeat (destruct H as [H|H]; [discriminate H|]); exact H.
Qed.

(** and without the flag the clock shows under `creation date` only *)
Theorem c05_clock_only_in_creation_date :
  forall norm host_canon git_suffix o c t v v',
    build norm host_canon git_suffix o c = Some v -> build norm host_canon git_suffix (with_now o t) c = Some v' ->
    forall q, q <> txt "creation date" -> vget q v' = vget q v.
Proof. exact clock_only_in_creation_date. Qed.

(** the hypotheses above are satisfiable by a non-trivial instance (all options given, mixed
    nodes, two tiers, multi-file with md5), and on it the model writes byte for byte what the
    independent Python encoder writes *)
Example c05_instance :
  create_bytes (fun u => u) (fun _ => true) (fun h => h) [] ex_opts ex_content = Some ex_bytes /\
  input_ok (c_input ex_content) = true /\ opts_ok ex_opts = true /\ name_of ex_opts (c_input ex_content) <> None.
Proof. exact ex_instance. Qed.

Example c05_tier_split_instance :
  [txt "http://a.example/announce"; txt "udp://b.example:1337/announce"] <> [] /\
  Forall (fun u => ~ In 44 u) [txt "http://a.example/announce"; txt "udp://b.example:1337/announce"].
Proof.
  split; [discriminate|].
  repeat constructor; intros H; vm_compute in H; repeat (destruct H as [H|H]; [discriminate H|]); exact H.
Qed.

Print Assumptions c05_sources_translated.
Print Assumptions c05_schema_is_bep.
Print Assumptions c05_field_types.
Print Assumptions c05_serialisation_never_fails.
Print Assumptions c05_duplicate_key_would_fail.
Print Assumptions c05_canonical.
Print Assumptions c05_checks_before_write.
Print Assumptions c05_announce.
Print Assumptions c05_announce_list.
Print Assumptions c05_tier_members_in_order.
Print Assumptions c05_comment.
Print Assumptions c05_created_by.
Print Assumptions c05_creation_date.
Print Assumptions c05_encoding.
Print Assumptions c05_nodes.
Print Assumptions c05_node_brackets.
Print Assumptions c05_info_name.
Print Assumptions c05_info_piece_length.
Print Assumptions c05_info_private.
Print Assumptions c05_info_source.
Print Assumptions c05_info_update_url.
Print Assumptions c05_info_pieces.
Print Assumptions c05_absent_when_not_given.
Print Assumptions c05_no_other_keys.
Print Assumptions c05_single_shape.
Print Assumptions c05_multi_shape.
Print Assumptions c05_reproducible.
Print Assumptions c05_walk_order_sorted_same_entries.
Print Assumptions c05_order_independent.
Print Assumptions c05_reproducible_any_creation_order.
Print Assumptions c05_order_instance.
Print Assumptions c05_clock_only_in_creation_date.
Print Assumptions c05_instance.
Print Assumptions c05_tier_split_instance.

(* ================================================================== X10: the url crate's normal form, concretely *)

(** [norm] above is any function. For tracker-style URLs it is now a concrete one: Model/UrlNorm.v transcribes url 2.5.2
    `Url::parse` + `to_string` (scheme, `//` authority with userinfo, host — X9's [u_hparse] for special schemes, the
    opaque-host rules otherwise —, port, path with dot segments, query, fragment, the percent-encode sets, trimming and
    tab / newline removal) with three outcomes: [None] outside the modelled fragment, [Some None] refused,
    [Some (Some v)] normal form [v]; the `url_norm` hook is compared with it on every run (tools/props/urlnorm.py).
    [is_normal_url] is a syntactic, decidable predicate: the text splits at its delimiters into pieces that the encoders
    leave alone, host in printed form, port a non-default u16, no dot segment, and the pieces put together are the text. *)
From Imdl Require Import Model.HostPort Model.UrlHost Model.UrlNorm Proofs.UrlNormProofs Proofs.UrlNormUses.

Check u_norm : bytes -> option (option bytes).
Check is_normal_url : bytes -> bool.

(** a normal form is visible ASCII: no space, tab, LF, CR, control or non-ASCII byte *)
Theorem c05_url_normal_form_is_visible_ascii :
  forall u v, u_norm u = Some (Some v) -> forallb (fun b => (32 <? b) && (b <? 127)) v = true.
Proof. exact u_norm_ascii. Qed.

(** what was requested is stored exactly, for every URL written in normal form *)
Theorem c05_url_norm_fixed : forall u, is_normal_url u = true -> u_norm u = Some (Some u).
Proof. exact u_norm_fixed. Qed.

(** whatever the parser returns is in normal form ... *)
Theorem c05_url_norm_normal : forall u v, u_norm u = Some (Some v) -> is_normal_url v = true.
Proof. exact u_norm_normal. Qed.

(** ... hence a fixed point *)
Theorem c05_url_norm_idempotent : forall u v, u_norm u = Some (Some v) -> u_norm v = Some (Some v).
Proof. exact u_norm_idempotent. Qed.

(** with the model as [norm]: `announce` / `update-url` equal the given text for every normal URL *)
Theorem c05_normal_url_stored_verbatim :
  forall ext host_canon git_suffix o c v,
    build (u_norm_with ext) host_canon git_suffix o c = Some v ->
    (forall u, o_announce o = Some u -> is_normal_url u = true -> vget (txt "announce") v = Some (Str u)) /\
    (forall u, o_update_url o = Some u -> is_normal_url u = true -> iget (txt "update-url") v = Some (Str u)).
Proof. exact normal_url_stored_verbatim. Qed.

(** and re-creating from the stored value stores the same value *)
Theorem c05_stored_url_is_a_fixed_point :
  forall ext host_canon git_suffix o c v u s,
    build (u_norm_with ext) host_canon git_suffix o c = Some v -> o_announce o = Some u -> u_norm u = Some (Some s) ->
    vget (txt "announce") v = Some (Str s) /\ u_norm s = Some (Some s) /\
    forall o' c' v', build (u_norm_with ext) host_canon git_suffix o' c' = Some v' ->
      (o_announce o' = Some s -> vget (txt "announce") v' = Some (Str s)) /\
      (o_update_url o' = Some s -> iget (txt "update-url") v' = Some (Str s)).
Proof. exact stored_url_is_a_fixed_point. Qed.

(** the predicate is inhabited: the URL shapes the checks use *)
Example c05_normal_url_instances :
  forallb is_normal_url
    [txt "http://example.com/announce"; txt "https://tracker.example.org:8443/announce"; txt "udp://tracker.example:1337/announce";
     txt "udp://tracker.example:1337"; txt "http://[2001:db8::1]:6969/announce"; txt "http://192.0.2.7:8080/a?x=1&y=2";
     txt "wss://t.example/"; txt "https://example.com/path%20with%20space"; txt "http://user:pw@example.com/";
     txt "https://example.com/feed.xml#frag"; txt "udp://EXAMPLE.com:80"; txt "udp://[::1]:5/a/b"; txt "x://h"] = true /\
  forallb (fun u => negb (is_normal_url u))
    [txt "HTTP://example.com/"; txt "http://example.com"; txt "http://example.com:80/"; txt "http://example.com:081/";
     txt "http://example.com/a/../b"; txt "http://example.com/%2e/"; txt "http://example.com/a b"; txt "http://EXAMPLE.com/";
     txt "http://[2001:DB8::1]/"; txt "http://u:@h/"; txt "http://h:/"; txt "mailto:x"; txt "file:///x"; txt "http:/h/"] = true.
Proof. split; vm_compute; reflexivity. Qed.

(** the recorded rows of URL_NORMALISING (tools/props/c05.py) that lie in the fragment, computed by the model *)
Example c05_url_norm_rows :
  u_norm (txt "HTTP://EXAMPLE.COM/Announce") = Some (Some (txt "http://example.com/Announce")) /\
  u_norm (txt "http://example.com") = Some (Some (txt "http://example.com/")) /\
  u_norm (txt "http://example.com:80/announce") = Some (Some (txt "http://example.com/announce")) /\
  u_norm (txt "https://example.com:443/a/../b") = Some (Some (txt "https://example.com/b")) /\
  u_norm (txt "http://example.com/a b") = Some (Some (txt "http://example.com/a%20b")) /\
  u_norm (txt "udp://EXAMPLE.com:80") = Some (Some (txt "udp://EXAMPLE.com:80")) /\
  u_norm (txt "http://[2001:DB8:0:0:0:0:0:1]:6969/x") = Some (Some (txt "http://[2001:db8::1]:6969/x")) /\
  u_norm (txt "http://example.com/?q=a b#frag") = Some (Some (txt "http://example.com/?q=a%20b#frag")).
Proof. repeat split; vm_compute; reflexivity. Qed.

(** refusals, the edges of the fragment, and the oddities the transcription keeps *)
Example c05_url_norm_edges :
  u_norm (txt "http://") = Some None /\ u_norm (txt "notaurl") = Some None /\ u_norm (txt "http://h:65536/") = Some None /\
  u_norm (txt "http://u@/") = Some None /\ u_norm (txt "udp://h\x") = Some None /\
  u_norm (txt "mailto:x") = None /\ u_norm (txt "file:///x") = None /\ u_norm (txt "udp:/x") = None /\ u_norm (txt "http://a%41/") = None /\
  u_norm (txt "http:\\a\b\..\c") = Some (Some (txt "http://a/c")) /\
  u_norm (txt "http://h/a/c:/..") = Some (Some (txt "http://h/a/c:/")) /\
  u_norm (txt "http://u:@h:00080/%2E%2e/x") = Some (Some (txt "http://u@h/x")) /\
  u_norm (txt "udp://h:1\x") = Some (Some (txt "udp://h:1/\x")) /\
  u_norm (txt "  http://0x7f.1/?'  ") = Some (Some (txt "http://127.0.0.1/?%27")).
Proof. repeat split; vm_compute; reflexivity. Qed.

Print Assumptions c05_url_normal_form_is_visible_ascii.
Print Assumptions c05_url_norm_fixed.
Print Assumptions c05_url_norm_normal.
Print Assumptions c05_url_norm_idempotent.
Print Assumptions c05_normal_url_stored_verbatim.
Print Assumptions c05_stored_url_is_a_fixed_point.
Print Assumptions c05_normal_url_instances.
Print Assumptions c05_url_norm_rows.
Print Assumptions c05_url_norm_edges.

(* ================================================================== X14: the url crate concrete in every place *)

(** Until X14 [norm], [url_ok] and [host_canon] were `Section` variables of Model/Metainfo.v in every theorem above (X10's
    corollaries kept an arbitrary [ext] for the texts outside the fragment). Model/UrlConcrete.v now gives the instances:
    [c_norm] / [c_url_ok] (X10's [u_norm]; acceptance also for non-special schemes without `//`, which `parse_non_special`
    never refuses), [c_host_canon] (X9's [u_hparse] of the text - of `[text]` when it contains a colon - followed by std's
    Display, which is what `Tuple::from(&HostPort)` stores). What the instances leave open is stated by boolean predicates on
    the INPUTS: [opts_in_fragment o] = --announce / --update-url are URLs the model parses, every tier member is a text
    whose acceptance the model decides, every node host is a host the model accepts. The instances are compared with the
    `url_norm` / `hpben` hooks and with the bytes the real binary writes on every run of this check (tools/props/c05.py,
    tools/props/urlconcrete.py). *)
From Imdl Require Import Model.UrlConcrete Proofs.UrlConcreteProofs Proofs.UrlConcreteUses.

(** what the older statements would have had to assume of [norm] / [url_ok]: identity on normal forms, idempotence (on EVERY
    text), and for an accepted text: the stored form is the model's normal form, is in normal form, is accepted again *)
Theorem c05_concrete_norm_is_a_normaliser :
  (forall u, is_normal_url u = true -> c_norm u = u) /\ (forall t, c_norm (c_norm t) = c_norm t) /\
  (forall u, is_normal_url u = true -> c_url_ok u = true /\ url_in_fragment u = true) /\
  (forall t, opt_url_accepted (Some t) = true ->
     u_norm t = Some (Some (c_norm t)) /\ is_normal_url (c_norm t) = true /\
     c_url_norm t = Some (c_norm t) /\ c_url_norm (c_norm t) = Some (c_norm t) /\
     c_url_ok t = true /\ c_url_ok (c_norm t) = true /\ c_norm (c_norm t) = c_norm t /\
     (is_normal_url t = true -> c_norm t = t)).
Proof. exact (conj c_norm_fixed (conj c_norm_idempotent (conj c_url_ok_normal c_norm_accepted))). Qed.

(** the acceptance test: inside the fragment of [u_norm] it accepts exactly the texts that have a normal form; the wider
    fragment (no `//` after a non-special scheme) only speaks where [u_norm] is silent *)
Theorem c05_concrete_url_ok :
  (forall t, url_in_fragment t = true -> (c_url_ok t = true <-> exists u, c_url_norm t = Some u)) /\
  (forall t, url_no_authority t = true -> u_norm t = None /\ c_url_ok t = true).
Proof. exact (conj c_url_ok_spec (fun t H => conj (url_no_authority_outside t H) (c_url_ok_no_authority t H))). Qed.

(** [host_canon]: for an accepted host the stored text is std's Display of the parsed host; the typed loader reads it back
    and `show` prints the host as the url crate displays it; storing the stored text again changes nothing; it is ASCII *)
Theorem c05_concrete_host_canon :
  forall t, c_host_ok t = true ->
  exists h, u_hparse (hp_rebracket t) = Some (Some h) /\
    c_host_canon t = hp_plain u_std4 u_std6 h /\
    c_host_disp t = Some (hshow u_std4 u_url6 h) /\
    c_host_disp (c_host_canon t) = Some (hshow u_std4 u_url6 h) /\
    c_host_ok (c_host_canon t) = true /\
    c_host_canon (c_host_canon t) = c_host_canon t.
Proof. exact c_host_canon_spec. Qed.

Theorem c05_concrete_stored_host_is_ascii :
  forall t, c_host_ok t = true -> forallb (fun b => b <? 128) (c_host_canon t) = true.
Proof. exact c_host_canon_ascii. Qed.

(** headline: create stores exactly the normal form of each URL and host given ... *)
Check c_create_stores_normal_forms : forall sfx o c v,
  c_build sfx o c = Some v -> opts_in_fragment o = true ->
  vget (txt "announce") v = option_map (fun u => Str (c_norm u)) (o_announce o) /\
  iget (txt "update-url") v = option_map (fun u => Str (c_norm u)) (o_update_url o) /\
  vget (txt "nodes") v = (match o_nodes o with [] => None | _ => Some (Lst (map node_stored (o_nodes o))) end) /\
  (forall u, o_announce o = Some u \/ o_update_url o = Some u ->
     u_norm u = Some (Some (c_norm u)) /\ is_normal_url (c_norm u) = true /\ c_norm (c_norm u) = c_norm u /\
     (is_normal_url u = true -> c_norm u = u)) /\
  (forall n, In n (o_nodes o) ->
     exists h, u_hparse (hp_rebracket (unbracket (fst n))) = Some (Some h) /\
               c_host_canon (unbracket (fst n)) = hp_plain u_std4 u_std6 h /\
               c_host_canon (c_host_canon (unbracket (fst n))) = c_host_canon (unbracket (fst n))).
Theorem c05_concrete_create_stores_normal_forms : forall sfx o c v,
  c_build sfx o c = Some v -> opts_in_fragment o = true ->
  vget (txt "announce") v = option_map (fun u => Str (c_norm u)) (o_announce o) /\
  iget (txt "update-url") v = option_map (fun u => Str (c_norm u)) (o_update_url o) /\
  vget (txt "nodes") v = (match o_nodes o with [] => None | _ => Some (Lst (map node_stored (o_nodes o))) end) /\
  (forall u, o_announce o = Some u \/ o_update_url o = Some u ->
     u_norm u = Some (Some (c_norm u)) /\ is_normal_url (c_norm u) = true /\ c_norm (c_norm u) = c_norm u /\
     (is_normal_url u = true -> c_norm u = u)) /\
  (forall n, In n (o_nodes o) ->
     exists h, u_hparse (hp_rebracket (unbracket (fst n))) = Some (Some h) /\
               c_host_canon (unbracket (fst n)) = hp_plain u_std4 u_std6 h /\
               c_host_canon (c_host_canon (unbracket (fst n))) = c_host_canon (unbracket (fst n))).
Proof. exact c_create_stores_normal_forms. Qed.

(** ... and storing what was stored again changes nothing: a second command line that gives back the stored announce,
    update URL and node hosts (compared without the brackets the command line needs around an IPv6 literal) stores the same
    three values and is inside the fragments again *)
Theorem c05_concrete_create_again_changes_nothing : forall sfx o c v sfx' o' c' v',
  c_build sfx o c = Some v -> opts_in_fragment o = true -> c_build sfx' o' c' = Some v' ->
  o_announce o' = option_map c_norm (o_announce o) ->
  o_update_url o' = option_map c_norm (o_update_url o) ->
  map (fun n => (unbracket (fst n), snd n)) (o_nodes o') =
    map (fun n => (c_host_canon (unbracket (fst n)), snd n)) (o_nodes o) ->
  vget (txt "announce") v' = vget (txt "announce") v /\
  iget (txt "update-url") v' = iget (txt "update-url") v /\
  vget (txt "nodes") v' = vget (txt "nodes") v /\
  opt_url_accepted (o_announce o') = true /\ opt_url_accepted (o_update_url o') = true /\
  forallb (fun n => c_host_ok (unbracket (fst n))) (o_nodes o') = true.
Proof. exact c_create_again_changes_nothing. Qed.

(** the premises are satisfiable by non-trivial values: a tracker URL with an upper-case scheme and host, a port and a
    dot segment; an update URL with a default port; an IPv6 node in a long spelling, a domain in upper case, an IPv4 node in
    hexadecimal; the tiers of [ex_opts] *)
Definition x14_opts : opts :=
  {| o_announce := Some (txt "HTTP://Tracker.Example:8080/a/../announce?k=v");
     o_tiers := o_tiers ex_opts; o_comment := None; o_source := None;
     o_nodes := [(txt "[2001:DB8:0:0:0:0:0:1]", 6881); (txt "Router.Example.COM", 6882); (txt "0xcb.0.113.5", 1);
                 (txt "[::ffff:1.2.3.4]", 2)];
     o_private := false; o_update_url := Some (txt "https://example.com:443/feed"); o_name := None;
     o_piece_length := None; o_md5 := false; o_no_created_by := true; o_no_creation_date := true;
     o_allow_small := false; o_allow_uneven := false; o_allow_private_trackerless := false; o_now := 0 |}.

Example c05_concrete_instance :
  opts_in_fragment x14_opts = true /\ opts_in_fragment ex_opts = true /\
  c_create_bytes [] ex_opts ex_content = Some ex_bytes /\
  match c_build [] x14_opts ex_content with
  | Some v =>
      vget (txt "announce") v = Some (Str (txt "http://tracker.example:8080/announce?k=v")) /\
      iget (txt "update-url") v = Some (Str (txt "https://example.com/feed")) /\
      vget (txt "nodes") v = Some (Lst [Lst [Str (txt "2001:db8::1"); Int 6881]; Lst [Str (txt "router.example.com"); Int 6882];
                                        Lst [Str (txt "203.0.113.5"); Int 1]; Lst [Str (txt "::ffff:1.2.3.4"); Int 2]])
  | None => False
  end /\
  map (fun n => c_host_disp (c_host_canon (unbracket (fst n)))) (o_nodes x14_opts) =
    [Some (txt "[2001:db8::1]"); Some (txt "router.example.com"); Some (txt "203.0.113.5"); Some (txt "[::ffff:102:304]")] /\
  c_url_ok (txt "magnet:?xt=urn:btih:00") = true /\ url_in_fragment (txt "magnet:?xt=urn:btih:00") = false /\
  c_url_ok (txt "http://a b/") = false /\ c_host_ok (txt "a b") = false /\ host_in_fragment (txt "xn--bcher-kva.example") = false.
Proof. vm_compute. repeat split; reflexivity. Qed.

Print Assumptions c05_concrete_norm_is_a_normaliser.
Print Assumptions c05_concrete_url_ok.
Print Assumptions c05_concrete_host_canon.
Print Assumptions c05_concrete_stored_host_is_ascii.
Print Assumptions c05_concrete_create_stores_normal_forms.
Print Assumptions c05_concrete_create_again_changes_nothing.
Print Assumptions c05_concrete_instance.
