(** C15 — automatic piece length is a sane power of two and never decreases.
    This file contains only pinned statements, theorems closed by [exact], and
    [Print Assumptions]. Model: Model/Picker.v; proofs: Proofs/PickerProofs.v;
    tables regenerated from /repo by tools/rs2v.py: Generated/GenBook.v, GenPicker.v. *)
From Coq Require Import NArith List Bool.
From Imdl Require Import Model.Float53 Model.Picker Proofs.Float53Proofs Proofs.PickerProofs Generated.GenBook Generated.GenPicker.
Import ListNotations.
Local Open Scope N_scope.

(** (T) the translator understood the current sources *)
Theorem c15_sources_translated : GenBook.translated = true /\ GenPicker.translated = true.
Proof. split; reflexivity. Qed.

(** (T) the constants of the Rust expression are the constants of the model *)
Theorem c15_model_matches_source :
  GenPicker.src_floor = 1 /\
  (forall e, pick_exp e = N.min (N.max (2 ^ (e / GenPicker.src_div + GenPicker.src_add)) GenPicker.src_min) GenPicker.src_max).
Proof. split; [reflexivity|intros e; reflexivity]. Qed.

(** the float path of the code equals ideal arithmetic on every u64, for any libm within [cl_ok] *)
Check pick_float_ideal : forall cl, cl_ok cl -> forall n, n < 2 ^ 64 -> pick_float cl n = pick_ideal n.
Theorem c15_float_path_is_ideal :
  forall cl, cl_ok cl -> forall n, n < 2 ^ 64 -> pick_float cl n = pick_ideal n.
Proof. exact pick_float_ideal. Qed.

Example c15_cl_ok_satisfiable : cl_ok N.log2_up.
Proof. exact cl_ok_inhabited. Qed.

(** power of two between 16 KiB and 16 MiB, for every content size *)
Theorem c15_bounds_pow2 :
  forall n, 16 * KiB <= pick_ideal n <= 16 * MiB /\ exists k, pick_ideal n = 2 ^ k.
Proof. exact pick_bounds. Qed.

(** non-decreasing in the content size *)
Theorem c15_monotone : forall n m, n <= m -> pick_ideal n <= pick_ideal m.
Proof. exact pick_monotone. Qed.

(** closed form at every power of two: 16 KiB up to 2 MiB, doubling with every fourfold
    growth, 16 MiB from 1 TiB on *)
Theorem c15_closed_form :
  (forall k, pick_ideal (2 ^ k) = table_row k) /\
  (forall k, k <= 21 -> table_row k = 16 * KiB) /\
  (forall k, 20 <= k -> k + 2 <= 40 -> table_row (k + 2) = 2 * table_row k) /\
  (forall k, 40 <= k -> table_row k = 16 * MiB).
Proof. exact (conj pick_pow2 (conj table_row_low (conj table_row_step table_row_high))). Qed.

(** the table published in the book (regenerated from the book on every run) is what the
    picker computes, row for row, and covers the powers of two the subcommand prints *)
Theorem c15_published_table :
  forallb (fun '(c, p, _) => pick_ideal c =? p) GenBook.published_table = true /\
  map (fun '(c, _, _) => c) GenBook.published_table =
    map (fun i => 2 ^ N.of_nat i) (seq (N.to_nat GenPicker.src_table_from)
                                       (N.to_nat (GenPicker.src_table_to - GenPicker.src_table_from))).
Proof. split; vm_compute; reflexivity. Qed.

(** consequently no automatic choice can trip the piece-length lints of C14 *)
Theorem c15_auto_never_rejected :
  forall n, let p := pick_ideal n in p <> 0 /\ p < 2 ^ 32 /\ 16 * KiB <= p /\ exists k, p = 2 ^ k.
Proof. exact auto_never_rejected. Qed.

Print Assumptions c15_sources_translated.
Print Assumptions c15_model_matches_source.
Print Assumptions c15_float_path_is_ideal.
Print Assumptions c15_cl_ok_satisfiable.
Print Assumptions c15_bounds_pow2.
Print Assumptions c15_monotone.
Print Assumptions c15_closed_form.
Print Assumptions c15_published_table.
Print Assumptions c15_auto_never_rejected.
