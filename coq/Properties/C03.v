(** C03 — verify's verdict on any torrent equals an independent recomputation.
    Only pinned statements, theorems closed by [exact], examples, [Print Assumptions].
    Model: Model/Fs.v, Model/Verify.v (the tree with both repairs applied); proofs:
    Proofs/FsProofs.v, Proofs/VerifyProofs.v; instances: Proofs/VerifyExamples.v.
    H = SHA-1, MD5 and the read schedule sch are universally quantified; so are hd / un, the url crate's
    Host::parse and Url::parse, which only the command's typed loader consults.
    X4: the command ([verify_cmd]) loads through [load_typed] = the projection of [Summary.from_input], the one
    model of [Metainfo::from_input]; [load] is the projection that reads the four info fields only. The section
    "one typed loader" below relates the two exactly. *)
From Coq Require Import NArith ZArith List Bool.
From Imdl Require Import Base.Chunks Model.Bencode Model.BencodeWide Model.Fs Model.Verify Proofs.FsProofs Proofs.LoaderProofs
  Proofs.VerifyProofs Proofs.VerifyExamples Proofs.LoaderExamples.
From Imdl Require Model.Summary.
Import ListNotations.
Local Open Scope N_scope.

(** the hashing loop, for every schedule of short reads and every tree: one hash per piece of the
    concatenation of what the listed paths hold, and one status per listed path *)
Check verify_metainfo_spec : forall H MD5 sch p, 0 < p -> forall fs root t,
  verify_metainfo H MD5 sch p fs root t =
  Some (digests_eqb (map H (chunks (N.to_nat p) (concat (map (content fs) (entries root t))))) (tpieces t),
        map (status MD5 fs) (entries root t)).
Theorem c03_hashing_is_chunks_of_concat : forall H MD5 sch p, 0 < p -> forall fs root t,
  verify_metainfo H MD5 sch p fs root t =
  Some (digests_eqb (map H (chunks (N.to_nat p) (concat (map (content fs) (entries root t))))) (tpieces t),
        map (status MD5 fs) (entries root t)).
Proof. exact verify_metainfo_spec. Qed.

(** the verifier's verdict is the declarative statement, for all torrents x trees x schedules *)
Check verify_iff_spec : forall H MD5 sch p, 0 < p -> forall fs root t,
  exists s, verify_metainfo H MD5 sch p fs root t = Some s /\
            (status_good s = true <-> spec_good H MD5 p fs root t).
Theorem c03_verify_iff_spec : forall H MD5 sch p, 0 < p -> forall fs root t,
  exists s, verify_metainfo H MD5 sch p fs root t = Some s /\
            (status_good s = true <-> spec_good H MD5 p fs root t).
Proof. exact verify_iff_spec. Qed.

(** the command exits 0 exactly when the arguments are accepted, the typed loader accepts the torrent,
    the root rule yields a path, the piece length is in 1..2^32-1 and the statement holds *)
Check verify_cmd_success_iff : forall H MD5 sch hd un fs cwd content base input tb,
  verify_cmd H MD5 sch hd un fs cwd content base input tb = Some Success <->
  args_ok content base input = true /\
  exists t root, load_typed hd un tb = Some t /\
                 env_resolve cwd (content_root content base input (tname t)) = Some root /\
                 0 < tplen t < 2 ^ 32 /\
                 spec_good H MD5 (tplen t) fs root t.
Theorem c03_exit_zero_iff : forall H MD5 sch hd un fs cwd content base input tb,
  verify_cmd H MD5 sch hd un fs cwd content base input tb = Some Success <->
  args_ok content base input = true /\
  exists t root, load_typed hd un tb = Some t /\
                 env_resolve cwd (content_root content base input (tname t)) = Some root /\
                 0 < tplen t < 2 ^ 32 /\
                 spec_good H MD5 (tplen t) fs root t.
Proof. exact verify_cmd_success_iff. Qed.

(** the loop's fuel always suffices *)
Theorem c03_always_an_outcome : forall H MD5 sch hd un fs cwd content base input tb,
  verify_cmd H MD5 sch hd un fs cwd content base input tb <> None.
Proof. exact verify_cmd_total. Qed.

(** never success when the bytes cannot have been hashed (piece length zero) *)
Check never_good_unhashed : forall H MD5 sch hd un fs cwd content base input tb t,
  load_typed hd un tb = Some t -> tplen t = 0 -> verify_cmd H MD5 sch hd un fs cwd content base input tb <> Some Success.
Theorem c03_never_good_unhashed : forall H MD5 sch hd un fs cwd content base input tb t,
  load_typed hd un tb = Some t -> tplen t = 0 -> verify_cmd H MD5 sch hd un fs cwd content base input tb <> Some Success.
Proof. exact never_good_unhashed. Qed.

Theorem c03_verifier_refuses_zero : forall H MD5 sch fs root t,
  tplen t = 0 -> verify H MD5 sch fs root t = Some false.
Proof. exact verify_zero_false. Qed.

(** the content root: --content, else --base-directory joined with the name, else the sibling of
    the torrent file with that name (the name itself when the torrent comes from stdin) *)
Theorem c03_content_root_rule : forall base input name,
  (forall c, content_root (Some c) base input name = c) /\
  (forall b, content_root None (Some b) input name = lexiclean (push b name)) /\
  (forall p, content_root None None (TPath p) name = lexiclean (push (push p [DOT; DOT]) name)) /\
  content_root None None TStdin name = name.
Proof. exact content_root_rule. Qed.


(** ** one typed loader (X4) *)
(** what [Metainfo::from_input] (as modelled for `torrent show`, C07) accepts, the verifier's projection accepts,
    with the projected result; the two models were written independently and agree field by field *)
Check loaders_agree : forall hd un v m, Summary.from_value hd un v = Some m -> load_value v = Some (project m).
Theorem c03_loaders_agree : forall hd un v m, Summary.from_value hd un v = Some m -> load_value v = Some (project m).
Proof. exact loaders_agree. Qed.

Check typed_rejects_more : forall hd un tb t, load_typed hd un tb = Some t -> load tb = Some t.
Theorem c03_typed_rejects_more : forall hd un tb t, load_typed hd un tb = Some t -> load tb = Some t.
Proof. exact typed_rejects_more. Qed.

(** the difference, exactly: the named checks of [extras] (Model/Verify.v) and the 64-bit content size *)
Check typed_exact : forall hd un tb t,
  load_typed hd un tb = Some t <-> load tb = Some t /\ extras hd un tb = true /\ size_fits t = true.
Theorem c03_typed_exact : forall hd un tb t,
  load_typed hd un tb = Some t <-> load tb = Some t /\ extras hd un tb = true /\ size_fits t = true.
Proof. exact typed_exact. Qed.

Theorem c03_typed_exact_value : forall hd un v t, load_value v = Some t ->
  ((exists m, Summary.from_value hd un v = Some m /\ project m = t) <-> extras_value hd un v = true /\ size_fits t = true).
Proof. exact typed_exact_value. Qed.

(** the strict reader (used where the infohash is computed: show, link) is the serde reader plus i64
    everywhere; `show` therefore sees exactly what [from_input] sees *)
Theorem c03_strict_reader_is_wide_plus_i64 : forall fuel bs v rest,
  decode fuel bs = Some (v, rest) -> wdecode fuel bs = Some (v, rest) /\ all_i64 v = true.
Proof. exact (fun fuel => proj1 (decode_wdecode fuel)). Qed.
Theorem c03_show_loads_through_from_input : forall hd un input v rest,
  decode (2 * length input + 2) input = Some (v, rest) ->
  Summary.from_input hd un input = if depth v <=? max_depth then Summary.typed_of_value hd un v else None.
Proof. exact show_loads_through_from_input. Qed.

(** the independently written field readers are the same functions *)
Theorem c03_utf8_models_agree : forall s, utf8_ok s = Summary.utf8_valid s.
Proof. exact utf8_eq. Qed.
Theorem c03_component_models_agree : forall c, screen_comp c = Summary.normal_component c.
Proof. exact screen_normal. Qed.
Theorem c03_md5_models_agree : forall v, load_md5 v = option_map md5_bytes (Summary.as_md5 v).
Proof. exact load_md5_eq. Qed.
Theorem c03_file_entry_models_agree : forall v, all_i64 v = true ->
  load_file v = option_map project_file (Summary.as_file v).
Proof. exact load_file_eq. Qed.
Theorem c03_mode_models_agree : forall i,
  (forall v, Summary.lookup Summary.k_length i = Some v -> all_i64 v = true) ->
  (forall v, Summary.lookup Summary.k_files i = Some v -> all_i64 v = true) ->
  load_mode i = option_map project_mode (Summary.as_mode i).
Proof. exact load_mode_eq. Qed.

(** one lemma per class of torrent that [load] accepts and the command refuses; an instance of each below *)
Theorem c03_refused_deep : forall hd un d i, dlookup K_info d = Some (Dict i) -> x_depth (Dict d) = false -> Summary.from_value hd un (Dict d) = None.
Proof. exact refused_deep. Qed.
Theorem c03_refused_skipped_integer : forall hd un d i, dlookup K_info d = Some (Dict i) -> x_skipped_i64 (Dict d) = false -> Summary.from_value hd un (Dict d) = None.
Proof. exact refused_skipped_integer. Qed.
Theorem c03_refused_top_key_not_utf8 : forall hd un d i, dlookup K_info d = Some (Dict i) -> x_top_keys_utf8 d = false -> Summary.from_value hd un (Dict d) = None.
Proof. exact refused_top_key_not_utf8. Qed.
Theorem c03_refused_announce : forall hd un d i, dlookup K_info d = Some (Dict i) -> x_announce d = false -> Summary.from_value hd un (Dict d) = None.
Proof. exact refused_announce. Qed.
Theorem c03_refused_announce_list : forall hd un d i, dlookup K_info d = Some (Dict i) -> x_announce_list d = false -> Summary.from_value hd un (Dict d) = None.
Proof. exact refused_announce_list. Qed.
Theorem c03_refused_comment : forall hd un d i, dlookup K_info d = Some (Dict i) -> x_comment d = false -> Summary.from_value hd un (Dict d) = None.
Proof. exact refused_comment. Qed.
Theorem c03_refused_created_by : forall hd un d i, dlookup K_info d = Some (Dict i) -> x_created_by d = false -> Summary.from_value hd un (Dict d) = None.
Proof. exact refused_created_by. Qed.
Theorem c03_refused_creation_date : forall hd un d i, dlookup K_info d = Some (Dict i) -> x_creation_date d = false -> Summary.from_value hd un (Dict d) = None.
Proof. exact refused_creation_date. Qed.
Theorem c03_refused_encoding : forall hd un d i, dlookup K_info d = Some (Dict i) -> x_encoding d = false -> Summary.from_value hd un (Dict d) = None.
Proof. exact refused_encoding. Qed.
Theorem c03_refused_nodes : forall hd un d i, dlookup K_info d = Some (Dict i) -> x_nodes hd d = false -> Summary.from_value hd un (Dict d) = None.
Proof. exact refused_nodes. Qed.
Theorem c03_refused_info_key_not_utf8 : forall hd un d i, dlookup K_info d = Some (Dict i) -> x_info_keys_utf8 i = false -> Summary.from_value hd un (Dict d) = None.
Proof. exact refused_info_key_not_utf8. Qed.
Theorem c03_refused_private : forall hd un d i, dlookup K_info d = Some (Dict i) -> x_private i = false -> Summary.from_value hd un (Dict d) = None.
Proof. exact refused_private. Qed.
Theorem c03_refused_piece_length_u64 : forall hd un d i, dlookup K_info d = Some (Dict i) -> x_piece_length_u64 i = false -> Summary.from_value hd un (Dict d) = None.
Proof. exact refused_piece_length_u64. Qed.
Theorem c03_refused_source : forall hd un d i, dlookup K_info d = Some (Dict i) -> x_source i = false -> Summary.from_value hd un (Dict d) = None.
Proof. exact refused_source. Qed.
Theorem c03_refused_update_url : forall hd un d i, dlookup K_info d = Some (Dict i) -> x_update_url un i = false -> Summary.from_value hd un (Dict d) = None.
Proof. exact refused_update_url. Qed.
Theorem c03_refused_content_size : forall hd un v t, load_value v = Some t -> size_fits t = false -> Summary.from_value hd un v = None.
Proof. exact refused_content_size. Qed.

(** instances: the statements are not vacuous *)
Example c03_ex_success : run (ex_single 2 (xhash [104; 105] ++ xhash [33])) = Some Success.
Proof. exact ex_single_success. Qed.
Example c03_ex_missing_hash : run (ex_single 2 (xhash [104; 105])) = Some Failed.
Proof. exact ex_single_missing_hash_fails. Qed.
Example c03_ex_surplus_hash : run (ex_single 2 (xhash [104; 105] ++ xhash [33] ++ xhash [33])) = Some Failed.
Proof. exact ex_single_surplus_hash_fails. Qed.
Example c03_ex_zero_piece_length :
  exists t, load_typed xid xid (ex_single 0 []) = Some t /\ tplen t = 0 /\ run (ex_single 0 []) = Some Rejected.
Proof. exact ex_zero_piece_length_rejected. Qed.
Example c03_ex_roots :
  let name := [114] in
  env_resolve cwd_w (content_root (Some [99]) None (TPath [116]) name) = Some (cwd_w ++ [SEP; 99]) /\
  env_resolve cwd_w (content_root None (Some [98]) (TPath [116]) name) = Some (cwd_w ++ [SEP; 98; SEP; 114]) /\
  env_resolve cwd_w (content_root None None (TPath [115; SEP; 116]) name) = Some (cwd_w ++ [SEP; 115; SEP; 114]) /\
  env_resolve cwd_w (content_root None None TStdin name) = Some (cwd_w ++ [SEP; 114]).
Proof. exact ex_roots. Qed.

(** instances for the loader section: a torrent of each refused class, and the accepted neighbours *)
Example c03_ex_plain_accepted :
  accepted (xtop [] []) = true /\ typed (xtop [] []) = true.
Proof. exact ex_plain_accepted. Qed.
Example c03_ex_full_accepted :
  let v := xtop [(Summary.k_announce, Str [104]); (Summary.k_announce_list, Lst [Lst [Str [104]]]); (Summary.k_comment, Str []);
                 (Summary.k_created_by, Str [105]); (Summary.k_creation_date, Int (2 ^ 64 - 1)); (Summary.k_encoding, Str [85]);
                 (Summary.k_nodes, Lst [Lst [Str [104]; Int 65535]]); ([122], Int (2 ^ 63 - 1))]
                [(Summary.k_private, Int 1); (Summary.k_source, Str [115]); (Summary.k_update_url, Str [117]); ([122], Int (- 2 ^ 63))] in
  accepted v = true /\ typed v = true /\
  option_map project (Summary.from_value xid xid v) = load_value v.
Proof. exact ex_full_accepted. Qed.
Example c03_ex_refused_deep :
  let v := xtop [([122], nest 2047)] [] in
  accepted v = true /\ x_depth v = false /\ typed v = false /\ typed (xtop [([122], nest 2046)] []) = true.
Proof. exact ex_refused_deep. Qed.
Example c03_ex_refused_skipped_integer :
  accepted (xtop [([122], Int (2 ^ 63))] []) = true /\ typed (xtop [([122], Int (2 ^ 63))] []) = false /\
  accepted (xtop [] [([122], Lst [Int (- 2 ^ 63 - 1)])]) = true /\ typed (xtop [] [([122], Lst [Int (- 2 ^ 63 - 1)])]) = false /\
  x_skipped_i64 (xtop [([122], Int (2 ^ 63))] []) = false.
Proof. exact ex_refused_skipped_integer. Qed.
Example c03_ex_refused_length_i64 :
  let v := Dict [(K_info, Dict [(K_length, Int (2 ^ 63)); (K_name, Str [102]); (K_piece_length, Int 2); (K_pieces, Str [])])] in
  accepted v = true /\ x_skipped_i64 v = false /\ typed v = false.
Proof. exact ex_refused_length_i64. Qed.
Example c03_ex_refused_top_key_not_utf8 :
  accepted (xtop [([255], Int 1)] []) = true /\ typed (xtop [([255], Int 1)] []) = false.
Proof. exact ex_refused_top_key_not_utf8. Qed.
Example c03_ex_refused_info_key_not_utf8 :
  accepted (xtop [] [([255], Int 1)]) = true /\ typed (xtop [] [([255], Int 1)]) = false.
Proof. exact ex_refused_info_key_not_utf8. Qed.
Example c03_ex_refused_announce :
  accepted (xtop [(Summary.k_announce, Int 5)] []) = true /\ typed (xtop [(Summary.k_announce, Int 5)] []) = false /\
  typed (xtop [(Summary.k_announce, Str [255])] []) = false.
Proof. exact ex_refused_announce. Qed.
Example c03_ex_refused_announce_list :
  accepted (xtop [(Summary.k_announce_list, Lst [Str [104]])] []) = true /\
  typed (xtop [(Summary.k_announce_list, Lst [Str [104]])] []) = false /\
  typed (xtop [(Summary.k_announce_list, Lst [Lst [Int 1]])] []) = false /\
  typed (xtop [(Summary.k_announce_list, Lst [Lst []])] []) = true.
Proof. exact ex_refused_announce_list. Qed.
Example c03_ex_refused_comment :
  accepted (xtop [(Summary.k_comment, Lst [])] []) = true /\ typed (xtop [(Summary.k_comment, Lst [])] []) = false.
Proof. exact ex_refused_comment. Qed.
Example c03_ex_refused_created_by :
  accepted (xtop [(Summary.k_created_by, Int 0)] []) = true /\ typed (xtop [(Summary.k_created_by, Int 0)] []) = false.
Proof. exact ex_refused_created_by. Qed.
Example c03_ex_refused_creation_date :
  accepted (xtop [(Summary.k_creation_date, Int (-1))] []) = true /\
  typed (xtop [(Summary.k_creation_date, Int (-1))] []) = false /\
  typed (xtop [(Summary.k_creation_date, Int (2 ^ 64))] []) = false /\
  typed (xtop [(Summary.k_creation_date, Str [49])] []) = false /\
  typed (xtop [(Summary.k_creation_date, Int (2 ^ 63))] []) = true.
Proof. exact ex_refused_creation_date. Qed.
Example c03_ex_refused_encoding :
  accepted (xtop [(Summary.k_encoding, Dict [])] []) = true /\ typed (xtop [(Summary.k_encoding, Dict [])] []) = false.
Proof. exact ex_refused_encoding. Qed.
Example c03_ex_refused_nodes :
  accepted (xtop [(Summary.k_nodes, Lst [Lst [Str [104]; Int 65536]])] []) = true /\
  typed (xtop [(Summary.k_nodes, Lst [Lst [Str [104]; Int 65536]])] []) = false /\
  typed (xtop [(Summary.k_nodes, Lst [Lst [Str [104]]])] []) = false /\
  typed (xtop [(Summary.k_nodes, Lst [Lst [Str [104]; Int 1; Int 1]])] []) = false /\
  typed (xtop [(Summary.k_nodes, Lst [Str [104]])] []) = false /\
  (* a host the url crate refuses *)
  Summary.from_value xnone xid (xtop [(Summary.k_nodes, Lst [Lst [Str [104]; Int 1]])] []) = None /\
  typed (xtop [(Summary.k_nodes, Lst [Lst [Str [104]; Int 1]])] []) = true.
Proof. exact ex_refused_nodes. Qed.
Example c03_ex_refused_private :
  accepted (xtop [] [(Summary.k_private, Int 2)]) = true /\ typed (xtop [] [(Summary.k_private, Int 2)]) = false /\
  typed (xtop [] [(Summary.k_private, Int (-1))]) = false /\ typed (xtop [] [(Summary.k_private, Str [49])]) = false /\
  typed (xtop [] [(Summary.k_private, Int 0)]) = true.
Proof. exact ex_refused_private. Qed.
Example c03_ex_refused_source :
  accepted (xtop [] [(Summary.k_source, Int 1)]) = true /\ typed (xtop [] [(Summary.k_source, Int 1)]) = false.
Proof. exact ex_refused_source. Qed.
Example c03_ex_refused_update_url :
  accepted (xtop [] [(Summary.k_update_url, Int 1)]) = true /\ typed (xtop [] [(Summary.k_update_url, Int 1)]) = false /\
  (* a text the url crate refuses *)
  Summary.from_value xid xnone (xtop [] [(Summary.k_update_url, Str [120])]) = None /\
  typed (xtop [] [(Summary.k_update_url, Str [120])]) = true.
Proof. exact ex_refused_update_url. Qed.
Example c03_ex_refused_piece_length_u64 :
  let v := Dict [(K_info, Dict [(K_length, Int 3); (K_name, Str [102]); (K_piece_length, Int (2 ^ 64)); (K_pieces, Str [])])] in
  accepted v = true /\ x_piece_length_u64 (match v with Dict [(_, Dict i)] => i | _ => [] end) = false /\ typed v = false.
Proof. exact ex_refused_piece_length_u64. Qed.
Example c03_ex_refused_content_size :
  accepted (xmulti [9223372036854775807; 9223372036854775807; 2]%Z) = true /\
  typed (xmulti [9223372036854775807; 9223372036854775807; 2]%Z) = false /\
  typed (xmulti [9223372036854775807; 9223372036854775807; 1]%Z) = true /\
  option_map size_fits (load_value (xmulti [9223372036854775807; 9223372036854775807; 2]%Z)) = Some false.
Proof. exact ex_refused_content_size. Qed.
Example c03_ex_file_entry_as_sequence :
  let v := Dict [(K_info, Dict [(K_files, Lst [Lst [Int 3; Lst [Str [102]]];
                                               Lst [Int 0; Lst [Str [103]]; Str (repeat 48 32)]]);
                                (K_name, Str [114]); (K_piece_length, Int 4); (K_pieces, Str [])])] in
  option_map project (Summary.from_value xid xid v) = load_value v /\ accepted v = true /\
  typed (Dict [(K_info, Dict [(K_files, Lst [Lst [Int 3]]); (K_name, Str [114]); (K_piece_length, Int 4); (K_pieces, Str [])])]) = false /\
  typed (Dict [(K_info, Dict [(K_files, Lst [Lst [Int 3; Lst [Str [102]]; Str (repeat 48 32); Int 1]]); (K_name, Str [114]);
                              (K_piece_length, Int 4); (K_pieces, Str [])])]) = false.
Proof. exact ex_file_entry_as_sequence. Qed.
Example c03_ex_wide_integer_bytes :
  let tb := encode (Dict [(Summary.k_creation_date, Int (2 ^ 63)); (K_info, Dict (xinfo []))]) in
  is_some (load_typed xid xid tb) = true /\ is_some (load tb) = true /\
  decode (2 * length tb + 2) tb = None /\
  run tb = Some Success.
Proof. exact ex_wide_integer_bytes. Qed.

Print Assumptions c03_hashing_is_chunks_of_concat.
Print Assumptions c03_verify_iff_spec.
Print Assumptions c03_exit_zero_iff.
Print Assumptions c03_always_an_outcome.
Print Assumptions c03_never_good_unhashed.
Print Assumptions c03_verifier_refuses_zero.
Print Assumptions c03_content_root_rule.
Print Assumptions c03_ex_success.
Print Assumptions c03_ex_missing_hash.
Print Assumptions c03_ex_surplus_hash.
Print Assumptions c03_ex_zero_piece_length.
Print Assumptions c03_ex_roots.
Print Assumptions c03_loaders_agree.
Print Assumptions c03_typed_rejects_more.
Print Assumptions c03_typed_exact.
Print Assumptions c03_typed_exact_value.
Print Assumptions c03_strict_reader_is_wide_plus_i64.
Print Assumptions c03_show_loads_through_from_input.
Print Assumptions c03_utf8_models_agree.
Print Assumptions c03_component_models_agree.
Print Assumptions c03_md5_models_agree.
Print Assumptions c03_file_entry_models_agree.
Print Assumptions c03_mode_models_agree.
Print Assumptions c03_refused_deep.
Print Assumptions c03_refused_skipped_integer.
Print Assumptions c03_refused_top_key_not_utf8.
Print Assumptions c03_refused_announce.
Print Assumptions c03_refused_announce_list.
Print Assumptions c03_refused_comment.
Print Assumptions c03_refused_created_by.
Print Assumptions c03_refused_creation_date.
Print Assumptions c03_refused_encoding.
Print Assumptions c03_refused_nodes.
Print Assumptions c03_refused_info_key_not_utf8.
Print Assumptions c03_refused_private.
Print Assumptions c03_refused_piece_length_u64.
Print Assumptions c03_refused_source.
Print Assumptions c03_refused_update_url.
Print Assumptions c03_refused_content_size.
Print Assumptions c03_ex_plain_accepted.
Print Assumptions c03_ex_full_accepted.
Print Assumptions c03_ex_refused_deep.
Print Assumptions c03_ex_refused_skipped_integer.
Print Assumptions c03_ex_refused_length_i64.
Print Assumptions c03_ex_refused_top_key_not_utf8.
Print Assumptions c03_ex_refused_info_key_not_utf8.
Print Assumptions c03_ex_refused_announce.
Print Assumptions c03_ex_refused_announce_list.
Print Assumptions c03_ex_refused_comment.
Print Assumptions c03_ex_refused_created_by.
Print Assumptions c03_ex_refused_creation_date.
Print Assumptions c03_ex_refused_encoding.
Print Assumptions c03_ex_refused_nodes.
Print Assumptions c03_ex_refused_private.
Print Assumptions c03_ex_refused_source.
Print Assumptions c03_ex_refused_update_url.
Print Assumptions c03_ex_refused_piece_length_u64.
Print Assumptions c03_ex_refused_content_size.
Print Assumptions c03_ex_file_entry_as_sequence.
Print Assumptions c03_ex_wide_integer_bytes.
