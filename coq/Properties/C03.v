(** C03 — verify's verdict on any torrent equals an independent recomputation.
    Only pinned statements, theorems closed by [exact], examples, [Print Assumptions].
    Model: Model/Fs.v, Model/Verify.v (the tree with both repairs applied); proofs:
    Proofs/FsProofs.v, Proofs/VerifyProofs.v; instances: Proofs/VerifyExamples.v.
    H = SHA-1, MD5 and the read schedule sch are universally quantified. *)
From Coq Require Import NArith ZArith List Bool.
From Imdl Require Import Base.Chunks Model.Bencode Model.Fs Model.Verify Proofs.FsProofs Proofs.VerifyProofs Proofs.VerifyExamples.
Import ListNotations.
Local Open Scope N_scope.

(** the hashing loop, for every schedule of short reads and every tree: one hash per piece of the
    concatenation of what the listed paths hold, and one status per listed path *)
Check verify_metainfo_spec : forall H MD5 sch p, 0 < p -> forall fs root t,
  verify_metainfo H MD5 sch p fs root t =
  Some (digests_eqb (map H (chunks (N.to_nat p) (concat (map (content fs) (entries root t))))) (tpieces t),
        map (status MD5 fs) (entries root t)).
Theorem c03_hashing_is_chunks_of_concat : forall H MD5 sch p, 0 < p -> forall fs root t,
  verify_metainfo H MD5 sch p fs root t =
  Some (digests_eqb (map H (chunks (N.to_nat p) (concat (map (content fs) (entries root t))))) (tpieces t),
        map (status MD5 fs) (entries root t)).
Proof. exact verify_metainfo_spec. Qed.

(** the verifier's verdict is the declarative statement, for all torrents x trees x schedules *)
Check verify_iff_spec : forall H MD5 sch p, 0 < p -> forall fs root t,
  exists s, verify_metainfo H MD5 sch p fs root t = Some s /\
            (status_good s = true <-> spec_good H MD5 p fs root t).
Theorem c03_verify_iff_spec : forall H MD5 sch p, 0 < p -> forall fs root t,
  exists s, verify_metainfo H MD5 sch p fs root t = Some s /\
            (status_good s = true <-> spec_good H MD5 p fs root t).
Proof. exact verify_iff_spec. Qed.

(** the command exits 0 exactly when the arguments are accepted, the loader accepts the torrent,
    the root rule yields a path, the piece length is in 1..2^32-1 and the statement holds *)
Check verify_cmd_success_iff : forall H MD5 sch fs cwd content base input tb,
  verify_cmd H MD5 sch fs cwd content base input tb = Some Success <->
  args_ok content base input = true /\
  exists t root, load tb = Some t /\
                 env_resolve cwd (content_root content base input (tname t)) = Some root /\
                 0 < tplen t < 2 ^ 32 /\
                 spec_good H MD5 (tplen t) fs root t.
Theorem c03_exit_zero_iff : forall H MD5 sch fs cwd content base input tb,
  verify_cmd H MD5 sch fs cwd content base input tb = Some Success <->
  args_ok content base input = true /\
  exists t root, load tb = Some t /\
                 env_resolve cwd (content_root content base input (tname t)) = Some root /\
                 0 < tplen t < 2 ^ 32 /\
                 spec_good H MD5 (tplen t) fs root t.
Proof. exact verify_cmd_success_iff. Qed.

(** the loop's fuel always suffices *)
Theorem c03_always_an_outcome : forall H MD5 sch fs cwd content base input tb,
  verify_cmd H MD5 sch fs cwd content base input tb <> None.
Proof. exact verify_cmd_total. Qed.

(** never success when the bytes cannot have been hashed (piece length zero) *)
Check never_good_unhashed : forall H MD5 sch fs cwd content base input tb t,
  load tb = Some t -> tplen t = 0 -> verify_cmd H MD5 sch fs cwd content base input tb <> Some Success.
Theorem c03_never_good_unhashed : forall H MD5 sch fs cwd content base input tb t,
  load tb = Some t -> tplen t = 0 -> verify_cmd H MD5 sch fs cwd content base input tb <> Some Success.
Proof. exact never_good_unhashed. Qed.

Theorem c03_verifier_refuses_zero : forall H MD5 sch fs root t,
  tplen t = 0 -> verify H MD5 sch fs root t = Some false.
Proof. exact verify_zero_false. Qed.

(** the content root: --content, else --base-directory joined with the name, else the sibling of
    the torrent file with that name (the name itself when the torrent comes from stdin) *)
Theorem c03_content_root_rule : forall base input name,
  (forall c, content_root (Some c) base input name = c) /\
  (forall b, content_root None (Some b) input name = lexiclean (push b name)) /\
  (forall p, content_root None None (TPath p) name = lexiclean (push (push p [DOT; DOT]) name)) /\
  content_root None None TStdin name = name.
Proof. exact content_root_rule. Qed.

(** instances: the statements are not vacuous *)
Example c03_ex_success : run (ex_single 2 (xhash [104; 105] ++ xhash [33])) = Some Success.
Proof. exact ex_single_success. Qed.
Example c03_ex_missing_hash : run (ex_single 2 (xhash [104; 105])) = Some Failed.
Proof. exact ex_single_missing_hash_fails. Qed.
Example c03_ex_surplus_hash : run (ex_single 2 (xhash [104; 105] ++ xhash [33] ++ xhash [33])) = Some Failed.
Proof. exact ex_single_surplus_hash_fails. Qed.
Example c03_ex_zero_piece_length :
  exists t, load (ex_single 0 []) = Some t /\ tplen t = 0 /\ run (ex_single 0 []) = Some Rejected.
Proof. exact ex_zero_piece_length_rejected. Qed.
Example c03_ex_roots :
  let name := [114] in
  env_resolve cwd_w (content_root (Some [99]) None (TPath [116]) name) = Some (cwd_w ++ [SEP; 99]) /\
  env_resolve cwd_w (content_root None (Some [98]) (TPath [116]) name) = Some (cwd_w ++ [SEP; 98; SEP; 114]) /\
  env_resolve cwd_w (content_root None None (TPath [115; SEP; 116]) name) = Some (cwd_w ++ [SEP; 115; SEP; 114]) /\
  env_resolve cwd_w (content_root None None TStdin name) = Some (cwd_w ++ [SEP; 114]).
Proof. exact ex_roots. Qed.

Print Assumptions c03_hashing_is_chunks_of_concat.
Print Assumptions c03_verify_iff_spec.
Print Assumptions c03_exit_zero_iff.
Print Assumptions c03_always_an_outcome.
Print Assumptions c03_never_good_unhashed.
Print Assumptions c03_verifier_refuses_zero.
Print Assumptions c03_content_root_rule.
Print Assumptions c03_ex_success.
Print Assumptions c03_ex_missing_hash.
Print Assumptions c03_ex_surplus_hash.
Print Assumptions c03_ex_zero_piece_length.
Print Assumptions c03_ex_roots.
