(** C07 — `torrent show` reports what the file says.
    Only pinned statements, theorems closed by [exact], satisfiability examples and [Print Assumptions].
    Model: Model/Summary.v (typed loader as serde+bendy run it, TorrentSummary, table.rs renderers);
    specification side: Model/SummarySpec.v (direct lookups in the decoded value, documented rendering maps);
    proofs: Proofs/SummaryProofs.v; tables regenerated from /repo by tools/rs2v_summary.py: Generated/GenSummary.v.
    [cal] (chrono), [human] (Bytes Display), [host_disp] and [url_norm] (url crate) are universally quantified. *)
From Coq Require Import NArith ZArith List Bool String Permutation Sorted.
From Imdl Require Import Model.Bencode Model.Summary Model.SummarySpec Proofs.SummaryProofs Generated.GenSummary.
Import ListNotations.
Local Open Scope N_scope.

(** (T) the translator understood the current sources *)
Theorem c07_sources_translated : GenSummary.translated = true.
Proof. reflexivity. Qed.

(** (T) the bencode keys the model reads, their structs and optionality are those of the serde derives *)
Theorem c07_schema_matches_source : model_schema = GenSummary.schema.
Proof. reflexivity. Qed.

(** (T) the JSON object has the fields of TorrentSummaryJson in declaration order; the text table's rows, their
    kinds (row / size / tiers / list / directory) and the yes/no spelling are those of TorrentSummary::table *)
Theorem c07_report_shape_matches_source :
  (forall m c n ih, map fst (json_of m c n ih) = GenSummary.json_fields) /\
  map fst label_map = GenSummary.json_fields /\
  all_rows_sig = GenSummary.text_rows /\
  (forall cal m c n ih,
     is_subseq (map (fun r => (fst r, row_kind (snd r))) (table_of cal m c n ih)) GenSummary.text_rows = true) /\
  (forall cal size k, values_of cal size k (JvBool true) = [GenSummary.private_yes] /\
                      values_of cal size k (JvBool false) = [GenSummary.private_no]).
Proof.
  split; [intros; reflexivity|]. split; [reflexivity|]. split; [reflexivity|].
  split; [exact table_rows_in_source_order|]. intros; split; reflexivity.
Qed.

(** every JSON field equals the direct lookup in the decoded file, for every accepted value *)
Check json_is_direct_reading :
  forall host_disp url_norm v m c input_len ih,
    typed_of_value host_disp url_norm v = Some m ->
    content_size_debug (m_mode m) = Some c ->
    json_of m c input_len ih = spec_json host_disp url_norm (is_single m) v input_len ih.
Theorem c07_json_is_direct_reading :
  forall host_disp url_norm v m c input_len ih,
    typed_of_value host_disp url_norm v = Some m ->
    content_size_debug (m_mode m) = Some c ->
    json_of m c input_len ih = spec_json host_disp url_norm (is_single m) v input_len ih.
Proof. exact json_is_direct_reading. Qed.

(** ... where the file-list reading used is really present in the file *)
Theorem c07_mode_reading :
  forall host_disp url_norm v m,
    typed_of_value host_disp url_norm v = Some m ->
    if is_single m then exists n, get_nat k_length (info_of v) = Some n /\ n < 2 ^ 63
    else exists l, lookup k_files (info_of v) = Some (Lst l).
Proof. exact mode_reading_present. Qed.

(** content size: for every accepted value the u64 fold neither panics (debug) nor wraps (release); it is the
    unbounded sum of the listed lengths, which is below 2^64 *)
Theorem c07_content_size_is_true_sum :
  forall host_disp url_norm v m,
    typed_of_value host_disp url_norm v = Some m ->
    content_size_debug (m_mode m) = Some (total_length (m_mode m)) /\
    content_size_release (m_mode m) = total_length (m_mode m) /\
    total_length (m_mode m) < u64_mod.
Proof. exact content_size_is_true_sum. Qed.

(** ... and exactly the sums that do not fit are refused by the loader's check (repair 0006) *)
Theorem c07_overflow_rejected :
  forall fs, content_size_fits (Multiple fs) = true <-> list_sum (map f_length fs) < 2 ^ 64.
Proof. exact fits_iff. Qed.

Theorem c07_piece_count_exact :
  forall host_disp url_norm v m,
    typed_of_value host_disp url_norm v = Some m -> 20 * piece_count m = N.of_nat (List.length (m_pieces m)).
Proof. exact piece_count_exact. Qed.

Theorem c07_show_never_panics :
  forall cal human host_disp url_norm v input_len ih,
    show_value cal human host_disp url_norm v input_len ih <> ShowPanicked.
Proof. exact show_never_panics. Qed.

(** tab-delimited rendering: the same values field for field (documented maps: null -> no row, private -> yes/no,
    creation date -> calendar text, lists flattened, sizes as plain byte counts) *)
Theorem c07_tab_same_values :
  forall cal m c input_len ih,
    same_values cal dec tab_values (table_of cal m c input_len ih) (json_of m c input_len ih).
Proof. exact tab_same_values. Qed.

(** --terminal rendering: the same values, sizes humanised *)
Theorem c07_terminal_same_values :
  forall cal human m c input_len ih,
    same_values cal human (term_values human) (table_of cal m c input_len ih) (json_of m c input_len ih).
Proof. exact term_same_values. Qed.

(** the text file list: the name for a single file; otherwise the listed paths, a permutation, sorted
    component-wise, each printed under the name *)
Theorem c07_files_row :
  forall cal human m c input_len ih,
    let t := table_of cal m c input_len ih in
    (is_single m = true -> row_values tab_values t (lit "Files") = [m_name m] /\
                           row_values (term_values human) t (lit "Files") = [m_name m]) /\
    (is_single m = false ->
       row_values tab_values t (lit "Files")
         = map (fun p => m_name m ++ [47] ++ join [47] p) (sort_paths (file_paths m)) /\
       Permutation (sort_paths (file_paths m)) (file_paths m) /\ Sorted path_le (sort_paths (file_paths m))).
Proof. exact files_row. Qed.

(** JSON and text name each listed file the same way (PathBuf::push = join with "/") whenever the name is non-empty
    and does not end in a slash; the loader only lets normal components through (repair 0004) *)
Theorem c07_file_names_agree :
  (forall host_disp url_norm v m, typed_of_value host_disp url_norm v = Some m ->
     Forall (fun p => Forall (fun c => normal_component c = true) p) (file_paths m)) /\
  (forall p name, name <> [] -> last name 0 <> 47 -> p <> [] -> Forall (fun c => normal_component c = true) p ->
     joined_under name p = name ++ [47] ++ join [47] p).
Proof. exact (conj file_paths_normal joined_under_text). Qed.

(** the same bytes from standard input give the same report *)
Theorem c07_stdin_same :
  forall cal human host_disp url_norm input ih,
    show cal human host_disp url_norm FromStdin input ih = show cal human host_disp url_norm FromPath input ih.
Proof. exact show_stdin_same. Qed.

(** end to end from the bytes: a printed report is the direct reading of a strictly decoded prefix of the input,
    torrent size = byte length of the input; the text forms are renderings of the same table *)
Theorem c07_show_reports_decoded :
  forall cal human host_disp url_norm src input ih j tab term,
    show cal human host_disp url_norm src input ih = ShowPrinted j tab term ->
    exists v rest m,
      input = encode v ++ rest /\
      typed_of_value host_disp url_norm v = Some m /\
      j = spec_json host_disp url_norm (is_single m) v (N.of_nat (List.length input)) ih /\
      tab = render_tab (table_of cal m (total_length (m_mode m)) (N.of_nat (List.length input)) ih) /\
      term = render_term human (table_of cal m (total_length (m_mode m)) (N.of_nat (List.length input)) ih).
Proof. exact show_reports_decoded. Qed.

(** the hypotheses are satisfiable: a multi-file torrent with optional keys, an IPv6 node and an unknown key is
    accepted and printed; three files of 2^63-1 bytes are refused *)
Definition sample_file (len : Z) (p : list bytes) : value := Dict [(k_length, Int len); (k_path, Lst (map Str p))].
Definition sample (lens : list Z) : value :=
  Dict [ (k_announce, Str (lit "http://a/b")); (k_comment, Str [99; 9; 233]);    (* 233 alone is not UTF-8 ... *)
         (k_info, Dict [ (k_files, Lst (map (fun z => sample_file z [lit "d"; lit "f"]) lens)); (k_name, Str (lit "n"));
                         (k_piece_length, Int 16384); (k_pieces, Str (repeat 0 20)); (k_private, Int 1);
                         (lit "x-extra", Lst []) ]);
         (k_nodes, Lst [Lst [Str (lit "::1"); Int 6881]]) ].
Definition sample_ok (lens : list Z) : value :=
  match sample lens with
  | Dict ((a, x) :: (_, _) :: r) => Dict ((a, x) :: (k_comment, Str [99; 9; 195; 169]) :: r)   (* ... c TAB e-acute is *)
  | v => v
  end.

Definition id_ext : bytes -> option bytes := fun x => Some x.

Example c07_sample_accepted :
  match typed_of_value id_ext id_ext (sample_ok [5; 7]%Z) with
  | Some m => is_single m = false /\ content_size_debug (m_mode m) = Some 12 /\ piece_count m = 1
  | None => False
  end /\ typed_of_value id_ext id_ext (sample [5; 7]%Z) = None.
Proof. vm_compute. repeat split; reflexivity. Qed.

Example c07_sample_overflow_rejected :
  typed_of_value id_ext id_ext (sample_ok [9223372036854775807; 9223372036854775807; 9223372036854775807]%Z) = None /\
  match typed_of_value id_ext id_ext (sample_ok [9223372036854775807; 9223372036854775807; 1]%Z) with
  | Some m => content_size_debug (m_mode m) = Some 18446744073709551615
  | None => False
  end.
Proof. vm_compute. split; reflexivity. Qed.

Print Assumptions c07_sources_translated.
Print Assumptions c07_schema_matches_source.
Print Assumptions c07_report_shape_matches_source.
Print Assumptions c07_json_is_direct_reading.
Print Assumptions c07_mode_reading.
Print Assumptions c07_content_size_is_true_sum.
Print Assumptions c07_overflow_rejected.
Print Assumptions c07_piece_count_exact.
Print Assumptions c07_show_never_panics.
Print Assumptions c07_tab_same_values.
Print Assumptions c07_terminal_same_values.
Print Assumptions c07_files_row.
Print Assumptions c07_file_names_agree.
Print Assumptions c07_stdin_same.
Print Assumptions c07_show_reports_decoded.
Print Assumptions c07_sample_accepted.
Print Assumptions c07_sample_overflow_rejected.

(* ====================================================================================================== *)
(** * end to end with create (X5)

    `torrent show` on the bytes `torrent create` wrote reports exactly what the command line asked for.
    Composition of C05 ([Metainfo.build]: the value create serialises from its options [o] and the content [c]
    walker + hasher hand over), C04 ([encode] / the strict reader) and this file's loader and report.
    Model: Model/EndToEndShow.v; proofs: Proofs/EndToEndShowProofs.v; instances: Proofs/EndToEndShowExamples.v.

    Environment, universally quantified, the same Section variables as in the layers and nothing assumed of them:
      norm, host_canon, git_suffix : C05's (url crate on the command line; build-time suffix of `created by`)
      host_disp, url_norm, cal, human : this file's (url crate / chrono / Bytes on what the loader reads)
    Where the loader runs the url crate on text the url crate printed at creation, the statement carries the
    composite: [nodes_text] = host_disp (host_canon (unbracket h)) ++ ":" ++ port for every --node (C17's display
    form), [update_text] = url_norm (norm u); the loader accepts exactly when these are defined
    ([c07_created_bytes_show_refused]).
    Side conditions, all decidable and each needed ([c07_e2e_needs_*]): C05's [input_ok] / [opts_ok] (integers fit
    i64 / u16) and a piece length below 2^63 ([run_create] bounds it by 2^32); [texts_utf8]: the texts written are
    UTF-8 (they are Rust `String`s; the models keep byte lists); [content_shown_ok]: what walker and hasher hand over
    is what they always produce - normal UTF-8 path components, MD5 as 32 hex digits exactly under --md5, whole
    20-byte piece digests - and the lengths add up within u64 (repair 0006).

    X5b (on the models as X4 left them): the typed record the loader builds also carries the MD5 texts
    ([f_md5], [Single _ md5]): they are the hex MD5s create wrote when --md5 was given and absent otherwise
    ([c07_created_value_loads], [c07_created_md5_carried]); [show] and [from_input] refuse nesting deeper than
    [BencodeWide.max_depth] = 2048: a created metainfo nests at most 5 deep ([c07_e2e_depth_within_limit]), which is
    proved and used, not assumed; [c07_created_bytes_load] states the result for [from_input], the loader shared with
    `link` and `verify`. *)
From Imdl Require Model.BencodeWide Model.Metainfo Model.Schema Model.Infohash Generated.GenCreate Generated.GenInfohash
  Proofs.MetainfoProofs Proofs.EndToEndShowExamples.
From Imdl Require Import Model.EndToEndShow Proofs.EndToEndShowProofs.

(** bridge: the loader's lookup is the serialiser's, and it asks for the BEP keys C05 writes *)
Theorem c07_e2e_same_lookup : forall k d, lookup k d = Schema.dget k d.
Proof. exact lookup_dget. Qed.

Theorem c07_e2e_same_keys :
  k_announce = Schema.txt "announce" /\ k_announce_list = Schema.txt "announce-list" /\ k_comment = Schema.txt "comment" /\
  k_created_by = Schema.txt "created by" /\ k_creation_date = Schema.txt "creation date" /\
  k_encoding = Schema.txt "encoding" /\ k_info = Schema.txt "info" /\ k_nodes = Schema.txt "nodes" /\
  k_private = Schema.txt "private" /\ k_piece_length = Schema.txt "piece length" /\ k_name = Schema.txt "name" /\
  k_source = Schema.txt "source" /\ k_pieces = Schema.txt "pieces" /\ k_update_url = Schema.txt "update-url" /\
  k_length = Schema.txt "length" /\ k_md5sum = Schema.txt "md5sum" /\ k_files = Schema.txt "files" /\
  k_path = Schema.txt "path".
Proof. exact loader_keys_are_bep. Qed.

(** bridge: the content size C05 speaks of is the sum the report computes *)
Theorem c07_e2e_same_total : forall md5 i, total_length (mode_of md5 i) = Metainfo.total_size i.
Proof. exact total_length_mode. Qed.

(** the typed loader accepts the value create serialises, as the requested metainfo, field by field *)
Theorem c07_created_value_loads :
  forall norm host_canon git_suffix host_disp url_norm o c v name nodes upd,
    Metainfo.input_ok (Metainfo.c_input c) = true -> Metainfo.opts_ok o = true ->
    Metainfo.piece_length_of o (Metainfo.c_input c) < 2 ^ 63 ->
    texts_utf8 norm host_canon git_suffix o c = true -> content_shown_ok (Metainfo.o_md5 o) c = true ->
    Metainfo.build norm host_canon git_suffix o c = Some v ->
    Metainfo.name_of o (Metainfo.c_input c) = Some name ->
    nodes_text host_canon host_disp o = Some nodes -> update_text norm url_norm o = Some upd ->
    typed_of_value host_disp url_norm v =
      Some {| m_announce := option_map norm (Metainfo.o_announce o);
              m_announce_list := match Metainfo.tiers_of o with [] => None | ts => Some ts end;
              m_comment := Metainfo.o_comment o;
              m_created_by := if Metainfo.o_no_created_by o then None
                              else Some (GenCreate.created_by_prefix ++ git_suffix);
              m_creation_date := if Metainfo.o_no_creation_date o then None else Some (Metainfo.o_now o);
              m_encoding := Some GenCreate.encoding_utf8;
              m_nodes := nodes;
              m_private := if Metainfo.o_private o then Some true else None;
              m_piece_length := Metainfo.piece_length_of o (Metainfo.c_input c);
              m_name := name;
              m_source := Metainfo.o_source o;
              m_pieces := Metainfo.c_pieces c;
              m_mode :=
                match Metainfo.c_input c with
                | Metainfo.InFile _ l x | Metainfo.InStdin l x =>
                    Single l (if Metainfo.o_md5 o then Some x else None)
                | Metainfo.InDir _ fs =>
                    Multiple (map (fun f => {| f_length := Metainfo.f_length f; f_path := Metainfo.f_path f;
                                               f_md5 := if Metainfo.o_md5 o then Some (Metainfo.f_md5 f) else None |}) fs)
                end;
              m_update_url := upd |}.
Proof. exact built_value_loads. Qed.

(** the nesting bound of bendy's readers (X4: [show] and [from_input] refuse a value nested deeper than 2048) is no
    restriction on the command line: a created metainfo nests at most 5 deep (top, info, files, one file, its path) *)
Theorem c07_e2e_depth_within_limit :
  forall norm host_canon git_suffix o c v,
    Metainfo.build norm host_canon git_suffix o c = Some v ->
    BencodeWide.depth v = Infohash.vdepth v /\ BencodeWide.depth v <= 5 /\
    (BencodeWide.depth v <=? BencodeWide.max_depth) = true.
Proof. exact build_depth_serde. Qed.

(** the same through [from_input] - Metainfo::from_input on the bytes, the loader `show` shares with `link` and
    `verify` (serde's reader: integers of any size in the tokenizer, nesting at most 2048, i64 for what is skipped or
    buffered): it returns the requested metainfo, and refuses exactly when the url crate does not read back a host
    or the update URL it printed *)
Theorem c07_created_bytes_load :
  forall norm host_canon git_suffix host_disp url_norm o c v name nodes upd,
    Metainfo.input_ok (Metainfo.c_input c) = true -> Metainfo.opts_ok o = true ->
    Metainfo.piece_length_of o (Metainfo.c_input c) < 2 ^ 63 ->
    texts_utf8 norm host_canon git_suffix o c = true -> content_shown_ok (Metainfo.o_md5 o) c = true ->
    Metainfo.build norm host_canon git_suffix o c = Some v ->
    Metainfo.name_of o (Metainfo.c_input c) = Some name ->
    nodes_text host_canon host_disp o = Some nodes -> update_text norm url_norm o = Some upd ->
    from_input host_disp url_norm (encode v) = Some (requested norm git_suffix o c name nodes upd).
Proof. exact created_bytes_from_input. Qed.

Theorem c07_created_bytes_load_refused :
  forall norm host_canon git_suffix host_disp url_norm o c v name,
    Metainfo.input_ok (Metainfo.c_input c) = true -> Metainfo.opts_ok o = true ->
    Metainfo.piece_length_of o (Metainfo.c_input c) < 2 ^ 63 ->
    texts_utf8 norm host_canon git_suffix o c = true -> content_shown_ok (Metainfo.o_md5 o) c = true ->
    Metainfo.build norm host_canon git_suffix o c = Some v ->
    Metainfo.name_of o (Metainfo.c_input c) = Some name ->
    nodes_text host_canon host_disp o = None \/ update_text norm url_norm o = None ->
    from_input host_disp url_norm (encode v) = None.
Proof. exact created_bytes_from_input_refused. Qed.

(** the MD5 values of the loaded metainfo are the ones create wrote: the `md5sum` entries of the created value hold
    the hasher's hex texts exactly when --md5 was given (C05), and the loader hands on exactly those - present under
    --md5, absent otherwise - next to the lengths and the paths, file by file in listed order *)
Theorem c07_created_md5_carried :
  forall norm host_canon git_suffix host_disp url_norm o c v name nodes upd,
    Metainfo.input_ok (Metainfo.c_input c) = true -> Metainfo.opts_ok o = true ->
    Metainfo.piece_length_of o (Metainfo.c_input c) < 2 ^ 63 ->
    texts_utf8 norm host_canon git_suffix o c = true -> content_shown_ok (Metainfo.o_md5 o) c = true ->
    Metainfo.build norm host_canon git_suffix o c = Some v ->
    Metainfo.name_of o (Metainfo.c_input c) = Some name ->
    nodes_text host_canon host_disp o = Some nodes -> update_text norm url_norm o = Some upd ->
    exists m,
      from_input host_disp url_norm (encode v) = Some m /\
      typed_of_value host_disp url_norm v = Some m /\
      match Metainfo.c_input c with
      | Metainfo.InFile _ l x | Metainfo.InStdin l x =>
          m_mode m = Single l (if Metainfo.o_md5 o then Some x else None) /\
          MetainfoProofs.iget (Schema.txt "md5sum") v = (if Metainfo.o_md5 o then Some (Str x) else None)
      | Metainfo.InDir _ fs =>
          exists sfs es,
            m_mode m = Multiple sfs /\ MetainfoProofs.iget (Schema.txt "files") v = Some (Lst es) /\
            map f_length sfs = map Metainfo.f_length fs /\ map f_path sfs = map Metainfo.f_path fs /\
            map f_md5 sfs = map (fun f => if Metainfo.o_md5 o then Some (Metainfo.f_md5 f) else None) fs /\
            Forall2 (fun f e => Schema.vget (Schema.txt "md5sum") e
                                = (if Metainfo.o_md5 o then Some (Str (Metainfo.f_md5 f)) else None)) fs es
      end.
Proof. exact created_md5_carried. Qed.

(** ... as one list (the entry point the correspondence run compares with `md5sum` in the written file and with
    hashlib's MD5 of the contents): one entry for a single file, one per listed file of a directory *)
Theorem c07_created_md5_list :
  forall norm host_canon git_suffix host_disp url_norm o c v name nodes upd,
    Metainfo.input_ok (Metainfo.c_input c) = true -> Metainfo.opts_ok o = true ->
    Metainfo.piece_length_of o (Metainfo.c_input c) < 2 ^ 63 ->
    texts_utf8 norm host_canon git_suffix o c = true -> content_shown_ok (Metainfo.o_md5 o) c = true ->
    Metainfo.build norm host_canon git_suffix o c = Some v ->
    Metainfo.name_of o (Metainfo.c_input c) = Some name ->
    nodes_text host_canon host_disp o = Some nodes -> update_text norm url_norm o = Some upd ->
    e2e_md5s norm host_canon git_suffix host_disp url_norm o c =
      Some (match Metainfo.c_input c with
            | Metainfo.InFile _ _ x | Metainfo.InStdin _ x => [if Metainfo.o_md5 o then Some x else None]
            | Metainfo.InDir _ fs => map (fun f => if Metainfo.o_md5 o then Some (Metainfo.f_md5 f) else None) fs
            end).
Proof. exact e2e_md5s_created. Qed.

(** headline: for every command line and content, `show` of the bytes prints the report below - name = --name or
    the input's file name, comment, creation date = the clock unless suppressed, created by, source, tracker =
    normalised --announce, announce list = the tiers in order (members as written), update URL, DHT nodes in their
    display form, piece size, private flag, files in listed order under the name, content size = sum of the
    lengths, piece count = |pieces| / 20, file count, torrent size = length of the bytes - and the two text forms
    are renderings of the same table (c07_tab_same_values / c07_terminal_same_values / c07_files_row apply to it) *)
Theorem c07_created_bytes_show_back :
  forall norm host_canon git_suffix host_disp url_norm cal human src o c v name nodes upd ih,
    Metainfo.input_ok (Metainfo.c_input c) = true -> Metainfo.opts_ok o = true ->
    Metainfo.piece_length_of o (Metainfo.c_input c) < 2 ^ 63 ->
    texts_utf8 norm host_canon git_suffix o c = true -> content_shown_ok (Metainfo.o_md5 o) c = true ->
    Metainfo.build norm host_canon git_suffix o c = Some v ->
    Metainfo.name_of o (Metainfo.c_input c) = Some name ->
    nodes_text host_canon host_disp o = Some nodes -> update_text norm url_norm o = Some upd ->
    let i := Metainfo.c_input c in
    let len := N.of_nat (List.length (encode v)) in
    let t := table_of cal (requested norm git_suffix o c name nodes upd) (Metainfo.total_size i) len ih in
    show cal human host_disp url_norm src (encode v) ih =
    ShowPrinted
      [ (bs "name", JvStr name);
        (bs "comment", jopt_str (Metainfo.o_comment o));
        (bs "creation_date", jopt_num (if Metainfo.o_no_creation_date o then None else Some (Metainfo.o_now o)));
        (bs "created_by", jopt_str (if Metainfo.o_no_created_by o then None
                                    else Some (GenCreate.created_by_prefix ++ git_suffix)));
        (bs "source", jopt_str (Metainfo.o_source o));
        (bs "info_hash", JvStr ih);
        (bs "torrent_size", JvNum len);
        (bs "content_size", JvNum (Metainfo.total_size i));
        (bs "private", JvBool (Metainfo.o_private o));
        (bs "tracker", jopt_str (option_map norm (Metainfo.o_announce o)));
        (bs "announce_list", JvArr (map (fun t => JvArr (map JvStr (Metainfo.split_on 44 t))) (Metainfo.o_tiers o)));
        (bs "update_url", jopt_str upd);
        (bs "dht_nodes", JvArr (map JvStr (match nodes with Some l => l | None => [] end)));
        (bs "piece_size", JvNum (Metainfo.piece_length_of o i));
        (bs "piece_count", JvNum (N.of_nat (List.length (Metainfo.c_pieces c)) / 20));
        (bs "file_count", JvNum (if is_dir i then N.of_nat (List.length (listed_files i)) else 1));
        (bs "files", JvArr (if is_dir i
                            then map (fun f => JvStr (joined_under name (Metainfo.f_path f))) (listed_files i)
                            else [JvStr name])) ]
      (render_tab t) (render_term human t).
Proof. exact created_bytes_show_back. Qed.

(** ... and the same for the bytes actually written, once the checks of Create::run have passed (they bound the
    piece length, so that hypothesis goes) *)
Theorem c07_written_bytes_show_back :
  forall norm host_canon git_suffix host_disp url_norm url_ok cal human src o c tb name nodes upd ih,
    Metainfo.input_ok (Metainfo.c_input c) = true -> Metainfo.opts_ok o = true ->
    texts_utf8 norm host_canon git_suffix o c = true -> content_shown_ok (Metainfo.o_md5 o) c = true ->
    Metainfo.create_bytes norm url_ok host_canon git_suffix o c = Some tb ->
    Metainfo.name_of o (Metainfo.c_input c) = Some name ->
    nodes_text host_canon host_disp o = Some nodes -> update_text norm url_norm o = Some upd ->
    let len := N.of_nat (List.length tb) in
    let t := table_of cal (requested norm git_suffix o c name nodes upd) (Metainfo.total_size (Metainfo.c_input c)) len ih in
    show cal human host_disp url_norm src tb ih =
    ShowPrinted (requested_json norm git_suffix o c name nodes upd len ih) (render_tab t) (render_term human t).
Proof. exact written_bytes_show_back. Qed.

(** the loader refuses the created bytes exactly when the url crate does not read back a host or the update URL
    it printed itself (so the two `Some` hypotheses above are not a restriction on the command line) *)
Theorem c07_created_bytes_show_refused :
  forall norm host_canon git_suffix host_disp url_norm cal human src o c v name ih,
    Metainfo.input_ok (Metainfo.c_input c) = true -> Metainfo.opts_ok o = true ->
    Metainfo.piece_length_of o (Metainfo.c_input c) < 2 ^ 63 ->
    texts_utf8 norm host_canon git_suffix o c = true -> content_shown_ok (Metainfo.o_md5 o) c = true ->
    Metainfo.build norm host_canon git_suffix o c = Some v ->
    Metainfo.name_of o (Metainfo.c_input c) = Some name ->
    nodes_text host_canon host_disp o = None \/ update_text norm url_norm o = None ->
    show cal human host_disp url_norm src (encode v) ih = ShowRejected.
Proof. exact created_bytes_show_refused. Qed.

(** every optional field is null / empty in the report exactly when its option was not given *)
Theorem c07_created_absent_iff_not_given :
  forall norm host_canon git_suffix host_disp url_norm o c name nodes upd len ih,
    nodes_text host_canon host_disp o = Some nodes -> update_text norm url_norm o = Some upd ->
    let j := requested_json norm git_suffix o c name nodes upd len ih in
    (jfield j (bs "comment") = JvNull <-> Metainfo.o_comment o = None) /\
    (jfield j (bs "creation_date") = JvNull <-> Metainfo.o_no_creation_date o = true) /\
    (jfield j (bs "created_by") = JvNull <-> Metainfo.o_no_created_by o = true) /\
    (jfield j (bs "source") = JvNull <-> Metainfo.o_source o = None) /\
    (jfield j (bs "tracker") = JvNull <-> Metainfo.o_announce o = None) /\
    (jfield j (bs "announce_list") = JvArr [] <-> Metainfo.o_tiers o = []) /\
    (jfield j (bs "update_url") = JvNull <-> Metainfo.o_update_url o = None) /\
    (jfield j (bs "dht_nodes") = JvArr [] <-> Metainfo.o_nodes o = []) /\
    jfield j (bs "private") = JvBool (Metainfo.o_private o).
Proof. exact requested_absent_iff. Qed.

(** instances: a command line with every option and one with none satisfy the hypotheses, and the reports are
    the expected ones *)
Example c07_e2e_all_options_hyps :
  EndToEndShowExamples.hyps EndToEndShowExamples.all_opts MetainfoProofs.ex_content = true /\
  Metainfo.name_of EndToEndShowExamples.all_opts (Metainfo.c_input MetainfoProofs.ex_content) = Some (bs "my name") /\
  nodes_text EndToEndShowExamples.idb EndToEndShowExamples.host_brackets EndToEndShowExamples.all_opts
    = Some (Some [bs "router.example.com:6881"; bs "[2001:db8::1]:6882"; bs "203.0.113.5:1"]) /\
  update_text EndToEndShowExamples.idb EndToEndShowExamples.some_url EndToEndShowExamples.all_opts
    = Some (Some (bs "https://example.com/feed")) /\
  exists v, Metainfo.build EndToEndShowExamples.idb EndToEndShowExamples.idb EndToEndShowExamples.ex_suffix
              EndToEndShowExamples.all_opts MetainfoProofs.ex_content = Some v /\
            Infohash.depth_ok GenInfohash.max_depth v = true.
Proof. exact EndToEndShowExamples.ex_all_hyps. Qed.

Example c07_e2e_all_options_report :
  EndToEndShowExamples.shown_json EndToEndShowExamples.all_opts MetainfoProofs.ex_content =
  Some [ JvStr (bs "my name"); JvStr (bs "hello"); JvNull; JvNull; JvStr (bs "SRC"); JvStr EndToEndShowExamples.ex_ih;
         JvNum (match EndToEndShowExamples.built EndToEndShowExamples.all_opts MetainfoProofs.ex_content with
                | Some tb => N.of_nat (List.length tb) | None => 0 end);
         JvNum 3; JvBool true; JvStr (bs "http://example.com/announce");
         JvArr [JvArr [JvStr (bs "http://a.example/announce"); JvStr (bs "udp://b.example:1337/announce")];
                JvArr [JvStr (bs "http://c.example/announce")]];
         JvStr (bs "https://example.com/feed");
         JvArr [JvStr (bs "router.example.com:6881"); JvStr (bs "[2001:db8::1]:6882"); JvStr (bs "203.0.113.5:1")];
         JvNum 32768; JvNum 1; JvNum 2; JvArr [JvStr (bs "my name/a"); JvStr (bs "my name/sub/b")] ].
Proof. exact EndToEndShowExamples.ex_all_report. Qed.

Example c07_e2e_no_option_hyps :
  EndToEndShowExamples.hyps EndToEndShowExamples.no_opts EndToEndShowExamples.one_file = true /\
  Metainfo.name_of EndToEndShowExamples.no_opts (Metainfo.c_input EndToEndShowExamples.one_file) = Some (bs "file.bin") /\
  nodes_text EndToEndShowExamples.idb EndToEndShowExamples.host_brackets EndToEndShowExamples.no_opts = Some None /\
  update_text EndToEndShowExamples.idb EndToEndShowExamples.some_url EndToEndShowExamples.no_opts = Some None /\
  exists v, Metainfo.build EndToEndShowExamples.idb EndToEndShowExamples.idb EndToEndShowExamples.ex_suffix
              EndToEndShowExamples.no_opts EndToEndShowExamples.one_file = Some v /\
            Infohash.depth_ok GenInfohash.max_depth v = true.
Proof. exact EndToEndShowExamples.ex_none_hyps. Qed.

Example c07_e2e_no_option_report :
  EndToEndShowExamples.shown_json EndToEndShowExamples.no_opts EndToEndShowExamples.one_file =
  Some [ JvStr (bs "file.bin"); JvNull; JvNum 1790000000;
         JvStr (GenCreate.created_by_prefix ++ EndToEndShowExamples.ex_suffix); JvNull; JvStr EndToEndShowExamples.ex_ih;
         JvNum (match EndToEndShowExamples.built EndToEndShowExamples.no_opts EndToEndShowExamples.one_file with
                | Some tb => N.of_nat (List.length tb) | None => 0 end);
         JvNum 5; JvBool false; JvNull; JvArr []; JvNull; JvArr []; JvNum 16384; JvNum 1; JvNum 1;
         JvArr [JvStr (bs "file.bin")] ].
Proof. exact EndToEndShowExamples.ex_none_report. Qed.

(** the MD5 texts in the loaded metainfo: present under --md5 (one file; the directory of the all-options command
    line), absent without it; and the nesting of those two metainfos against the limit *)
Example c07_e2e_md5_values :
  option_map m_mode (EndToEndShowExamples.loaded (EndToEndShowExamples.with_md5 EndToEndShowExamples.no_opts)
                       EndToEndShowExamples.one_file)
    = Some (Single 5 (Some (bs "5d41402abc4b2a76b9719d911017c592"))) /\
  option_map m_mode (EndToEndShowExamples.loaded EndToEndShowExamples.no_opts EndToEndShowExamples.one_file)
    = Some (Single 5 None) /\
  option_map m_mode (EndToEndShowExamples.loaded EndToEndShowExamples.all_opts MetainfoProofs.ex_content)
    = Some (Multiple [ {| f_length := 3; f_path := [bs "a"]; f_md5 := Some (bs "900150983cd24fb0d6963f7d28e17f72") |};
                       {| f_length := 0; f_path := [bs "sub"; bs "b"];
                          f_md5 := Some (bs "d41d8cd98f00b204e9800998ecf8427e") |} ]) /\
  option_map m_mode (EndToEndShowExamples.loaded (EndToEndShowExamples.without_md5 EndToEndShowExamples.all_opts)
                       MetainfoProofs.ex_content)
    = Some (Multiple [ {| f_length := 3; f_path := [bs "a"]; f_md5 := None |};
                       {| f_length := 0; f_path := [bs "sub"; bs "b"]; f_md5 := None |} ]).
Proof. exact EndToEndShowExamples.ex_md5_carried. Qed.

Example c07_e2e_depth_values :
  option_map BencodeWide.depth
    (Metainfo.build EndToEndShowExamples.idb EndToEndShowExamples.idb EndToEndShowExamples.ex_suffix
       EndToEndShowExamples.all_opts MetainfoProofs.ex_content) = Some 5 /\
  option_map BencodeWide.depth
    (Metainfo.build EndToEndShowExamples.idb EndToEndShowExamples.idb EndToEndShowExamples.ex_suffix
       EndToEndShowExamples.no_opts EndToEndShowExamples.one_file) = Some 2 /\
  BencodeWide.max_depth = 2048.
Proof. exact EndToEndShowExamples.ex_depth. Qed.

(** each side condition is needed: with exactly that one false (the tuple: input_ok, opts_ok, piece length below
    2^63, texts_utf8, content_shown_ok), the loader refuses the bytes the model of create writes *)
Example c07_e2e_needs_utf8_texts :
  EndToEndShowExamples.verdict (EndToEndShowExamples.with_comment EndToEndShowExamples.no_opts [255])
    EndToEndShowExamples.one_file = ((true, true, true, false, true), Some ShowRejected).
Proof. exact EndToEndShowExamples.ex_needs_utf8. Qed.

Example c07_e2e_needs_md5_shape :
  EndToEndShowExamples.verdict (EndToEndShowExamples.with_md5 EndToEndShowExamples.no_opts)
    {| Metainfo.c_input := Metainfo.InFile (bs "f") 5 (bs "xyz"); Metainfo.c_pieces := repeat 7 20 |}
  = ((true, true, true, true, false), Some ShowRejected).
Proof. exact EndToEndShowExamples.ex_needs_md5_shape. Qed.

Example c07_e2e_needs_plain_component :
  EndToEndShowExamples.verdict EndToEndShowExamples.no_opts
    (EndToEndShowExamples.a_dir [EndToEndShowExamples.a_file [bs ".."; bs "x"] 1] (repeat 7 20))
  = ((true, true, true, true, false), Some ShowRejected).
Proof. exact EndToEndShowExamples.ex_needs_plain_component. Qed.

Example c07_e2e_needs_whole_pieces :
  EndToEndShowExamples.verdict EndToEndShowExamples.no_opts
    (EndToEndShowExamples.a_dir [EndToEndShowExamples.a_file [bs "x"] 1] (repeat 7 19))
  = ((true, true, true, true, false), Some ShowRejected).
Proof. exact EndToEndShowExamples.ex_needs_whole_pieces. Qed.

Example c07_e2e_needs_total_within_u64 :
  EndToEndShowExamples.verdict EndToEndShowExamples.no_opts
    (EndToEndShowExamples.a_dir [EndToEndShowExamples.a_file [bs "a"] 9223372036854775807;
                                 EndToEndShowExamples.a_file [bs "b"] 9223372036854775807;
                                 EndToEndShowExamples.a_file [bs "c"] 9223372036854775807] (repeat 7 20))
  = ((true, true, true, true, false), Some ShowRejected).
Proof. exact EndToEndShowExamples.ex_needs_total_fits. Qed.

Example c07_e2e_needs_i64_length :
  EndToEndShowExamples.verdict EndToEndShowExamples.no_opts
    {| Metainfo.c_input := Metainfo.InFile (bs "f") 9223372036854775808 []; Metainfo.c_pieces := repeat 7 20 |}
  = ((false, true, true, true, true), Some ShowRejected).
Proof. exact EndToEndShowExamples.ex_needs_input_ok. Qed.

Example c07_e2e_needs_u16_port :
  EndToEndShowExamples.verdict (EndToEndShowExamples.with_node EndToEndShowExamples.no_opts (bs "h.example", 65536))
    EndToEndShowExamples.one_file = ((true, false, true, true, true), Some ShowRejected).
Proof. exact EndToEndShowExamples.ex_needs_opts_ok. Qed.

Example c07_e2e_needs_i64_piece_length :
  EndToEndShowExamples.verdict (EndToEndShowExamples.with_piece_length EndToEndShowExamples.no_opts 9223372036854775808)
    EndToEndShowExamples.one_file = ((true, true, false, true, true), Some ShowRejected).
Proof. exact EndToEndShowExamples.ex_needs_piece_length. Qed.

Print Assumptions c07_e2e_same_lookup.
Print Assumptions c07_e2e_same_keys.
Print Assumptions c07_e2e_same_total.
Print Assumptions c07_created_value_loads.
Print Assumptions c07_e2e_depth_within_limit.
Print Assumptions c07_created_bytes_load.
Print Assumptions c07_created_bytes_load_refused.
Print Assumptions c07_created_md5_carried.
Print Assumptions c07_created_md5_list.
Print Assumptions c07_e2e_md5_values.
Print Assumptions c07_e2e_depth_values.
Print Assumptions c07_created_bytes_show_back.
Print Assumptions c07_written_bytes_show_back.
Print Assumptions c07_created_bytes_show_refused.
Print Assumptions c07_created_absent_iff_not_given.
Print Assumptions c07_e2e_all_options_hyps.
Print Assumptions c07_e2e_all_options_report.
Print Assumptions c07_e2e_no_option_hyps.
Print Assumptions c07_e2e_no_option_report.
Print Assumptions c07_e2e_needs_utf8_texts.
Print Assumptions c07_e2e_needs_md5_shape.
Print Assumptions c07_e2e_needs_plain_component.
Print Assumptions c07_e2e_needs_whole_pieces.
Print Assumptions c07_e2e_needs_total_within_u64.
Print Assumptions c07_e2e_needs_i64_length.
Print Assumptions c07_e2e_needs_u16_port.
Print Assumptions c07_e2e_needs_i64_piece_length.

(* ====================================================================================================== *)
(** * the calendar text and the humanised sizes made concrete (X11)

    Until X11 [cal] (chrono's rendering of the creation date) and [human] (Display for Bytes) were universally
    quantified in every statement above. They are now concrete: Model/Calendar.v's [cal] (civil-from-days arithmetic,
    chrono 0.4.38's text, chrono's range) and Model/ShowConcrete.v's [human_display] (= Model/ByteSize.v's
    [bs_display], C16). The theorems above still hold for every [cal] / [human]; below are (1) what is proved of the
    concrete calendar, for EVERY second count - the text denotes exactly the stored integer, its fields are a valid
    proleptic-Gregorian date, the rendering is strictly monotone and injective, it exists exactly up to
    8210266876799 (262142-12-31 23:59:59, measured on the real binary), the Creation Date row determines the stored
    integer, the layout - and (2) the show theorems at that instance.
    Proofs: Proofs/CalendarProofs.v, Proofs/ShowConcreteProofs.v, Proofs/ShowConcreteE2E.v. The tie of [Calendar.cal]
    to the real binary is the boundary sweep and the random sweep of tools/props/c07.py (section "calendar"). *)
From Imdl Require Model.ByteSize.
From Imdl Require Import Model.Calendar Proofs.CalendarProofs Model.ShowConcrete Proofs.ShowConcreteProofs
  Proofs.ShowConcreteE2E.

(** (a) the printed text denotes exactly the stored second count: the spec-side reader [cal_parse] (year, month, day,
    time of day through [days_from_civil] = counting years, leap days and months) takes it back to [n] *)
Check cal_parse_cal : forall n t, Calendar.cal n = Some t -> cal_parse t = Some n.
Theorem c07_calendar_text_denotes_stored : forall n t, Calendar.cal n = Some t -> cal_parse t = Some n.
Proof. exact cal_parse_cal. Qed.

(** ... and the reader accepts nothing else: within chrono's range a text denotes [n] exactly when it is [n]'s text *)
Theorem c07_calendar_reader_exact :
  forall t n, n <= cal_max -> (Calendar.cal n = Some t <-> cal_parse t = Some n).
Proof. exact cal_parse_iff. Qed.

(** the arithmetic under it, for every integer day count (negative ones too): what [civil_from_days] returns is a
    valid date whose day count is the input *)
Theorem c07_civil_from_days_inverts :
  forall z : Z,
    let '(y, m, d) := civil_from_days z in
    (1 <= m <= 12 /\ 1 <= d <= days_in_month y m /\ days_from_civil y m d = z /\ (z + 719468) / 146097 * 400 <= y)%Z.
Proof. exact civil_from_days_spec. Qed.

(** (b) the fields printed for [n] form a valid proleptic-Gregorian date (month 1..12, day 1..length of the month
    with the 4/100/400 leap rule) and time of day, and they denote [n] *)
Theorem c07_calendar_fields_valid :
  forall n,
    let s := fields n in
    1 <= s_month s <= 12 /\ (1 <= Z.of_N (s_day s) <= days_in_month (Z.of_N (s_year s)) (Z.of_N (s_month s)))%Z /\
    s_hour s < 24 /\ s_min s < 60 /\ s_sec s < 60.
Proof. exact cal_valid_fields. Qed.

Theorem c07_calendar_fields_denote :
  forall n, valid_stamp (fields n) = true /\ secs_of (fields n) = Z.of_N n /\ 1600 <= s_year (fields n).
Proof. exact fields_spec. Qed.

Theorem c07_leap_rule :
  forall y : Z, is_leap y = ((y mod 4 =? 0) && (negb (y mod 100 =? 0) || (y mod 400 =? 0)))%Z.
Proof. intros y. reflexivity. Qed.

(** (c) strictly monotone in the natural order of (year, month, day, hour, minute, second), both ways; injective *)
Theorem c07_calendar_monotone : forall n1 n2, n1 < n2 <-> stamp_lt (fields n1) (fields n2).
Proof. exact fields_mono_iff. Qed.

Theorem c07_calendar_injective : forall n1 n2 t, Calendar.cal n1 = Some t -> Calendar.cal n2 = Some t -> n1 = n2.
Proof. exact cal_inj. Qed.

(** (d) a calendar text exists exactly up to [cal_max]; chrono's own checks decide exactly that range *)
Theorem c07_calendar_range :
  cal_max = 8210266876799 /\
  (forall n, Calendar.cal n = None <-> cal_max < n) /\
  (forall n t, Calendar.cal n = Some t <-> n <= cal_max /\ t = stamp_text (fields n)) /\
  (forall n, chrono_accepts n = true <-> n <= cal_max).
Proof. exact (conj eq_refl (conj cal_none_iff (conj cal_some accepts_iff))). Qed.

(** (e) the Creation Date row - calendar text, else decimal digits - determines the stored integer *)
Theorem c07_creation_date_text_injective :
  forall d1 d2, date_text Calendar.cal d1 = date_text Calendar.cal d2 -> d1 = d2.
Proof. exact date_text_inj. Qed.

Theorem c07_creation_date_row_determines :
  forall m1 m2 c1 c2 l1 l2 ih1 ih2,
    row_values tab_values (table_of Calendar.cal m1 c1 l1 ih1) (lit "Creation Date") =
    row_values tab_values (table_of Calendar.cal m2 c2 l2 ih2) (lit "Creation Date") ->
    m_creation_date m1 = m_creation_date m2.
Proof. exact creation_date_row_determines. Qed.

(** (f) layout: 23 ASCII bytes `YYYY-MM-DD HH:MM:SS UTC` up to the year 9999; `+`, the year in decimal and the same
    19-byte tail from 253402300800 on *)
Theorem c07_calendar_shape :
  forall n t,
  Calendar.cal n = Some t ->
  (exists m1 m2 d1 d2 h1 h2 i1 i2 s1 s2,
     let tail := [45; m1; m2; 45; d1; d2; 32; h1; h2; 58; i1; i2; 58; s1; s2; 32; 85; 84; 67] in
     digit m1 /\ digit m2 /\ digit d1 /\ digit d2 /\ digit h1 /\ digit h2 /\ digit i1 /\ digit i2 /\ digit s1 /\ digit s2 /\
     ((n < 253402300800 /\ exists a b c d, t = [a; b; c; d] ++ tail /\ digit a /\ digit b /\ digit c /\ digit d) \/
      (253402300800 <= n /\ 9999 < s_year (fields n) /\ t = 43 :: dec (s_year (fields n)) ++ tail))) /\
  Forall (fun b => b < 128) t.
Proof. exact cal_shape. Qed.

Theorem c07_calendar_length : forall n t, Calendar.cal n = Some t -> n < 253402300800 -> List.length t = 23%nat.
Proof. exact cal_length. Qed.

(** [human] can be Display for Bytes (C16): on every u64 [human_display] is [bs_display], and every number `show`
    humanises is a u64 *)
Theorem c07_human_is_bytes_display :
  (forall n, n < 2 ^ 64 -> ByteSize.bs_display n = Some (human_display n)) /\
  (forall host_disp url_norm v m,
     typed_of_value host_disp url_norm v = Some m ->
     m_piece_length m < 2 ^ 64 /\ total_length (m_mode m) < 2 ^ 64 /\
     (forall d, m_creation_date m = Some d -> d < 2 ^ 64)).
Proof. exact (conj human_display_eq shown_sizes_are_u64). Qed.

(** the show theorems at [cal := Calendar.cal], [human := human_display] *)
Theorem c07_concrete_show_reports_decoded :
  forall host_disp url_norm src input ih j tab term,
    show_concrete host_disp url_norm src input ih = ShowPrinted j tab term ->
    exists v rest m,
      input = encode v ++ rest /\
      typed_of_value host_disp url_norm v = Some m /\
      j = spec_json host_disp url_norm (is_single m) v (N.of_nat (List.length input)) ih /\
      tab = render_tab (table_of Calendar.cal m (total_length (m_mode m)) (N.of_nat (List.length input)) ih) /\
      term = render_term human_display
               (table_of Calendar.cal m (total_length (m_mode m)) (N.of_nat (List.length input)) ih).
Proof. exact concrete_show_reports_decoded. Qed.

Theorem c07_concrete_same_values :
  (forall m c input_len ih,
     same_values Calendar.cal dec tab_values (table_of Calendar.cal m c input_len ih) (json_of m c input_len ih)) /\
  (forall m c input_len ih,
     same_values Calendar.cal human_display (term_values human_display) (table_of Calendar.cal m c input_len ih)
       (json_of m c input_len ih)) /\
  (forall host_disp url_norm v input_len ih,
     show_value Calendar.cal human_display host_disp url_norm v input_len ih <> ShowPanicked) /\
  (forall host_disp url_norm input ih,
     show_concrete host_disp url_norm FromStdin input ih = show_concrete host_disp url_norm FromPath input ih).
Proof.
  exact (conj concrete_tab_same_values (conj concrete_terminal_same_values
          (conj concrete_show_never_panics concrete_stdin_same))).
Qed.

(** "the text rendering's Creation Date denotes exactly the stored integer": for every printed report the JSON
    number is the stored creation date; the text row is its calendar text when chrono has one - and that text reads
    back to exactly the stored integer - and its decimal digits otherwise; the humanised sizes are Display for Bytes *)
Theorem c07_concrete_report_creation_date :
  forall host_disp url_norm src input ih j tab term,
  show_concrete host_disp url_norm src input ih = ShowPrinted j tab term ->
  exists v rest m,
    input = encode v ++ rest /\ typed_of_value host_disp url_norm v = Some m /\
    let t := table_of Calendar.cal m (total_length (m_mode m)) (N.of_nat (List.length input)) ih in
    tab = render_tab t /\ term = render_term human_display t /\
    jfield j (lit "creation_date") = jopt_num (m_creation_date m) /\
    match m_creation_date m with
    | None => row_values tab_values t (lit "Creation Date") = []
    | Some d =>
        exists text, row_values tab_values t (lit "Creation Date") = [text] /\
          ((d <= cal_max /\ Calendar.cal d = Some text /\ cal_parse text = Some d) \/ (cal_max < d /\ text = dec d))
    end /\
    ByteSize.bs_display (m_piece_length m) = Some (human_display (m_piece_length m)) /\
    ByteSize.bs_display (total_length (m_mode m)) = Some (human_display (total_length (m_mode m))).
Proof. exact concrete_report_creation_date. Qed.

(** end to end with create at the concrete renderers, and the clock: `show` of the written bytes prints the creation
    date as the calendar text of the clock value, which reads back to exactly the clock value *)
Theorem c07_concrete_written_bytes_show_back :
  forall norm host_canon git_suffix host_disp url_norm url_ok src o c tb name nodes upd ih,
    Metainfo.input_ok (Metainfo.c_input c) = true -> Metainfo.opts_ok o = true ->
    texts_utf8 norm host_canon git_suffix o c = true -> content_shown_ok (Metainfo.o_md5 o) c = true ->
    Metainfo.create_bytes norm url_ok host_canon git_suffix o c = Some tb ->
    Metainfo.name_of o (Metainfo.c_input c) = Some name ->
    nodes_text host_canon host_disp o = Some nodes -> update_text norm url_norm o = Some upd ->
    let len := N.of_nat (List.length tb) in
    let t := table_of Calendar.cal (requested norm git_suffix o c name nodes upd)
               (Metainfo.total_size (Metainfo.c_input c)) len ih in
    show_concrete host_disp url_norm src tb ih =
    ShowPrinted (requested_json norm git_suffix o c name nodes upd len ih) (render_tab t) (render_term human_display t).
Proof. exact concrete_written_bytes_show_back. Qed.

Theorem c07_created_creation_date_row :
  forall norm git_suffix o c name nodes upd size len ih,
  let t := table_of Calendar.cal (requested norm git_suffix o c name nodes upd) size len ih in
  (Metainfo.o_no_creation_date o = true -> row_values tab_values t (lit "Creation Date") = []) /\
  (Metainfo.o_no_creation_date o = false ->
     row_values tab_values t (lit "Creation Date") = [creation_date_text (Metainfo.o_now o)] /\
     (Metainfo.o_now o <= cal_max ->
        Calendar.cal (Metainfo.o_now o) = Some (creation_date_text (Metainfo.o_now o)) /\
        cal_parse (creation_date_text (Metainfo.o_now o)) = Some (Metainfo.o_now o))).
Proof. exact created_creation_date_row. Qed.

(** instances: the boundary values the correspondence run also puts to the real binary *)
Example c07_calendar_examples :
  Calendar.cal 0 = Some (bs "1970-01-01 00:00:00 UTC") /\
  Calendar.cal 951782399 = Some (bs "2000-02-28 23:59:59 UTC") /\
  Calendar.cal 951782400 = Some (bs "2000-02-29 00:00:00 UTC") /\
  Calendar.cal 4107542399 = Some (bs "2100-02-28 23:59:59 UTC") /\
  Calendar.cal 4107542400 = Some (bs "2100-03-01 00:00:00 UTC") /\
  Calendar.cal 2147483648 = Some (bs "2038-01-19 03:14:08 UTC") /\
  Calendar.cal 253402300799 = Some (bs "9999-12-31 23:59:59 UTC") /\
  Calendar.cal 253402300800 = Some (bs "+10000-01-01 00:00:00 UTC") /\
  Calendar.cal 8210266876799 = Some (bs "+262142-12-31 23:59:59 UTC") /\
  Calendar.cal 8210266876800 = None /\ Calendar.cal (2 ^ 63) = None /\ Calendar.cal (2 ^ 64 - 1) = None /\
  cal_parse (bs "+262142-12-31 23:59:59 UTC") = Some 8210266876799 /\
  cal_parse (bs "2001-02-29 00:00:00 UTC") = None /\ cal_parse (bs "1969-12-31 23:59:59 UTC") = None /\
  date_text Calendar.cal 8210266876800 = bs "8210266876800" /\
  human_display 1536 = bs "1.5 KiB" /\ human_display (2 ^ 64 - 1) = bs "16 EiB".
Proof. vm_compute. repeat split; reflexivity. Qed.

Print Assumptions c07_calendar_text_denotes_stored.
Print Assumptions c07_calendar_reader_exact.
Print Assumptions c07_civil_from_days_inverts.
Print Assumptions c07_calendar_fields_valid.
Print Assumptions c07_calendar_fields_denote.
Print Assumptions c07_leap_rule.
Print Assumptions c07_calendar_monotone.
Print Assumptions c07_calendar_injective.
Print Assumptions c07_calendar_range.
Print Assumptions c07_creation_date_text_injective.
Print Assumptions c07_creation_date_row_determines.
Print Assumptions c07_calendar_shape.
Print Assumptions c07_calendar_length.
Print Assumptions c07_human_is_bytes_display.
Print Assumptions c07_concrete_show_reports_decoded.
Print Assumptions c07_concrete_same_values.
Print Assumptions c07_concrete_report_creation_date.
Print Assumptions c07_concrete_written_bytes_show_back.
Print Assumptions c07_created_creation_date_row.
Print Assumptions c07_calendar_examples.

(* ====================================================================================================== *)
(** * the url crate made concrete (X14)

    Until X14 [host_disp] and [url_norm] were universally quantified in every statement above (and nothing was assumed of
    them). Model/UrlConcrete.v gives the instances: [c_url_norm] = X10's model of `Url::parse` + Display
    (Model/UrlNorm.v), [c_host_disp] = X9's model of `Host::parse` - of `[text]` when the text contains a colon - followed
    by Display (Model/UrlHost.v); [c_show] is [show_concrete] at these instances: `torrent show` with no library variable
    left. Outside the modelled fragments (non-ASCII / IDNA hosts, `file:` URLs, URLs without `//`) the instances refuse,
    and [value_in_fragment v] says that the decoded file [v] holds no such text; the correspondence run compares [c_show]
    with the real binary on the files that satisfy it (tools/props/c07.py, "urlconcrete"). *)
From Imdl Require Import Model.HostPort Model.UrlHost Model.UrlNorm Model.UrlConcrete
  Proofs.UrlConcreteProofs Proofs.UrlConcreteUses.

(** show prints update_url and dht_nodes as the normal form of what the file says: the update URL shown is the url crate's
    normal form [u] of the stored text [s] (and [s] itself when [s] is written in normal form); every node [host, port] is
    shown as Display of the parsed host, `:` and the port; a printed report never rests on a text outside the fragments *)
Check c_show_reports : forall src input ih j tab term,
  c_show src input ih = ShowPrinted j tab term ->
  exists v rest m,
    input = encode v ++ rest /\ c_typed_of_value v = Some m /\ value_in_fragment v = true /\
    jfield j k_update_url_json = jopt_str (m_update_url m) /\
    jfield j k_dht_nodes_json = JvArr (map JvStr (match m_nodes m with Some l => l | None => [] end)) /\
    (forall s, get_str k_update_url (info_of v) = Some s ->
       exists u, u_norm s = Some (Some u) /\ m_update_url m = Some u /\ is_normal_url u = true /\
                 (is_normal_url s = true -> u = s)) /\
    (get_str k_update_url (info_of v) = None -> m_update_url m = None) /\
    (forall l, lookup k_nodes (top_of v) = Some (Lst l) -> exists ts, m_nodes m = Some ts /\ Forall2 node_shown l ts) /\
    (lookup k_nodes (top_of v) = None -> m_nodes m = None).
Theorem c07_concrete_show_prints_normal_forms : forall src input ih j tab term,
  c_show src input ih = ShowPrinted j tab term ->
  exists v rest m,
    input = encode v ++ rest /\ c_typed_of_value v = Some m /\ value_in_fragment v = true /\
    jfield j k_update_url_json = jopt_str (m_update_url m) /\
    jfield j k_dht_nodes_json = JvArr (map JvStr (match m_nodes m with Some l => l | None => [] end)) /\
    (forall s, get_str k_update_url (info_of v) = Some s ->
       exists u, u_norm s = Some (Some u) /\ m_update_url m = Some u /\ is_normal_url u = true /\
                 (is_normal_url s = true -> u = s)) /\
    (get_str k_update_url (info_of v) = None -> m_update_url m = None) /\
    (forall l, lookup k_nodes (top_of v) = Some (Lst l) -> exists ts, m_nodes m = Some ts /\ Forall2 node_shown l ts) /\
    (lookup k_nodes (top_of v) = None -> m_nodes m = None).
Proof. exact c_show_reports. Qed.

(** what [node_shown] says, spelled out *)
Theorem c07_concrete_node_shown : forall nv t,
  node_shown nv t <->
  exists h p x, nv = Lst [Str h; Int p] /\ (0 <= p < 65536)%Z /\ u_hparse (hp_rebracket h) = Some (Some x) /\
                host_in_fragment h = true /\ t = hshow u_std4 u_url6 x ++ [58] ++ dec (Z.to_N p).
Proof. intros nv t. reflexivity. Qed.

(** a file written in normal form is printed byte for byte: a URL in normal form comes back unchanged, and a host stored as
    Display prints it (the brackets of an IPv6 literal aside) is shown exactly so *)
Theorem c07_concrete_normal_form_printed_verbatim :
  (forall u, is_normal_url u = true -> c_url_norm u = Some u) /\
  (forall h, (exists t, u_hparse t = Some (Some h)) ->
     c_host_disp (Metainfo.unbracket (hshow u_std4 u_url6 h)) = Some (hshow u_std4 u_url6 h)) /\
  (forall t x, c_host_disp t = Some x -> c_host_disp (Metainfo.unbracket x) = Some x) /\
  (forall t u, c_url_norm t = Some u -> c_url_norm u = Some u).
Proof. exact (conj c_url_norm_fixed (conj c_host_disp_printed (conj c_host_disp_idempotent c_url_norm_idempotent))). Qed.

(** end to end with create, the url crate concrete on both sides: the two hypotheses "the url crate reads back the hosts
    and the update URL it printed" of c07_written_bytes_show_back are theorems inside the fragments ... *)
Theorem c07_concrete_created_texts_read_back :
  (forall o, forallb (fun n => c_host_ok (Metainfo.unbracket (fst n))) (Metainfo.o_nodes o) = true ->
     nodes_text c_host_canon c_host_disp o = Some (c_nodes_shown o)) /\
  (forall o, opt_url_accepted (Metainfo.o_update_url o) = true ->
     update_text c_norm c_url_norm o = Some (option_map c_norm (Metainfo.o_update_url o))) /\
  (forall o, opts_in_fragment o = true ->
     opt_utf8 (option_map c_norm (Metainfo.o_announce o)) = true /\
     opt_utf8 (option_map c_norm (Metainfo.o_update_url o)) = true /\
     forallb (fun n => utf8_valid (c_host_canon (Metainfo.unbracket (fst n)))) (Metainfo.o_nodes o) = true).
Proof. exact (conj c_nodes_text (conj c_update_text c_stored_texts_utf8)). Qed.

(** ... so `show` of the written bytes prints the report of the command line: tracker and update URL in the url crate's
    normal form of the text given, each DHT node as Display of the host given, `:` and the port *)
Check c_written_bytes_show_back : forall sfx src o c tb name ih,
  Metainfo.input_ok (Metainfo.c_input c) = true -> Metainfo.opts_ok o = true ->
  texts_utf8 c_norm c_host_canon sfx o c = true -> content_shown_ok (Metainfo.o_md5 o) c = true ->
  c_create_bytes sfx o c = Some tb -> Metainfo.name_of o (Metainfo.c_input c) = Some name ->
  opts_in_fragment o = true ->
  let nodes := c_nodes_shown o in
  let upd := option_map c_norm (Metainfo.o_update_url o) in
  let len := N.of_nat (List.length tb) in
  let t := table_of Calendar.cal (requested c_norm sfx o c name nodes upd) (Metainfo.total_size (Metainfo.c_input c)) len ih in
  c_show src tb ih =
  ShowPrinted (requested_json c_norm sfx o c name nodes upd len ih) (render_tab t) (render_term human_display t).
Theorem c07_concrete_written_bytes_show_back_no_url_variable : forall sfx src o c tb name ih,
  Metainfo.input_ok (Metainfo.c_input c) = true -> Metainfo.opts_ok o = true ->
  texts_utf8 c_norm c_host_canon sfx o c = true -> content_shown_ok (Metainfo.o_md5 o) c = true ->
  c_create_bytes sfx o c = Some tb -> Metainfo.name_of o (Metainfo.c_input c) = Some name ->
  opts_in_fragment o = true ->
  let nodes := c_nodes_shown o in
  let upd := option_map c_norm (Metainfo.o_update_url o) in
  let len := N.of_nat (List.length tb) in
  let t := table_of Calendar.cal (requested c_norm sfx o c name nodes upd) (Metainfo.total_size (Metainfo.c_input c)) len ih in
  c_show src tb ih =
  ShowPrinted (requested_json c_norm sfx o c name nodes upd len ih) (render_tab t) (render_term human_display t).
Proof. exact c_written_bytes_show_back. Qed.

(** instances: a file whose update URL has an upper-case scheme and host, a default port and a dot segment and whose nodes
    are an IPv6 literal in a long spelling, an IPv4-mapped address as std prints it, an upper-case domain and a hexadecimal
    IPv4 address is shown in normal form; written in normal form it is shown byte for byte; a node host the url crate refuses
    or an update URL it cannot parse make the loader refuse the file; a punycode host is outside the fragment *)
Definition x14_file (upd : bytes) (hosts : list bytes) : bytes :=
  encode (Dict [ (k_info, Dict [ (k_length, Int 5); (k_name, Str (lit "n")); (k_piece_length, Int 16384); (k_pieces, Str (repeat 0 20));
                                 (k_update_url, Str upd) ]);
                 (k_nodes, Lst (map (fun h => Lst [Str h; Int 6881]) hosts)) ]).

Example c07_concrete_show_instances :
  c_show_fields (x14_file (lit "HTTPS://Example.COM:443/feed/../x y?q#f")
                          [lit "2001:DB8:0:0:0:0:0:1"; lit "::ffff:1.2.3.4"; lit "Router.Example.ORG"; lit "0x7f.1"]) =
    Some (Some (lit "https://example.com/x%20y?q#f"),
          [lit "[2001:db8::1]:6881"; lit "[::ffff:102:304]:6881"; lit "router.example.org:6881"; lit "127.0.0.1:6881"]) /\
  input_in_fragment (x14_file (lit "HTTPS://Example.COM:443/feed/../x y?q#f") [lit "2001:DB8:0:0:0:0:0:1"; lit "0x7f.1"]) = true /\
  c_show_fields (x14_file (lit "udp://tracker.example:1337/announce") [lit "2001:db8::1"; lit "router.example.org"; lit "127.0.0.1"]) =
    Some (Some (lit "udp://tracker.example:1337/announce"),
          [lit "[2001:db8::1]:6881"; lit "router.example.org:6881"; lit "127.0.0.1:6881"]) /\
  is_normal_url (lit "udp://tracker.example:1337/announce") = true /\
  c_show_fields (x14_file (lit "http://h:65536/") []) = None /\ c_show_fields (x14_file (lit "http://h/") [lit "a b"]) = None /\
  c_show_fields (x14_file (lit "http://h/") [lit "1:2"]) = None /\
  input_in_fragment (x14_file (lit "http://h:65536/") [lit "a b"; lit "1:2"]) = true /\
  input_in_fragment (x14_file (lit "http://h/") [lit "xn--bcher-kva.example"]) = false /\
  input_in_fragment (x14_file (lit "mailto:x") []) = false.
Proof. vm_compute. repeat split; reflexivity. Qed.

Print Assumptions c07_concrete_show_prints_normal_forms.
Print Assumptions c07_concrete_node_shown.
Print Assumptions c07_concrete_normal_form_printed_verbatim.
Print Assumptions c07_concrete_created_texts_read_back.
Print Assumptions c07_concrete_written_bytes_show_back_no_url_variable.
Print Assumptions c07_concrete_show_instances.
