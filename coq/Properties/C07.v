(** C07 — `torrent show` reports what the file says.
    Only pinned statements, theorems closed by [exact], satisfiability examples and [Print Assumptions].
    Model: Model/Summary.v (typed loader as serde+bendy run it, TorrentSummary, table.rs renderers);
    specification side: Model/SummarySpec.v (direct lookups in the decoded value, documented rendering maps);
    proofs: Proofs/SummaryProofs.v; tables regenerated from /repo by tools/rs2v_summary.py: Generated/GenSummary.v.
    [cal] (chrono), [human] (Bytes Display), [host_disp] and [url_norm] (url crate) are universally quantified. *)
From Coq Require Import NArith ZArith List Bool String Permutation Sorted.
From Imdl Require Import Model.Bencode Model.Summary Model.SummarySpec Proofs.SummaryProofs Generated.GenSummary.
Import ListNotations.
Local Open Scope N_scope.

(** (T) the translator understood the current sources *)
Theorem c07_sources_translated : GenSummary.translated = true.
Proof. reflexivity. Qed.

(** (T) the bencode keys the model reads, their structs and optionality are those of the serde derives *)
Theorem c07_schema_matches_source : model_schema = GenSummary.schema.
Proof. reflexivity. Qed.

(** (T) the JSON object has the fields of TorrentSummaryJson in declaration order; the text table's rows, their
    kinds (row / size / tiers / list / directory) and the yes/no spelling are those of TorrentSummary::table *)
Theorem c07_report_shape_matches_source :
  (forall m c n ih, map fst (json_of m c n ih) = GenSummary.json_fields) /\
  map fst label_map = GenSummary.json_fields /\
  all_rows_sig = GenSummary.text_rows /\
  (forall cal m c n ih,
     is_subseq (map (fun r => (fst r, row_kind (snd r))) (table_of cal m c n ih)) GenSummary.text_rows = true) /\
  (forall cal size k, values_of cal size k (JvBool true) = [GenSummary.private_yes] /\
                      values_of cal size k (JvBool false) = [GenSummary.private_no]).
Proof.
  split; [intros; reflexivity|]. split; [reflexivity|]. split; [reflexivity|].
  split; [exact table_rows_in_source_order|]. intros; split; reflexivity.
Qed.

(** every JSON field equals the direct lookup in the decoded file, for every accepted value *)
Check json_is_direct_reading :
  forall host_disp url_norm v m c input_len ih,
    typed_of_value host_disp url_norm v = Some m ->
    content_size_debug (m_mode m) = Some c ->
    json_of m c input_len ih = spec_json host_disp url_norm (is_single m) v input_len ih.
Theorem c07_json_is_direct_reading :
  forall host_disp url_norm v m c input_len ih,
    typed_of_value host_disp url_norm v = Some m ->
    content_size_debug (m_mode m) = Some c ->
    json_of m c input_len ih = spec_json host_disp url_norm (is_single m) v input_len ih.
Proof. exact json_is_direct_reading. Qed.

(** ... where the file-list reading used is really present in the file *)
Theorem c07_mode_reading :
  forall host_disp url_norm v m,
    typed_of_value host_disp url_norm v = Some m ->
    if is_single m then exists n, get_nat k_length (info_of v) = Some n /\ n < 2 ^ 63
    else exists l, lookup k_files (info_of v) = Some (Lst l).
Proof. exact mode_reading_present. Qed.

(** content size: for every accepted value the u64 fold neither panics (debug) nor wraps (release); it is the
    unbounded sum of the listed lengths, which is below 2^64 *)
Theorem c07_content_size_is_true_sum :
  forall host_disp url_norm v m,
    typed_of_value host_disp url_norm v = Some m ->
    content_size_debug (m_mode m) = Some (total_length (m_mode m)) /\
    content_size_release (m_mode m) = total_length (m_mode m) /\
    total_length (m_mode m) < u64_mod.
Proof. exact content_size_is_true_sum. Qed.

(** ... and exactly the sums that do not fit are refused by the loader's check (repair 0006) *)
Theorem c07_overflow_rejected :
  forall fs, content_size_fits (Multiple fs) = true <-> list_sum (map f_length fs) < 2 ^ 64.
Proof. exact fits_iff. Qed.

Theorem c07_piece_count_exact :
  forall host_disp url_norm v m,
    typed_of_value host_disp url_norm v = Some m -> 20 * piece_count m = N.of_nat (List.length (m_pieces m)).
Proof. exact piece_count_exact. Qed.

Theorem c07_show_never_panics :
  forall cal human host_disp url_norm v input_len ih,
    show_value cal human host_disp url_norm v input_len ih <> ShowPanicked.
Proof. exact show_never_panics. Qed.

(** tab-delimited rendering: the same values field for field (documented maps: null -> no row, private -> yes/no,
    creation date -> calendar text, lists flattened, sizes as plain byte counts) *)
Theorem c07_tab_same_values :
  forall cal m c input_len ih,
    same_values cal dec tab_values (table_of cal m c input_len ih) (json_of m c input_len ih).
Proof. exact tab_same_values. Qed.

(** --terminal rendering: the same values, sizes humanised *)
Theorem c07_terminal_same_values :
  forall cal human m c input_len ih,
    same_values cal human (term_values human) (table_of cal m c input_len ih) (json_of m c input_len ih).
Proof. exact term_same_values. Qed.

(** the text file list: the name for a single file; otherwise the listed paths, a permutation, sorted
    component-wise, each printed under the name *)
Theorem c07_files_row :
  forall cal human m c input_len ih,
    let t := table_of cal m c input_len ih in
    (is_single m = true -> row_values tab_values t (lit "Files") = [m_name m] /\
                           row_values (term_values human) t (lit "Files") = [m_name m]) /\
    (is_single m = false ->
       row_values tab_values t (lit "Files")
         = map (fun p => m_name m ++ [47] ++ join [47] p) (sort_paths (file_paths m)) /\
       Permutation (sort_paths (file_paths m)) (file_paths m) /\ Sorted path_le (sort_paths (file_paths m))).
Proof. exact files_row. Qed.

(** JSON and text name each listed file the same way (PathBuf::push = join with "/") whenever the name is non-empty
    and does not end in a slash; the loader only lets normal components through (repair 0004) *)
Theorem c07_file_names_agree :
  (forall host_disp url_norm v m, typed_of_value host_disp url_norm v = Some m ->
     Forall (fun p => Forall (fun c => normal_component c = true) p) (file_paths m)) /\
  (forall p name, name <> [] -> last name 0 <> 47 -> p <> [] -> Forall (fun c => normal_component c = true) p ->
     joined_under name p = name ++ [47] ++ join [47] p).
Proof. exact (conj file_paths_normal joined_under_text). Qed.

(** the same bytes from standard input give the same report *)
Theorem c07_stdin_same :
  forall cal human host_disp url_norm input ih,
    show cal human host_disp url_norm FromStdin input ih = show cal human host_disp url_norm FromPath input ih.
Proof. exact show_stdin_same. Qed.

(** end to end from the bytes: a printed report is the direct reading of a strictly decoded prefix of the input,
    torrent size = byte length of the input; the text forms are renderings of the same table *)
Theorem c07_show_reports_decoded :
  forall cal human host_disp url_norm src input ih j tab term,
    show cal human host_disp url_norm src input ih = ShowPrinted j tab term ->
    exists v rest m,
      input = encode v ++ rest /\
      typed_of_value host_disp url_norm v = Some m /\
      j = spec_json host_disp url_norm (is_single m) v (N.of_nat (List.length input)) ih /\
      tab = render_tab (table_of cal m (total_length (m_mode m)) (N.of_nat (List.length input)) ih) /\
      term = render_term human (table_of cal m (total_length (m_mode m)) (N.of_nat (List.length input)) ih).
Proof. exact show_reports_decoded. Qed.

(** the hypotheses are satisfiable: a multi-file torrent with optional keys, an IPv6 node and an unknown key is
    accepted and printed; three files of 2^63-1 bytes are refused *)
Definition sample_file (len : Z) (p : list bytes) : value := Dict [(k_length, Int len); (k_path, Lst (map Str p))].
Definition sample (lens : list Z) : value :=
  Dict [ (k_announce, Str (lit "http://a/b")); (k_comment, Str [99; 9; 233]);    (* 233 alone is not UTF-8 ... *)
         (k_info, Dict [ (k_files, Lst (map (fun z => sample_file z [lit "d"; lit "f"]) lens)); (k_name, Str (lit "n"));
                         (k_piece_length, Int 16384); (k_pieces, Str (repeat 0 20)); (k_private, Int 1);
                         (lit "x-extra", Lst []) ]);
         (k_nodes, Lst [Lst [Str (lit "::1"); Int 6881]]) ].
Definition sample_ok (lens : list Z) : value :=
  match sample lens with
  | Dict ((a, x) :: (_, _) :: r) => Dict ((a, x) :: (k_comment, Str [99; 9; 195; 169]) :: r)   (* ... c TAB e-acute is *)
  | v => v
  end.

Definition id_ext : bytes -> option bytes := fun x => Some x.

Example c07_sample_accepted :
  match typed_of_value id_ext id_ext (sample_ok [5; 7]%Z) with
  | Some m => is_single m = false /\ content_size_debug (m_mode m) = Some 12 /\ piece_count m = 1
  | None => False
  end /\ typed_of_value id_ext id_ext (sample [5; 7]%Z) = None.
Proof. vm_compute. repeat split; reflexivity. Qed.

Example c07_sample_overflow_rejected :
  typed_of_value id_ext id_ext (sample_ok [9223372036854775807; 9223372036854775807; 9223372036854775807]%Z) = None /\
  match typed_of_value id_ext id_ext (sample_ok [9223372036854775807; 9223372036854775807; 1]%Z) with
  | Some m => content_size_debug (m_mode m) = Some 18446744073709551615
  | None => False
  end.
Proof. vm_compute. split; reflexivity. Qed.

Print Assumptions c07_sources_translated.
Print Assumptions c07_schema_matches_source.
Print Assumptions c07_report_shape_matches_source.
Print Assumptions c07_json_is_direct_reading.
Print Assumptions c07_mode_reading.
Print Assumptions c07_content_size_is_true_sum.
Print Assumptions c07_overflow_rejected.
Print Assumptions c07_piece_count_exact.
Print Assumptions c07_show_never_panics.
Print Assumptions c07_tab_same_values.
Print Assumptions c07_terminal_same_values.
Print Assumptions c07_files_row.
Print Assumptions c07_file_names_agree.
Print Assumptions c07_stdin_same.
Print Assumptions c07_show_reports_decoded.
Print Assumptions c07_sample_accepted.
Print Assumptions c07_sample_overflow_rejected.
