(** C08 - no local input can crash imdl.
    Only pinned statements, theorems closed by [exact], one [Example] per implication showing
    that its hypotheses are satisfiable, and [Print Assumptions].
    Model: Model/Crash.v (every partial operation of the Rust code on the input paths of
    show / link / verify / dump / stats and of the argument stage is an explicit
    Abort-returning primitive; it mirrors the tree after the repairs 0001-0007, the argv
    repair and the repair of the file tree of the terminal layout). Guard lemmas and proofs: Proofs/CrashProofs.v. Panic-site inventory, regenerated
    from the anchored sources on every run: Generated/GenPanicSites.v; its classification:
    Proofs/CrashSites.v.
    What the theorems do not say (exhibited only by the fuzzing runs of tools/props/c08.py):
    stack exhaustion other than the modelled decoder recursion, allocation failure, panics
    inside third-party crates. *)
From Coq Require Import NArith List Bool.
From Imdl Require Import Model.Bencode Model.Crash Proofs.CrashProofs Proofs.CrashSites Generated.GenPanicSites.
Import ListNotations.
Local Open Scope N_scope.

(** (T) the translator understood the current sources and looked at the twenty anchored files *)
Theorem c08_sources_translated : GenPanicSites.translated = true /\ length anchored_files = 20%nat.
Proof. exact inventory_translated. Qed.

(** (T) every unwrap / expect / invariant_unwrap / panicking macro / index / slice / arithmetic /
    panicking std call in the non-test code of the anchored files, as it is in the tree now,
    is classified: mapped to its guard lemma or to the recorded reason it cannot fire *)
Check all_sites_discharged : forallb discharged panic_sites = true.
Theorem c08_all_sites_discharged : forallb discharged panic_sites = true.
Proof. exact all_sites_discharged. Qed.

(** torrent show (text, --json, terminal layout), for every byte string, every external
    library behaviour, every geometry of the row labels: never a panic. The file tree of the
    terminal layout is built, drawn and dropped by loops (src/table.rs after the repair of the
    finding key=deep-path-terminal), so no bound on the number of path components appears. *)
Check show_no_panic :
  forall (url_ok node_ok : bytes -> bool) (stack_budget : N) (in_chrono_range : N -> bool),
  max_depth <= stack_budget ->
  forall (term : bool) (ws : list N) (data : bytes),
  alloc_ok url_ok node_ok data ->
  finish (show_model url_ok node_ok stack_budget in_chrono_range term ws data) <> Panic101.
Theorem c08_show_no_panic :
  forall (url_ok node_ok : bytes -> bool) (stack_budget : N) (in_chrono_range : N -> bool),
  max_depth <= stack_budget ->
  forall (term : bool) (ws : list N) (data : bytes),
  alloc_ok url_ok node_ok data ->
  finish (show_model url_ok node_ok stack_budget in_chrono_range term ws data) <> Panic101.
Proof. exact show_no_panic. Qed.

(** its hypotheses hold for a torrent with an announce list, which the model shows normally *)
Example c08_show_hypotheses_satisfiable :
  max_depth <= max_depth /\
  alloc_ok (fun _ => true) (fun _ => true) witness /\
  finish (show_model (fun _ => true) (fun _ => true) max_depth (fun _ => true) true [4; 7] witness) = Ok0.
Proof. exact (conj (N.le_refl _) (conj alloc_ok_witness witness_shows)). Qed.

(** the file tree of the terminal layout, for every root name and every list of paths (any
    number of files, any number of components): the loops of the repaired code never reach a
    partial operation that fails ([children[index]], [len - 1], [String::truncate] off a character
    boundary), the fuel of the modelled loops suffices, and they compute exactly what the recursive
    code before the repair computed with unlimited stack: the same tree, the same lines *)
Check tree_insert_spec : forall (file : list bytes) (t : tree), tree_insert file t = Val (insert_spec file t).
Theorem c08_tree_insert_is_recursive_insert :
  forall (file : list bytes) (t : tree), tree_insert file t = Val (insert_spec file t).
Proof. exact tree_insert_spec. Qed.

Check tree_lines_spec : forall t : tree, tree_lines t = Val (lines_spec t).
Theorem c08_tree_lines_are_recursive_lines : forall t : tree, tree_lines t = Val (lines_spec t).
Proof. exact tree_lines_spec. Qed.

Theorem c08_tree_drop_terminates : forall t : tree, tree_drop t = Val tt.
Proof. exact tree_drop_spec. Qed.

Theorem c08_directory_rows_no_panic :
  forall (root : bytes) (files : list (list bytes)), directory_rows root files <> Abort.
Proof. exact directory_rows_no_abort. Qed.

(** a multi-file torrent with a repeated path and a file that is also a directory: shown
    normally, and the model draws the tree `imdl --terminal torrent show` prints *)
Example c08_tree_witness :
  finish (show_model (fun _ => true) (fun _ => true) max_depth (fun _ => true) true [4; 7] tree_witness) = Ok0 /\
  tree_rows (fun _ => true) (fun _ => true) tree_witness =
    Some tree_witness_rows.
Proof. exact tree_witness_shows. Qed.

(** torrent link *)
Check link_no_panic :
  forall (url_ok node_ok : bytes -> bool) (stack_budget : N),
  max_depth <= stack_budget -> url_ok k_magnet = true ->
  forall data : bytes, finish (link_model url_ok node_ok stack_budget data) <> Panic101.
Theorem c08_link_no_panic :
  forall (url_ok node_ok : bytes -> bool) (stack_budget : N),
  max_depth <= stack_budget -> url_ok k_magnet = true ->
  forall data : bytes, finish (link_model url_ok node_ok stack_budget data) <> Panic101.
Proof. exact link_no_panic. Qed.

Example c08_link_hypotheses_satisfiable :
  max_depth <= max_depth /\ (fun _ : bytes => true) k_magnet = true /\
  finish (link_model (fun _ => true) (fun _ => true) max_depth witness) = Ok0.
Proof. split; [apply N.le_refl|split; [reflexivity|vm_compute; reflexivity]]. Qed.

(** torrent verify, whatever the verifier finds on disk *)
Theorem c08_verify_no_panic :
  forall (url_ok node_ok : bytes -> bool) (verdict : metainfo -> bool) (data : bytes),
  finish (verify_model url_ok node_ok verdict data) <> Panic101.
Proof. exact verify_no_panic. Qed.

(** torrent dump *)
Check dump_no_panic :
  forall stack_budget : N, max_depth <= stack_budget ->
  forall data : bytes, finish (dump_model stack_budget data) <> Panic101.
Theorem c08_dump_no_panic :
  forall stack_budget : N, max_depth <= stack_budget ->
  forall data : bytes, finish (dump_model stack_budget data) <> Panic101.
Proof. exact dump_no_panic. Qed.

(** the depth limit of repair 0007 is what keeps the decoder inside any finite stack *)
Theorem c08_unbounded_depth_would_overflow : forall stack_budget : N, exists d, stack_guard stack_budget d = Abort.
Proof. exact stack_guard_needed. Qed.

(** torrent stats over any collection of files *)
Check stats_no_panic :
  forall stack_budget : N, max_depth <= stack_budget ->
  forall files : list bytes, N.of_nat (length files) < 2 ^ 64 ->
  finish (stats_model stack_budget files) <> Panic101.
Theorem c08_stats_no_panic :
  forall stack_budget : N, max_depth <= stack_budget ->
  forall files : list bytes, N.of_nat (length files) < 2 ^ 64 ->
  finish (stats_model stack_budget files) <> Panic101.
Proof. exact stats_no_panic. Qed.

Example c08_stats_hypotheses_satisfiable :
  max_depth <= max_depth /\ N.of_nat (length [witness; [120]]) < 2 ^ 64 /\
  finish (stats_model max_depth [witness; [120]]) = Ok0.
Proof. split; [apply N.le_refl|split; vm_compute; reflexivity]. Qed.

(** argument strings: any argv, any parser verdict; and the one unwrap of the magnet parser *)
Theorem c08_args_no_panic :
  forall (accepts : bytes -> bool) (args : list bytes) (value : bytes),
  finish (arg_model accepts args value) <> Panic101.
Proof. exact args_no_panic. Qed.

Theorem c08_magnet_topic_no_panic : forall s : bytes, finish (magnet_topic s) <> Panic101.
Proof. exact magnet_topic_no_panic. Qed.

(** the guards are load-bearing: without content_size_fits (repair 0006) the sum panics, and
    outside the range of u64 the suffix table is indexed out of bounds, and cutting the tree prefix
    inside a character panics *)
Theorem c08_guards_are_needed :
  (exists fs, content_size (Multiple fs) = Abort) /\ bytes_display (2 ^ 70) = Abort /\ truncate seg_bar 1 = Abort.
Proof. exact (conj content_size_unguarded_panics (conj display_unguarded_panics truncate_unguarded_panics)). Qed.

Print Assumptions c08_sources_translated.
Print Assumptions c08_all_sites_discharged.
Print Assumptions c08_show_no_panic.
Print Assumptions c08_show_hypotheses_satisfiable.
Print Assumptions c08_tree_insert_is_recursive_insert.
Print Assumptions c08_tree_lines_are_recursive_lines.
Print Assumptions c08_tree_drop_terminates.
Print Assumptions c08_directory_rows_no_panic.
Print Assumptions c08_tree_witness.
Print Assumptions c08_link_no_panic.
Print Assumptions c08_link_hypotheses_satisfiable.
Print Assumptions c08_verify_no_panic.
Print Assumptions c08_dump_no_panic.
Print Assumptions c08_unbounded_depth_would_overflow.
Print Assumptions c08_stats_no_panic.
Print Assumptions c08_stats_hypotheses_satisfiable.
Print Assumptions c08_args_no_panic.
Print Assumptions c08_magnet_topic_no_panic.
Print Assumptions c08_guards_are_needed.

(* ====================================================================================================== *)
(** * chrono's range made concrete (X11)

    [c08_show_no_panic] holds for every answer chrono could give ([in_chrono_range] universally quantified). Since
    X11 chrono 0.4.38's answer is modelled (Model/Calendar.v [chrono_accepts]: i64::try_from, the day number within
    i32, the year within MIN_YEAR ..= MAX_YEAR) and compared with the real binary in every run of the C07 check;
    the corollary below is the theorem at that instance, and the range it decides is exactly 0 .. 8210266876799
    (262142-12-31 23:59:59), the largest second count for which the real binary prints a calendar text. *)
From Imdl Require Proofs.CrashCalendar Model.Calendar Proofs.CalendarProofs.

Check CrashCalendar.show_no_panic_calendar :
  forall (url_ok node_ok : bytes -> bool) (stack_budget : N),
  max_depth <= stack_budget ->
  forall (term : bool) (ws : list N) (data : bytes),
  alloc_ok url_ok node_ok data ->
  finish (show_model url_ok node_ok stack_budget Calendar.chrono_accepts term ws data) <> Panic101.
Theorem c08_show_no_panic_at_chrono_range :
  forall (url_ok node_ok : bytes -> bool) (stack_budget : N),
  max_depth <= stack_budget ->
  forall (term : bool) (ws : list N) (data : bytes),
  alloc_ok url_ok node_ok data ->
  finish (show_model url_ok node_ok stack_budget Calendar.chrono_accepts term ws data) <> Panic101.
Proof. exact CrashCalendar.show_no_panic_calendar. Qed.

(** its hypotheses hold for a torrent with a creation date inside the range, which the model shows normally *)
Example c08_show_at_chrono_range_satisfiable :
  max_depth <= max_depth /\
  alloc_ok (fun _ => true) (fun _ => true) CrashCalendar.dated_witness /\
  Calendar.chrono_accepts 951782400 = true /\
  finish (show_model (fun _ => true) (fun _ => true) max_depth Calendar.chrono_accepts true [4; 7]
            CrashCalendar.dated_witness) = Ok0.
Proof. exact CrashCalendar.dated_witness_shows. Qed.

(** the range: chrono has a date for exactly the second counts up to 8210266876799; the creation-date row of the
    crash model never aborts, inside the range, outside it, or beyond i64 *)
Check CalendarProofs.accepts_iff : forall n : N, Calendar.chrono_accepts n = true <-> n <= Calendar.cal_max.
Theorem c08_chrono_range_exact :
  Calendar.cal_max = 8210266876799 /\
  forall n : N, Calendar.chrono_accepts n = true <-> n <= Calendar.cal_max.
Proof. exact (conj eq_refl CalendarProofs.accepts_iff). Qed.

Theorem c08_date_row_never_aborts : forall d : N, date_row Calendar.chrono_accepts d = Val tt.
Proof. exact CrashCalendar.date_row_calendar. Qed.

Print Assumptions c08_show_no_panic_at_chrono_range.
Print Assumptions c08_show_at_chrono_range_satisfiable.
Print Assumptions c08_chrono_range_exact.
Print Assumptions c08_date_row_never_aborts.

(* ====================================================================================================== *)
(** * the url crate made concrete (X14)

    [c08_show_no_panic], [c08_link_no_panic] and [c08_verify_no_panic] hold for every answer of the url crate ([url_ok],
    [node_ok] universally quantified); [c08_link_no_panic] needs one fact about it: `Url::parse("magnet:")`, which
    `torrent link` unwraps, succeeds. Model/UrlConcrete.v gives the instances - [c_url_ok]: X10's model of `Url::parse`,
    plus acceptance of every text with a non-special scheme that is not followed by `//` (`parse_non_special` without
    authority never fails), which is where `magnet:` lies; [c_node_ok]: C17's model of `Deserialize for HostPort` over X9's
    model of `Host::parse` - and the theorems below are the no-panic theorems at these instances and at chrono's concrete
    range: the hypothesis about `magnet:` is gone ([c08_magnet_scheme_is_accepted]). The instances are compared with the
    `url_norm` / `hpunben` hooks in the C05 / C07 / C10 runs (tools/props/urlconcrete.py). *)
From Imdl Require Model.UrlConcrete Proofs.UrlConcreteProofs Proofs.UrlConcreteUses.

Theorem c08_magnet_scheme_is_accepted :
  UrlConcrete.c_url_ok k_magnet = true /\ UrlConcrete.url_ok_in_fragment k_magnet = true.
Proof. exact UrlConcreteProofs.c_url_ok_magnet. Qed.

Check UrlConcreteUses.c_show_no_panic :
  forall stack_budget : N, max_depth <= stack_budget ->
  forall (term : bool) (ws : list N) (data : bytes),
  alloc_ok UrlConcrete.c_url_ok UrlConcrete.c_node_ok data ->
  finish (show_model UrlConcrete.c_url_ok UrlConcrete.c_node_ok stack_budget Calendar.chrono_accepts term ws data) <> Panic101.
Theorem c08_show_no_panic_concrete :
  forall stack_budget : N, max_depth <= stack_budget ->
  forall (term : bool) (ws : list N) (data : bytes),
  alloc_ok UrlConcrete.c_url_ok UrlConcrete.c_node_ok data ->
  finish (show_model UrlConcrete.c_url_ok UrlConcrete.c_node_ok stack_budget Calendar.chrono_accepts term ws data) <> Panic101.
Proof. exact UrlConcreteUses.c_show_no_panic. Qed.

Theorem c08_link_no_panic_concrete :
  forall stack_budget : N, max_depth <= stack_budget ->
  forall data : bytes, finish (link_model UrlConcrete.c_url_ok UrlConcrete.c_node_ok stack_budget data) <> Panic101.
Proof. exact UrlConcreteUses.c_link_no_panic. Qed.

Theorem c08_verify_no_panic_concrete :
  forall (verdict : metainfo -> bool) (data : bytes),
  finish (verify_model UrlConcrete.c_url_ok UrlConcrete.c_node_ok verdict data) <> Panic101.
Proof. exact UrlConcreteUses.c_verify_no_panic. Qed.

(** the hypotheses hold for a torrent with a tracker URL with port and path, an update URL and an IPv6 node, which the
    concrete models load, show and link normally; an unparseable URL and a node host the url crate refuses are refused
    ([ok_tracker] = `http://tracker.example:8080/announce`, [ok_node] = `l3:::1i6881ee`, [bad_tracker] has port 80800,
    [bad_node] the host `a:b`) *)
Example c08_concrete_hypotheses_satisfiable :
  max_depth <= max_depth /\
  alloc_ok UrlConcrete.c_url_ok UrlConcrete.c_node_ok UrlConcreteUses.url_witness /\
  finish (show_model UrlConcrete.c_url_ok UrlConcrete.c_node_ok max_depth Calendar.chrono_accepts true [4; 7]
            UrlConcreteUses.url_witness) = Ok0 /\
  finish (link_model UrlConcrete.c_url_ok UrlConcrete.c_node_ok max_depth UrlConcreteUses.url_witness) = Ok0 /\
  UrlConcrete.c_url_ok UrlConcreteUses.ok_tracker = true /\ UrlConcrete.c_node_ok UrlConcreteUses.ok_node = true /\
  UrlConcrete.c_url_ok UrlConcreteUses.bad_tracker = false /\ UrlConcrete.c_node_ok UrlConcreteUses.bad_node = false.
Proof. exact UrlConcreteUses.url_witness_shows. Qed.

Print Assumptions c08_magnet_scheme_is_accepted.
Print Assumptions c08_show_no_panic_concrete.
Print Assumptions c08_link_no_panic_concrete.
Print Assumptions c08_verify_no_panic_concrete.
Print Assumptions c08_concrete_hypotheses_satisfiable.
