(** C16 — byte-size notation is parsed exactly and printed consistently.
    Only pinned statements, theorems closed by [exact], one satisfiability [Example] per
    implication, and [Print Assumptions]. Model: Model/ByteSize.v (+ Model/Float53.v);
    proofs: Proofs/ByteSizeProofs.v; tables regenerated from src/bytes.rs on every run by
    tools/rs2v_bytes.py: Generated/GenBytes.v.

    Reading of the numbers: a binary64 is m * 2^e in exact integer arithmetic; [round53] is
    `u64 as f64`; [hundredths v i] is the number of hundredths "{:.2}" prints for v / 1024^i.
    Text is a list of Unicode scalar values; [cp] turns an ASCII string literal into one. *)
From Coq Require Import Decimal DecimalN.
From Coq Require Import NArith ZArith List Bool String Ascii.
From Imdl Require Import Model.Bencode Model.Float53 Model.ByteSize Generated.GenBytes
  Proofs.Float53Proofs Proofs.ByteSizeProofs.
Import ListNotations.
Local Open Scope N_scope.

Definition cp (s : string) : list N := map N_of_ascii (list_ascii_of_string s).

(** (T) the translator understood the current source *)
Theorem c16_sources_translated : GenBytes.translated = true.
Proof. reflexivity. Qed.

(** (T) the suffix table of the source is the property's: b, byte(s), kib … eib with 1024^k
    (multipliers are shift counts: 2^(10 k) = 1024^k), and the display suffixes are the
    binary units in ascending order *)
Theorem c16_unit_table :
  GenBytes.units =
    [ (cp "", 10 * 0); (cp "b", 10 * 0); (cp "byte", 10 * 0); (cp "bytes", 10 * 0);
      (cp "kib", 10 * 1); (cp "mib", 10 * 2); (cp "gib", 10 * 3); (cp "tib", 10 * 4);
      (cp "pib", 10 * 5); (cp "eib", 10 * 6) ] /\
  GenBytes.display_suffixes = [cp "KiB"; cp "MiB"; cp "GiB"; cp "TiB"; cp "PiB"; cp "EiB"] /\
  GenBytes.word_one = cp "byte" /\ GenBytes.word_many = cp "bytes" /\
  (forall k, 2 ^ (10 * k) = 1024 ^ k).
Proof. repeat split; try reflexivity. intros k. rewrite N.pow_mul_r. reflexivity. Qed.

(** (T) the constants of the Rust text are the constants of the model *)
Theorem c16_model_matches_source :
  (forall c, is_numch c = ((GenBytes.digit_lo <=? c) && (c <=? GenBytes.digit_hi)) || (c =? GenBytes.digit_extra)) /\
  (forall fu v i, unit_loop (S fu) v i =
     if GenBytes.disp_threshold * GenBytes.disp_divisor ^ i <=? v then unit_loop fu v (i + 1) else Some i) /\
  (forall v i, hundredths v i = rne_div (10 ^ GenBytes.disp_precision * v) (GenBytes.disp_divisor ^ i)) /\
  (forall l, trim l = trim_end GenBytes.trim_second (trim_end GenBytes.trim_first l)).
Proof. repeat split; intros; reflexivity. Qed.

(* ------------------------------------------------------------------ parsing *)

(** an integer (leading zeros allowed) followed by any spelling, in any letter case, of a
    unit denotes exactly integer * 1024^k whenever the product fits in 53 bits *)
Check parse_integer_exact : forall ui s sh,
  is_nil ui = false -> spells s sh -> N.of_uint ui * 2 ^ sh < 2 ^ 53 ->
  bs_parse (uint_bytes ui ++ s) = BsOk (N.of_uint ui * 2 ^ sh).
Theorem c16_parse_integer_exact : forall ui s sh,
  is_nil ui = false -> spells s sh -> N.of_uint ui * 2 ^ sh < 2 ^ 53 ->
  bs_parse (uint_bytes ui ++ s) = BsOk (N.of_uint ui * 2 ^ sh).
Proof. exact parse_integer_exact. Qed.

(** … and more generally whenever the integer has at most 53 significant bits and the
    product is a u64 (1eib … 15eib, 8191pib, …) *)
Check parse_integer_wide : forall ui s sh,
  is_nil ui = false -> spells s sh -> N.of_uint ui < 2 ^ 53 -> N.of_uint ui * 2 ^ sh < 2 ^ 64 ->
  bs_parse (uint_bytes ui ++ s) = BsOk (N.of_uint ui * 2 ^ sh).
Theorem c16_parse_integer_wide : forall ui s sh,
  is_nil ui = false -> spells s sh -> N.of_uint ui < 2 ^ 53 -> N.of_uint ui * 2 ^ sh < 2 ^ 64 ->
  bs_parse (uint_bytes ui ++ s) = BsOk (N.of_uint ui * 2 ^ sh).
Proof. exact parse_integer_wide. Qed.

Example c16_parse_integer_inhabited :
  is_nil (N.to_uint 7) = false /\ spells (cp "GiB") 30 /\ N.of_uint (N.to_uint 7) * 2 ^ 30 < 2 ^ 53 /\
  bs_parse (cp "7GiB") = BsOk (7 * 1024 ^ 3).
Proof. vm_compute. repeat split; try reflexivity. right; right; right; right; right; right; left; reflexivity. Qed.

Example c16_parse_integer_wide_inhabited : bs_parse (cp "15EiB") = BsOk (15 * 1024 ^ 6).
Proof. vm_compute. reflexivity. Qed.

Theorem c16_parse_canonical_integer : forall n s sh,
  spells s sh -> n * 2 ^ sh < 2 ^ 53 -> bs_parse (dec n ++ s) = BsOk (n * 2 ^ sh).
Proof. exact parse_canonical_integer. Qed.

(** decimal fractions I.F: the result is the exact product truncated to whole bytes, A / D
    with A = (I * 10^f + F) * 1024^k and D = 10^f, for any number of decimals, below 2^46,
    when the product's fractional part is 0 or between 1% and 99% *)
Check parse_fraction_exact : forall ui u s sh,
  num_ok ui (Some u) = true -> spells s sh ->
  let D := 10 ^ N.of_nat (nb_digits u) in
  let A := (N.of_uint ui * D + N.of_uint u) * 2 ^ sh in
  let R := A mod D in
  A < D * 2 ^ 46 -> (R = 0 \/ (D <= 100 * R /\ 100 * R <= 99 * D)) ->
  bs_parse (uint_bytes ui ++ 46 :: uint_bytes u ++ s) = BsOk (A / D).
Theorem c16_parse_fraction_exact : forall ui u s sh,
  num_ok ui (Some u) = true -> spells s sh ->
  let D := 10 ^ N.of_nat (nb_digits u) in
  let A := (N.of_uint ui * D + N.of_uint u) * 2 ^ sh in
  let R := A mod D in
  A < D * 2 ^ 46 -> (R = 0 \/ (D <= 100 * R /\ 100 * R <= 99 * D)) ->
  bs_parse (uint_bytes ui ++ 46 :: uint_bytes u ++ s) = BsOk (A / D).
Proof. exact parse_fraction_exact. Qed.

(** … which is every fraction with at most two decimals (the property's quantifier) *)
Check parse_two_decimals : forall ui u s sh,
  num_ok ui (Some u) = true -> spells s sh -> (nb_digits u <= 2)%nat ->
  let D := 10 ^ N.of_nat (nb_digits u) in
  let A := (N.of_uint ui * D + N.of_uint u) * 2 ^ sh in
  A < D * 2 ^ 46 ->
  bs_parse (uint_bytes ui ++ 46 :: uint_bytes u ++ s) = BsOk (A / D).
Theorem c16_parse_two_decimals : forall ui u s sh,
  num_ok ui (Some u) = true -> spells s sh -> (nb_digits u <= 2)%nat ->
  let D := 10 ^ N.of_nat (nb_digits u) in
  let A := (N.of_uint ui * D + N.of_uint u) * 2 ^ sh in
  A < D * 2 ^ 46 ->
  bs_parse (uint_bytes ui ++ 46 :: uint_bytes u ++ s) = BsOk (A / D).
Proof. exact parse_two_decimals. Qed.

(** fractions (any number of decimals) whose product is a whole number below 2^53 *)
Check parse_fraction_integral : forall ui u s sh,
  num_ok ui (Some u) = true -> spells s sh ->
  let D := 10 ^ N.of_nat (nb_digits u) in
  let A := (N.of_uint ui * D + N.of_uint u) * 2 ^ sh in
  A mod D = 0 -> A / D < 2 ^ 53 ->
  bs_parse (uint_bytes ui ++ 46 :: uint_bytes u ++ s) = BsOk (A / D).
Theorem c16_parse_fraction_integral : forall ui u s sh,
  num_ok ui (Some u) = true -> spells s sh ->
  let D := 10 ^ N.of_nat (nb_digits u) in
  let A := (N.of_uint ui * D + N.of_uint u) * 2 ^ sh in
  A mod D = 0 -> A / D < 2 ^ 53 ->
  bs_parse (uint_bytes ui ++ 46 :: uint_bytes u ++ s) = BsOk (A / D).
Proof. exact parse_fraction_integral. Qed.

(** the property for two-decimal fractions on its whole domain (product fits in 53 bits),
    outside the residual class [known_parse] = not a whole number and at least 2^46 *)
Check parse_two_decimals_unless_known : forall ui u s sh,
  num_ok ui (Some u) = true -> spells s sh -> (nb_digits u <= 2)%nat ->
  let D := 10 ^ N.of_nat (nb_digits u) in
  let A := (N.of_uint ui * D + N.of_uint u) * 2 ^ sh in
  A / D < 2 ^ 53 -> ~ known_parse A D ->
  bs_parse (uint_bytes ui ++ 46 :: uint_bytes u ++ s) = BsOk (A / D).
Theorem c16_parse_two_decimals_unless_known : forall ui u s sh,
  num_ok ui (Some u) = true -> spells s sh -> (nb_digits u <= 2)%nat ->
  let D := 10 ^ N.of_nat (nb_digits u) in
  let A := (N.of_uint ui * D + N.of_uint u) * 2 ^ sh in
  A / D < 2 ^ 53 -> ~ known_parse A D ->
  bs_parse (uint_bytes ui ++ 46 :: uint_bytes u ++ s) = BsOk (A / D).
Proof. exact parse_two_decimals_unless_known. Qed.

Example c16_parse_known_domain_inhabited :
  (let D := 100 in let A := 175 * 2 ^ 40 in A / D < 2 ^ 53 /\ ~ known_parse A D) /\
  (let D := 10 in let A := 15 * 2 ^ 50 in A mod D = 0 /\ A / D < 2 ^ 53).
Proof.
  split; cbv zeta; split; try (vm_compute; reflexivity).
  intros [H1 _]. vm_compute in H1. apply H1. reflexivity.
Qed.

Example c16_parse_fraction_inhabited :
  bs_parse (cp "1.75TiB") = BsOk (175 * 1024 ^ 4 / 100) /\ bs_parse (cp "0.07kib") = BsOk 71 /\
  bs_parse (cp ".5MIB") = BsOk (512 * 1024) /\ bs_parse (cp "3.") = BsOk 3 /\
  bs_parse (cp "1.5pib") = BsOk (3 * 2 ^ 49) /\ bs_parse (cp "0.0000152587890625tib") = BsOk (2 ^ 24).
Proof. vm_compute. repeat split; reflexivity. Qed.

(** rejection: whatever parses IS a well-formed number (digits, at most one dot, at least one
    digit) followed by a table spelling in some letter case — nothing else is accepted *)
Check parse_accepts_only : forall t v, bs_parse t = BsOk v ->
  exists ui uf s sh, t = num_text ui uf ++ s /\ num_ok ui uf = true /\ spells s sh /\
                     v = parse_val (num_value ui uf) (num_frac uf) sh.
Theorem c16_parse_accepts_only : forall t v, bs_parse t = BsOk v ->
  exists ui uf s sh, t = num_text ui uf ++ s /\ num_ok ui uf = true /\ spells s sh /\
                     v = parse_val (num_value ui uf) (num_frac uf) sh.
Proof. exact parse_accepts_only. Qed.

Theorem c16_parse_rejects_suffix : forall t,
  ~ In (map lower (skip_while is_numch t)) (map fst GenBytes.units) -> forall v, bs_parse t <> BsOk v.
Proof. exact parse_rejects_suffix. Qed.

Theorem c16_parse_rejects_number : forall t,
  let ds := take_while is_numch t in
  (ndigits ds = 0 \/ 2 <= ndots ds)%nat -> forall v, bs_parse t <> BsOk v.
Proof. exact parse_rejects_number. Qed.

Example c16_parse_rejects_inhabited :
  bs_parse (cp "1.0.0") = BsErrNumber /\ bs_parse (cp "") = BsErrNumber /\ bs_parse (cp ".kib") = BsErrNumber /\
  bs_parse (cp "1e3") = BsErrSuffix /\ bs_parse (cp "1kb") = BsErrSuffix /\ bs_parse (cp "1 kib") = BsErrSuffix /\
  bs_parse (cp "-1") = BsErrNumber.
Proof. vm_compute. repeat split; reflexivity. Qed.

(* ------------------------------------------------------------------ printing *)

(** the printed text for every u64: a numeral with at most two decimals and no trailing
    zeros ([two_dec]), a space, the unit word; never a panic *)
Check display_eq : forall n, n < 2 ^ 64 ->
  bs_display n = Some (two_dec (hundredths (round53 n) (unit_of n)) ++ 32 :: word_of (unit_of n) n).
Theorem c16_display_form : forall n, n < 2 ^ 64 ->
  bs_display n = Some (two_dec (hundredths (round53 n) (unit_of n)) ++ 32 :: word_of (unit_of n) n).
Proof. exact display_eq. Qed.

(** [two_dec] is what the property says: integer part; no point when the fraction is zero;
    one decimal when the second would be a zero; otherwise two *)
Theorem c16_two_dec_shape : forall h,
  two_dec h = let q := h / 100 in let r := h mod 100 in
              if r =? 0 then dec q
              else if r mod 10 =? 0 then dec q ++ [46; 48 + r / 10]
              else dec q ++ [46; 48 + r / 10; 48 + r mod 10].
Proof. intros h. reflexivity. Qed.

(** … and, read back with the model's own number reader, that numeral denotes exactly
    [h] hundredths (so the error bounds below are bounds on the printed text) *)
Check two_dec_denotes : forall h, numeral_hundredths (two_dec h) = Some h.
Theorem c16_two_dec_denotes : forall h, numeral_hundredths (two_dec h) = Some h.
Proof. exact two_dec_denotes. Qed.

(** the unit is the largest power of 1024 not exceeding the value rounded to double *)
Check display_unit : forall n, n < 2 ^ 64 ->
  let v := round53 n in let i := unit_of n in
  i <= 6 /\ (1 <= v -> 1024 ^ i <= v) /\ v < 1024 ^ (i + 1) /\ (v = 0 -> i = 0).
Theorem c16_display_unit : forall n, n < 2 ^ 64 ->
  let v := round53 n in let i := unit_of n in
  i <= 6 /\ (1 <= v -> 1024 ^ i <= v) /\ v < 1024 ^ (i + 1) /\ (v = 0 -> i = 0).
Proof. exact display_unit. Qed.

(** `byte` exactly for one byte *)
Theorem c16_display_byte_iff : forall n, n < 2 ^ 64 ->
  (word_of (unit_of n) n = GenBytes.word_one <-> n = 1).
Proof. exact display_byte_iff. Qed.

(** printed value within half a hundredth of the unit: of the double for every n … *)
Theorem c16_display_error : forall n,
  let v := round53 n in let u := 1024 ^ unit_of n in let h := hundredths v (unit_of n) in
  2 * (h * u) <= 2 * (100 * v) + u /\ 2 * (100 * v) <= 2 * (h * u) + u.
Proof. exact display_error. Qed.

(** … of the TRUE value for every n outside the residual class n > 2^53 … *)
Theorem c16_display_error_true : forall n, n <= 2 ^ 53 ->
  let u := 1024 ^ unit_of n in let h := hundredths (round53 n) (unit_of n) in
  2 * (h * u) <= 2 * (100 * n) + u /\ 2 * (100 * n) <= 2 * (h * u) + u.
Proof. exact display_error_true. Qed.

(** … and above it the double differs from n by at most one part in 2^53 *)
Theorem c16_round53_relative_error : forall n,
  2 ^ 53 * round53 n <= 2 ^ 53 * n + n /\ 2 ^ 53 * n <= 2 ^ 53 * round53 n + n.
Proof. exact round53_rel_err. Qed.

(** together: for every u64 the printed value is within 0.005 unit + n / 2^53 of the true value *)
Check display_error_all : forall n,
  let u := 1024 ^ unit_of n in let h := hundredths (round53 n) (unit_of n) in
  2 ^ 53 * (2 * (h * u)) <= 2 ^ 53 * (2 * (100 * n) + u) + 200 * n /\
  2 ^ 53 * (2 * (100 * n)) <= 2 ^ 53 * (2 * (h * u) + u) + 200 * n.
Theorem c16_display_error_all : forall n,
  let u := 1024 ^ unit_of n in let h := hundredths (round53 n) (unit_of n) in
  2 ^ 53 * (2 * (h * u)) <= 2 ^ 53 * (2 * (100 * n) + u) + 200 * n /\
  2 ^ 53 * (2 * (100 * n)) <= 2 ^ 53 * (2 * (h * u) + u) + 200 * n.
Proof. exact display_error_all. Qed.

Example c16_display_inhabited :
  bs_display 1 = Some (cp "1 byte") /\ bs_display 1536 = Some (cp "1.5 KiB") /\
  bs_display (2 ^ 64 - 1) = Some (cp "16 EiB") /\ bs_display (1024 * 1024 - 1) = Some (cp "1024 KiB") /\
  bs_display (1024 + 128) = Some (cp "1.12 KiB") /\ bs_display (1024 + 384) = Some (cp "1.38 KiB").
Proof. vm_compute. repeat split; reflexivity. Qed.

(* ------------------------------------------------------------------ the two residual float classes *)
(** Outside the domains above the literal property is false of the faithful model (and of
    the code): open known findings `parse-fraction-ge-2^46` and `display-gt-2^53`. *)
Theorem c16_parse_fraction_residual :
  exists ui u, uint_bytes ui ++ 46 :: uint_bytes u = txt_4503599627370496_75 /\
    let D := 10 ^ N.of_nat (nb_digits u) in let A := (N.of_uint ui * D + N.of_uint u) * 2 ^ 0 in
    (nb_digits u <= 2)%nat /\ known_parse A D /\ A / D < 2 ^ 53 /\
    bs_parse (uint_bytes ui ++ 46 :: uint_bytes u ++ []) = BsOk (A / D + 1).
Proof. exact parse_fraction_residual. Qed.

Theorem c16_display_residual :
  exists n, 2 ^ 53 < n /\ n < 2 ^ 64 /\
    let u := 1024 ^ unit_of n in let h := hundredths (round53 n) (unit_of n) in
    2 * (h * u) + u < 2 * (100 * n).
Proof. exact display_residual. Qed.

Print Assumptions c16_sources_translated.
Print Assumptions c16_unit_table.
Print Assumptions c16_model_matches_source.
Print Assumptions c16_parse_integer_exact.
Print Assumptions c16_parse_integer_wide.
Print Assumptions c16_parse_integer_inhabited.
Print Assumptions c16_parse_integer_wide_inhabited.
Print Assumptions c16_parse_canonical_integer.
Print Assumptions c16_parse_fraction_exact.
Print Assumptions c16_parse_two_decimals.
Print Assumptions c16_parse_fraction_integral.
Print Assumptions c16_parse_two_decimals_unless_known.
Print Assumptions c16_parse_known_domain_inhabited.
Print Assumptions c16_parse_fraction_inhabited.
Print Assumptions c16_parse_accepts_only.
Print Assumptions c16_parse_rejects_suffix.
Print Assumptions c16_parse_rejects_number.
Print Assumptions c16_parse_rejects_inhabited.
Print Assumptions c16_display_form.
Print Assumptions c16_two_dec_shape.
Print Assumptions c16_two_dec_denotes.
Print Assumptions c16_display_unit.
Print Assumptions c16_display_byte_iff.
Print Assumptions c16_display_error.
Print Assumptions c16_display_error_true.
Print Assumptions c16_round53_relative_error.
Print Assumptions c16_display_error_all.
Print Assumptions c16_display_inhabited.
Print Assumptions c16_parse_fraction_residual.
Print Assumptions c16_display_residual.
