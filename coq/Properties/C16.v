(** C16 — byte-size notation is parsed exactly and printed consistently.
    Only pinned statements, theorems closed by [exact], one satisfiability [Example] per
    implication, and [Print Assumptions]. Model: Model/ByteSize.v (+ Model/Float53.v);
    proofs: Proofs/ByteSizeProofs.v; tables regenerated from src/bytes.rs on every run by
    tools/rs2v_bytes.py: Generated/GenBytes.v.

    Reading of the numbers: since the repair `fix: compute byte sizes exactly instead of through f64`
    both directions are integer arithmetic on the true value; binary64 survives only in the choice
    of the printed unit ([round53] is `u64 as f64`). [hund n] is the number of hundredths of the
    unit printed for n. Text is a list of Unicode scalar values; [cp] turns an ASCII string
    literal into one. *)
From Coq Require Import Decimal DecimalN.
From Coq Require Import NArith ZArith List Bool String Ascii.
From Imdl Require Import Model.Bencode Model.Float53 Model.ByteSize Generated.GenBytes
  Proofs.Float53Proofs Proofs.ByteSizeProofs.
Import ListNotations.
Local Open Scope N_scope.

Definition cp (s : string) : list N := map N_of_ascii (list_ascii_of_string s).

(** (T) the translator understood the current source *)
Theorem c16_sources_translated : GenBytes.translated = true.
Proof. reflexivity. Qed.

(** (T) the suffix table of the source is the property's: b, byte(s), kib … eib with 1024^k
    (multipliers are shift counts: 2^(10 k) = 1024^k), and the display suffixes are the
    binary units in ascending order *)
Theorem c16_unit_table :
  GenBytes.units =
    [ (cp "", 10 * 0); (cp "b", 10 * 0); (cp "byte", 10 * 0); (cp "bytes", 10 * 0);
      (cp "kib", 10 * 1); (cp "mib", 10 * 2); (cp "gib", 10 * 3); (cp "tib", 10 * 4);
      (cp "pib", 10 * 5); (cp "eib", 10 * 6) ] /\
  GenBytes.display_suffixes = [cp "KiB"; cp "MiB"; cp "GiB"; cp "TiB"; cp "PiB"; cp "EiB"] /\
  GenBytes.word_one = cp "byte" /\ GenBytes.word_many = cp "bytes" /\
  (forall k, 2 ^ (10 * k) = 1024 ^ k).
Proof. repeat split; try reflexivity. intros k. rewrite N.pow_mul_r. reflexivity. Qed.

(** (T) the constants of the Rust text are the constants of the model (the number base and the
    scale of the decimals are used by the model straight from the generated table; the
    theorems below are proved for base 10 and scale 100 and stop checking otherwise) *)
Theorem c16_model_matches_source :
  GenBytes.decimals_from_integer = true /\
  GenBytes.parse_base = 10 /\ GenBytes.disp_scale = 100 /\ 10 ^ GenBytes.disp_precision = GenBytes.disp_scale /\
  (forall c, is_numch c = ((GenBytes.digit_lo <=? c) && (c <=? GenBytes.digit_hi)) || (c =? GenBytes.digit_extra)) /\
  (forall c r, split_dot (c :: r) =
     if c =? GenBytes.split_char then ([], r) else let '(w, f) := split_dot r in (c :: w, f)) /\
  (forall fu v i u, unit_loop (S fu) v i u =
     if GenBytes.disp_threshold * GenBytes.disp_divisor ^ i <=? v
     then unit_loop fu v (i + 1) (sat128 (u * GenBytes.disp_unit_factor)) else Some (i, u)) /\
  (forall h, fmt2 h = dec (h / GenBytes.disp_scale) ++
     [GenBytes.disp_point; 48 + (h mod GenBytes.disp_scale) / 10; 48 + h mod 10]) /\
  (forall l, trim l = trim_end GenBytes.trim_second (trim_end GenBytes.trim_first l)).
Proof. repeat split; intros; reflexivity. Qed.

(* ------------------------------------------------------------------ parsing *)

(** THE statement: a well-formed number I.F (any number of digits, either part possibly empty
    but not both, leading zeros allowed) followed by any spelling, in any letter case, of a unit
    parses to floor((I * 10^f + F) * 1024^k / 10^f) clamped at 2^64 - 1: exact truncation for
    every accepted text *)
Check parse_exact : forall ui uf s sh, num_ok ui uf = true -> spells s sh ->
  bs_parse (num_text ui uf ++ s) =
  BsOk (N.min (num_value ui uf * 2 ^ sh / 10 ^ num_frac uf) (2 ^ 64 - 1)).
Theorem c16_parse_exact : forall ui uf s sh, num_ok ui uf = true -> spells s sh ->
  bs_parse (num_text ui uf ++ s) =
  BsOk (N.min (num_value ui uf * 2 ^ sh / 10 ^ num_frac uf) (2 ^ 64 - 1)).
Proof. exact parse_exact. Qed.

(** the names used in it, spelled out *)
Theorem c16_parse_exact_reading :
  (forall ui, num_text ui None = uint_bytes ui /\ num_value ui None = N.of_uint ui /\ num_frac None = 0 /\
              num_ok ui None = negb (is_nil ui)) /\
  (forall ui u, num_text ui (Some u) = uint_bytes ui ++ 46 :: uint_bytes u /\
                num_value ui (Some u) = N.of_uint ui * 10 ^ N.of_nat (nb_digits u) + N.of_uint u /\
                num_frac (Some u) = N.of_nat (nb_digits u) /\
                num_ok ui (Some u) = negb (is_nil ui && is_nil u)) /\
  (forall s sh, spells s sh <-> In (map lower s, sh) GenBytes.units).
Proof. repeat split; intros; try reflexivity; trivial. Qed.

(** corollary, the property's first clause: an integer followed by a unit denotes exactly
    integer * 1024^k whenever the product fits in 53 bits - in fact whenever it fits in 64 *)
Check parse_integer_exact : forall ui s sh,
  is_nil ui = false -> spells s sh -> N.of_uint ui * 2 ^ sh < 2 ^ 64 ->
  bs_parse (uint_bytes ui ++ s) = BsOk (N.of_uint ui * 2 ^ sh).
Theorem c16_parse_integer_exact : forall ui s sh,
  is_nil ui = false -> spells s sh -> N.of_uint ui * 2 ^ sh < 2 ^ 64 ->
  bs_parse (uint_bytes ui ++ s) = BsOk (N.of_uint ui * 2 ^ sh).
Proof. exact parse_integer_exact. Qed.

Check parse_integer_53 : forall ui s sh,
  is_nil ui = false -> spells s sh -> N.of_uint ui * 2 ^ sh < 2 ^ 53 ->
  bs_parse (uint_bytes ui ++ s) = BsOk (N.of_uint ui * 2 ^ sh).
Theorem c16_parse_integer_53 : forall ui s sh,
  is_nil ui = false -> spells s sh -> N.of_uint ui * 2 ^ sh < 2 ^ 53 ->
  bs_parse (uint_bytes ui ++ s) = BsOk (N.of_uint ui * 2 ^ sh).
Proof. exact parse_integer_53. Qed.

Example c16_parse_integer_inhabited :
  is_nil (N.to_uint 7) = false /\ spells (cp "GiB") 30 /\ N.of_uint (N.to_uint 7) * 2 ^ 30 < 2 ^ 53 /\
  bs_parse (cp "7GiB") = BsOk (7 * 1024 ^ 3) /\ bs_parse (cp "15EiB") = BsOk (15 * 1024 ^ 6) /\
  bs_parse (cp "18446744073709551615") = BsOk (2 ^ 64 - 1) /\ bs_parse (cp "9007199254740993") = BsOk (2 ^ 53 + 1).
Proof. vm_compute. repeat split; try reflexivity. right; right; right; right; right; right; left; reflexivity. Qed.

Check parse_canonical_integer : forall n s sh,
  spells s sh -> n * 2 ^ sh < 2 ^ 64 -> bs_parse (dec n ++ s) = BsOk (n * 2 ^ sh).
Theorem c16_parse_canonical_integer : forall n s sh,
  spells s sh -> n * 2 ^ sh < 2 ^ 64 -> bs_parse (dec n ++ s) = BsOk (n * 2 ^ sh).
Proof. exact parse_canonical_integer. Qed.

(** corollary, the property's second clause: decimal fractions I.F scale the same way,
    truncated to whole bytes - A / D with A = (I * 10^f + F) * 1024^k and D = 10^f, for ANY
    number of decimals, whenever the result is a u64 *)
Check parse_fraction_exact : forall ui u s sh,
  num_ok ui (Some u) = true -> spells s sh ->
  let D := 10 ^ N.of_nat (nb_digits u) in
  let A := (N.of_uint ui * D + N.of_uint u) * 2 ^ sh in
  A / D < 2 ^ 64 ->
  bs_parse (uint_bytes ui ++ 46 :: uint_bytes u ++ s) = BsOk (A / D).
Theorem c16_parse_fraction_exact : forall ui u s sh,
  num_ok ui (Some u) = true -> spells s sh ->
  let D := 10 ^ N.of_nat (nb_digits u) in
  let A := (N.of_uint ui * D + N.of_uint u) * 2 ^ sh in
  A / D < 2 ^ 64 ->
  bs_parse (uint_bytes ui ++ 46 :: uint_bytes u ++ s) = BsOk (A / D).
Proof. exact parse_fraction_exact. Qed.

(** at and beyond 2^64 the result is 2^64 - 1 *)
Check parse_saturates : forall ui uf s sh, num_ok ui uf = true -> spells s sh ->
  2 ^ 64 <= num_value ui uf * 2 ^ sh / 10 ^ num_frac uf ->
  bs_parse (num_text ui uf ++ s) = BsOk (2 ^ 64 - 1).
Theorem c16_parse_saturates : forall ui uf s sh, num_ok ui uf = true -> spells s sh ->
  2 ^ 64 <= num_value ui uf * 2 ^ sh / 10 ^ num_frac uf ->
  bs_parse (num_text ui uf ++ s) = BsOk (2 ^ 64 - 1).
Proof. exact parse_saturates. Qed.

(** the inputs of the two repaired findings and of the old domain restrictions, as regression
    cases: products in [2^46, 2^64) with fractions, many decimals, more than 53 significant bits,
    saturation *)
Example c16_parse_fraction_inhabited :
  bs_parse (cp "1.75TiB") = BsOk (175 * 1024 ^ 4 / 100) /\ bs_parse (cp "0.07kib") = BsOk 71 /\
  bs_parse (cp ".5MIB") = BsOk (512 * 1024) /\ bs_parse (cp "3.") = BsOk 3 /\
  bs_parse (cp "1.5pib") = BsOk (3 * 2 ^ 49) /\ bs_parse (cp "0.0000152587890625tib") = BsOk (2 ^ 24) /\
  bs_parse (cp "4503599627370496.75") = BsOk 4503599627370496 /\
  bs_parse (cp "2.99pib") = BsOk (299 * 2 ^ 50 / 100) /\
  bs_parse (cp "0.99999999999999999999") = BsOk 0 /\
  bs_parse (cp "15.99999999999999999eib") = BsOk (2 ^ 64 - 1 - 11) /\
  bs_parse (cp "16eib") = BsOk (2 ^ 64 - 1) /\
  bs_parse (cp "99999999999999999999999999999999999999999999999999") = BsOk (2 ^ 64 - 1) /\
  (let D := 100 in let A := 299 * 2 ^ 50 in A / D < 2 ^ 64 /\ A mod D <> 0 /\ 2 ^ 46 <= A / D).
Proof. vm_compute. repeat split; try reflexivity; intros H; discriminate H. Qed.

(** rejection: whatever parses IS a well-formed number (digits, at most one dot, at least one
    digit) followed by a table spelling in some letter case - nothing else is accepted *)
Check parse_accepts_only : forall t v, bs_parse t = BsOk v ->
  exists ui uf s sh, t = num_text ui uf ++ s /\ num_ok ui uf = true /\ spells s sh /\
                     v = N.min (num_value ui uf * 2 ^ sh / 10 ^ num_frac uf) (2 ^ 64 - 1).
Theorem c16_parse_accepts_only : forall t v, bs_parse t = BsOk v ->
  exists ui uf s sh, t = num_text ui uf ++ s /\ num_ok ui uf = true /\ spells s sh /\
                     v = N.min (num_value ui uf * 2 ^ sh / 10 ^ num_frac uf) (2 ^ 64 - 1).
Proof. exact parse_accepts_only. Qed.

(** no text makes the integer evaluation panic (no u128 operator overflows) *)
Check parse_total : forall t, bs_parse t <> BsPanic.
Theorem c16_parse_total : forall t, bs_parse t <> BsPanic.
Proof. exact parse_total. Qed.

Theorem c16_parse_rejects_suffix : forall t,
  ~ In (map lower (skip_while is_numch t)) (map fst GenBytes.units) -> forall v, bs_parse t <> BsOk v.
Proof. exact parse_rejects_suffix. Qed.

Theorem c16_parse_rejects_number : forall t,
  let ds := take_while is_numch t in
  (ndigits ds = 0 \/ 2 <= ndots ds)%nat -> forall v, bs_parse t <> BsOk v.
Proof. exact parse_rejects_number. Qed.

Example c16_parse_rejects_inhabited :
  bs_parse (cp "1.0.0") = BsErrNumber /\ bs_parse (cp "") = BsErrNumber /\ bs_parse (cp ".kib") = BsErrNumber /\
  bs_parse (cp "1e3") = BsErrSuffix /\ bs_parse (cp "1kb") = BsErrSuffix /\ bs_parse (cp "1 kib") = BsErrSuffix /\
  bs_parse (cp "-1") = BsErrNumber.
Proof. vm_compute. repeat split; reflexivity. Qed.

(* ------------------------------------------------------------------ printing *)

(** the hundredths that get printed: 100 n / 1024^i on the TRUE n, nearest, ties to even *)
Theorem c16_hund_def : forall n, hund n = rne_div (100 * n) (1024 ^ unit_of n).
Proof. intros n. reflexivity. Qed.

(** the printed text for every u64: a numeral with at most two decimals and no trailing
    zeros ([two_dec]), a space, the unit word; never a panic *)
Check display_eq : forall n, n < 2 ^ 64 ->
  bs_display n = Some (two_dec (hund n) ++ 32 :: word_of (unit_of n) n).
Theorem c16_display_form : forall n, n < 2 ^ 64 ->
  bs_display n = Some (two_dec (hund n) ++ 32 :: word_of (unit_of n) n).
Proof. exact display_eq. Qed.

(** [two_dec] is what the property says: integer part; no point when the fraction is zero;
    one decimal when the second would be a zero; otherwise two *)
Theorem c16_two_dec_shape : forall h,
  two_dec h = let q := h / 100 in let r := h mod 100 in
              if r =? 0 then dec q
              else if r mod 10 =? 0 then dec q ++ [46; 48 + r / 10]
              else dec q ++ [46; 48 + r / 10; 48 + r mod 10].
Proof. intros h. reflexivity. Qed.

(** ... and, read back with the model's own number reader, that numeral denotes exactly
    [h] hundredths (so the error bound below is a bound on the printed text) *)
Check two_dec_denotes : forall h, numeral_hundredths (two_dec h) = Some h.
Theorem c16_two_dec_denotes : forall h, numeral_hundredths (two_dec h) = Some h.
Proof. exact two_dec_denotes. Qed.

(** the unit is the largest power of 1024 not exceeding the value rounded to double *)
Check display_unit : forall n, n < 2 ^ 64 ->
  let v := round53 n in let i := unit_of n in
  i <= 6 /\ (1 <= v -> 1024 ^ i <= v) /\ v < 1024 ^ (i + 1) /\ (v = 0 -> i = 0).
Theorem c16_display_unit : forall n, n < 2 ^ 64 ->
  let v := round53 n in let i := unit_of n in
  i <= 6 /\ (1 <= v -> 1024 ^ i <= v) /\ v < 1024 ^ (i + 1) /\ (v = 0 -> i = 0).
Proof. exact display_unit. Qed.

(** `byte` exactly for one byte *)
Theorem c16_display_byte_iff : forall n, n < 2 ^ 64 ->
  (word_of (unit_of n) n = GenBytes.word_one <-> n = 1).
Proof. exact display_byte_iff. Qed.

(** the printed value h / 100 is within half a hundredth of the unit of the TRUE value
    n / 1024^i, for EVERY n: | h * u - 100 n | <= u / 2, in integers *)
Check display_error : forall n,
  let u := 1024 ^ unit_of n in let h := hund n in
  2 * (h * u) <= 2 * (100 * n) + u /\ 2 * (100 * n) <= 2 * (h * u) + u.
Theorem c16_display_error : forall n,
  let u := 1024 ^ unit_of n in let h := hund n in
  2 * (h * u) <= 2 * (100 * n) + u /\ 2 * (100 * n) <= 2 * (h * u) + u.
Proof. exact display_error. Qed.

(** regression cases include the witnesses of the repaired finding (ties above 2^53) *)
Example c16_display_inhabited :
  bs_display 1 = Some (cp "1 byte") /\ bs_display 1536 = Some (cp "1.5 KiB") /\
  bs_display (2 ^ 64 - 1) = Some (cp "16 EiB") /\ bs_display (1024 * 1024 - 1) = Some (cp "1024 KiB") /\
  bs_display (1024 + 128) = Some (cp "1.12 KiB") /\ bs_display (1024 + 384) = Some (cp "1.38 KiB") /\
  bs_display 9147936743096321 = Some (cp "8.13 PiB") /\ bs_display (2 ^ 53 + 2 ^ 47 + 1) = Some (cp "8.13 PiB") /\
  bs_display (2 ^ 53 + 2 ^ 47) = Some (cp "8.12 PiB") /\ bs_display (2 ^ 60 - 1) = Some (cp "1 EiB").
Proof. vm_compute. repeat split; reflexivity. Qed.

Print Assumptions c16_sources_translated.
Print Assumptions c16_unit_table.
Print Assumptions c16_model_matches_source.
Print Assumptions c16_parse_exact.
Print Assumptions c16_parse_exact_reading.
Print Assumptions c16_parse_integer_exact.
Print Assumptions c16_parse_integer_53.
Print Assumptions c16_parse_integer_inhabited.
Print Assumptions c16_parse_canonical_integer.
Print Assumptions c16_parse_fraction_exact.
Print Assumptions c16_parse_saturates.
Print Assumptions c16_parse_fraction_inhabited.
Print Assumptions c16_parse_accepts_only.
Print Assumptions c16_parse_total.
Print Assumptions c16_parse_rejects_suffix.
Print Assumptions c16_parse_rejects_number.
Print Assumptions c16_parse_rejects_inhabited.
Print Assumptions c16_hund_def.
Print Assumptions c16_display_form.
Print Assumptions c16_two_dec_shape.
Print Assumptions c16_two_dec_denotes.
Print Assumptions c16_display_unit.
Print Assumptions c16_display_byte_iff.
Print Assumptions c16_display_error.
Print Assumptions c16_display_inhabited.
