(** C10 — magnet links carry the infohash, name, trackers, peers and selection faithfully.
    This file contains only pinned statements, theorems closed by [exact], examples showing that
    the hypotheses are satisfiable, and [Print Assumptions]. Model: Model/Magnet.v (the tree as
    repaired by "fix: percent-encode magnet link parameter values"); proofs:
    Proofs/MagnetProofs.v; tables regenerated from /repo by tools/rs2v_magnet.py:
    Generated/GenMagnet.v. *)
From Coq Require Import String.
From Coq Require Import NArith List Bool Sorted.
From Imdl Require Import Model.Bencode Model.Magnet Proofs.MagnetProofs Generated.GenMagnet.
Import ListNotations.
Local Open Scope N_scope.

(** (T) the translator understood the current sources *)
Theorem c10_sources_translated :
  GenMagnet.translated = true /\ GenMagnet.src_trackers_announce_then_tiers_skip_seen = true.
Proof. split; reflexivity. Qed.

(** (T) the unescaped byte classes, the escape case, the pieces `to_url` pushes and which values are
    escaped, and the literals of `parse` are those of the model *)
Theorem c10_model_matches_source :
  forallb (fun b => Bool.eqb (safe b) (existsb (N.eqb b) GenMagnet.src_safe)) (map N.of_nat (seq 0 256)) = true /\
  GenMagnet.src_escape_upper = true /\
  GenMagnet.src_parts = [(k_xt_topic, false); (k_amp_dn, true); (k_amp_tr, true); (k_amp_pe, true); (k_amp_so, false)] /\
  GenMagnet.src_scheme = k_magnet /\ GenMagnet.src_topic_key = k_xt /\ GenMagnet.src_topic_prefix = k_urn_btih /\
  GenMagnet.src_topic_hex_len = 40%nat /\ GenMagnet.src_parse_keys = [k_tr; k_dn; k_pe].
Proof. repeat split; vm_compute; reflexivity. Qed.

(** percent-decoding (either convention) undoes push_value on every byte string *)
Check pct_roundtrip : forall plus s, wfb s -> pct_decode plus (push_value s) = s.
Theorem c10_escape_roundtrip : forall plus s, wfb s -> pct_decode plus (push_value s) = s.
Proof. exact pct_roundtrip. Qed.

(** Url::set_query neither drops nor re-encodes anything of the query `to_url` builds *)
Check set_query_to_query : forall l, wf_link l -> set_query (to_query l) = to_query l.
Theorem c10_set_query_identity : forall l, wf_link l -> set_query (to_query l) = to_query l.
Proof. exact set_query_to_query. Qed.

(** first clause: for all names, tracker texts, peer texts and index sets, a standard query-string
    parser (split on `&` and the first `=`, percent-decoding; [plus] = `+`-as-space or not) decodes
    the printed URI to exactly xt, dn, one tr per tracker, one x.pe per peer, so *)
Check std_parse_print : forall plus l, wf_link l ->
  exists q, uri_query (print l) = Some q /\ std_parse plus q = expected l.
Theorem c10_standard_parser_decodes : forall plus l, wf_link l ->
  exists q, uri_query (print l) = Some q /\ std_parse plus q = expected l.
Proof. exact std_parse_print. Qed.

(** the name of DESIGN section 6, a tracker with its own query and escapes, a bracketed IPv6 peer *)
Definition witness_link : link :=
  Link (repeat 171 20) (Some (B "a&b=c+d%41#e f"))
       [B "http://t.example/announce?x=1&y=%20+z#f"] [B "[::1]:80"; B "d.example:6881"] (index_set [3; 1; 3]).

Example c10_wf_link_satisfiable : wf_link witness_link.
Proof.
  unfold wf_link, wfb. cbn [witness_link l_ih l_name l_trackers l_peers].
  repeat split; [| intros n E; inversion E; subst | |];
    repeat (apply Forall_cons || apply Forall_nil); vm_compute; reflexivity.
Qed.

Example c10_witness_decodes :
  forall plus, option_map (std_parse plus) (uri_query (print witness_link)) = Some (expected witness_link) /\
  expected witness_link =
    [(B "xt", B "urn:btih:abababababababababababababababababababab"); (B "dn", B "a&b=c+d%41#e f");
     (B "tr", B "http://t.example/announce?x=1&y=%20+z#f"); (B "x.pe", B "[::1]:80");
     (B "x.pe", B "d.example:6881"); (B "so", B "1,3")].
Proof. intros [|]; split; vm_compute; reflexivity. Qed.

(** second clause: imdl's own parser recovers infohash, name, trackers and peers from the printed
    URI. [lossy] = from_utf8_lossy (identity on the valid UTF-8 a link holds), [url_norm] / [hp_norm]
    = the typed parsers, which return a link's own trackers / peers unchanged (C17 for peers; the url
    crate's parse-of-serialisation invariant for trackers) *)
Check own_parse_print : forall lossy url_norm hp_norm l,
  wf_link l -> length (l_ih l) = 20%nat ->
  (forall s, ascii s -> lossy s = s) -> utf8_fixed lossy l ->
  Forall (fun t => url_norm t = Some t) (l_trackers l) ->
  Forall (fun p => hp_norm p = Some p) (l_peers l) ->
  own_parse lossy url_norm hp_norm (print l) = Parsed (l_ih l) (l_name l) (l_trackers l) (l_peers l).
Theorem c10_own_parser_roundtrip : forall lossy url_norm hp_norm l,
  wf_link l -> length (l_ih l) = 20%nat ->
  (forall s, ascii s -> lossy s = s) -> utf8_fixed lossy l ->
  Forall (fun t => url_norm t = Some t) (l_trackers l) ->
  Forall (fun p => hp_norm p = Some p) (l_peers l) ->
  own_parse lossy url_norm hp_norm (print l) = Parsed (l_ih l) (l_name l) (l_trackers l) (l_peers l).
Proof. exact own_parse_print. Qed.

Example c10_own_parser_hypotheses_satisfiable :
  wf_link witness_link /\ length (l_ih witness_link) = 20%nat /\
  (forall s, ascii s -> id_bytes s = s) /\ utf8_fixed id_bytes witness_link /\
  Forall (fun t => some_bytes t = Some t) (l_trackers witness_link) /\
  Forall (fun p => some_bytes p = Some p) (l_peers witness_link) /\
  run_parse (print witness_link) =
    Parsed (l_ih witness_link) (l_name witness_link) (l_trackers witness_link) (l_peers witness_link).
Proof.
  split; [exact c10_wf_link_satisfiable|]. split; [reflexivity|]. split; [reflexivity|].
  split; [repeat split; try reflexivity; repeat constructor|].
  split; [repeat constructor|]. split; [repeat constructor|]. vm_compute. reflexivity.
Qed.

(** third clause: whatever imdl's parser accepts contains a pair xt = urn:btih: + 40 hex digits, whose
    value is the infohash it reports; so a URI without such a topic is rejected *)
Check own_parse_accepts_topic : forall lossy url_norm hp_norm text ih name trs prs,
  own_parse lossy url_norm hp_norm text = Parsed ih name trs prs ->
  exists q h, url_query text = UQ (Some q) /\ In (k_xt, k_urn_btih ++ h) (form_pairs lossy q) /\
              length h = 40%nat /\ Forall hexchar h /\ unhex_str h = Some ih /\ length ih = 20%nat.
Theorem c10_accept_implies_topic : forall lossy url_norm hp_norm text ih name trs prs,
  own_parse lossy url_norm hp_norm text = Parsed ih name trs prs ->
  exists q h, url_query text = UQ (Some q) /\ In (k_xt, k_urn_btih ++ h) (form_pairs lossy q) /\
              length h = 40%nat /\ Forall hexchar h /\ unhex_str h = Some ih /\ length ih = 20%nat.
Proof. exact own_parse_accepts_topic. Qed.

Check reject_without_topic : forall lossy url_norm hp_norm text,
  (forall q h, url_query text = UQ (Some q) -> In (k_xt, k_urn_btih ++ h) (form_pairs lossy q) ->
               length h = 40%nat -> ~ Forall hexchar h) ->
  forall ih name trs prs, own_parse lossy url_norm hp_norm text <> Parsed ih name trs prs.
Theorem c10_reject_without_topic : forall lossy url_norm hp_norm text,
  (forall q h, url_query text = UQ (Some q) -> In (k_xt, k_urn_btih ++ h) (form_pairs lossy q) ->
               length h = 40%nat -> ~ Forall hexchar h) ->
  forall ih name trs prs, own_parse lossy url_norm hp_norm text <> Parsed ih name trs prs.
Proof. exact reject_without_topic. Qed.

(** a 39-digit topic, a non-hex topic, no topic, another scheme: all rejected; the premise of
    c10_reject_without_topic is satisfiable *)
Example c10_rejects :
  run_parse (B "magnet:?xt=urn:btih:abababababababababababababababababababa&dn=x") = Rejected EInfohashLength /\
  run_parse (B "magnet:?xt=urn:btih:zbababababababababababababababababababab") = Rejected EHexParse /\
  run_parse (B "magnet:?dn=x&tr=http://a/") = Rejected ETopicMissing /\
  run_parse (B "magnet:") = Rejected ETopicMissing /\
  run_parse (B "http://x/?xt=urn:btih:abababababababababababababababababababab") = Rejected EScheme /\
  run_parse (B " MAGNET:?dn=n&xt=urn:sha1:x&xt=urn%3Abtih%3AABABABABABABABABABABABABABABABABABABABAB#frag") =
    Parsed (repeat 171 20) (Some (B "n")) [] [].
Proof. repeat split; vm_compute; reflexivity. Qed.

(** the tracker list: one entry per distinct stored text, nothing else, in first-appearance order
    of announce followed by the tiers *)
Check trackers_order_dedup : forall announce tiers,
  let all := match announce with Some a => [a] | None => [] end ++ concat tiers in
  let ts := tracker_texts announce tiers in
  NoDup ts /\ (forall t, In t ts <-> In t all) /\
  StronglySorted (fun x y => (first_idx x all < first_idx y all)%nat) ts.
Theorem c10_trackers_order_dedup : forall announce tiers,
  let all := match announce with Some a => [a] | None => [] end ++ concat tiers in
  let ts := tracker_texts announce tiers in
  NoDup ts /\ (forall t, In t ts <-> In t all) /\
  StronglySorted (fun x y => (first_idx x all < first_idx y all)%nat) ts.
Proof. exact trackers_order_dedup. Qed.

Theorem c10_announce_first : forall a tiers, exists r, tracker_texts (Some a) tiers = a :: r.
Proof. exact tracker_texts_announce_first. Qed.

(** the selection: ascending, duplicate-free, exactly the requested indices; and the printed `so`
    value reads back as that list *)
Check indices_sorted_dedup : forall l,
  StronglySorted N.lt (index_set l) /\ forall x, In x (index_set l) <-> In x l.
Theorem c10_indices_sorted_dedup : forall l,
  StronglySorted N.lt (index_set l) /\ forall x, In x (index_set l) <-> In x l.
Proof. exact indices_sorted_dedup. Qed.

Check read_so_value : forall s, s <> [] -> read_so (so_value s) = Some s.
Theorem c10_so_reads_back : forall s, s <> [] -> read_so (so_value s) = Some s.
Proof. exact read_so_value. Qed.

Example c10_so_example : so_value (index_set [7; 0; 7; 18446744073709551615; 2]) = B "0,2,7,18446744073709551615".
Proof. vm_compute. reflexivity. Qed.

(** `torrent link` end to end: whenever the command prints a URI, a standard parser decodes it to the
    infohash, the name, one tr per distinct tracker text in first-appearance order (url normal form),
    one x.pe per --peer, and the ascending duplicate-free --select-only indices *)
Check link_cmd_decodes : forall url_norm plus ih name announce tiers peers select_only uri,
  wfb ih -> wfb name -> Forall wfb peers -> (forall t u, url_norm t = Some u -> wfb u) ->
  link_cmd url_norm ih name announce tiers peers select_only = Some uri ->
  exists q trs,
    map_opt url_norm (tracker_texts announce tiers) = Some trs /\ uri_query uri = Some q /\
    std_parse plus q =
      (k_xt, k_urn_btih ++ hex_lower ih) :: (k_dn, name)
      :: map (fun t => (k_tr, t)) trs ++ map (fun p => (k_pe, p)) peers
      ++ match index_set select_only with [] => [] | _ :: _ => [(k_so, so_value (index_set select_only))] end.
Theorem c10_link_command_decodes : forall url_norm plus ih name announce tiers peers select_only uri,
  wfb ih -> wfb name -> Forall wfb peers -> (forall t u, url_norm t = Some u -> wfb u) ->
  link_cmd url_norm ih name announce tiers peers select_only = Some uri ->
  exists q trs,
    map_opt url_norm (tracker_texts announce tiers) = Some trs /\ uri_query uri = Some q /\
    std_parse plus q =
      (k_xt, k_urn_btih ++ hex_lower ih) :: (k_dn, name)
      :: map (fun t => (k_tr, t)) trs ++ map (fun p => (k_pe, p)) peers
      ++ match index_set select_only with [] => [] | _ :: _ => [(k_so, so_value (index_set select_only))] end.
Proof. exact link_cmd_decodes. Qed.

Example c10_link_command_example :
  option_map (fun uri => option_map (std_parse true) (uri_query uri))
    (link_cmd some_bytes (repeat 1 20) (B "n m") (Some (B "udp://a:1")) [[B "udp://b:2"; B "udp://a:1"]; [B "udp://b:2"]]
              [B "1.2.3.4:5"] [2; 2]) =
  Some (Some [(B "xt", B "urn:btih:0101010101010101010101010101010101010101"); (B "dn", B "n m");
              (B "tr", B "udp://a:1"); (B "tr", B "udp://b:2"); (B "x.pe", B "1.2.3.4:5"); (B "so", B "2")]).
Proof. vm_compute. reflexivity. Qed.

Print Assumptions c10_sources_translated.
Print Assumptions c10_model_matches_source.
Print Assumptions c10_escape_roundtrip.
Print Assumptions c10_set_query_identity.
Print Assumptions c10_standard_parser_decodes.
Print Assumptions c10_wf_link_satisfiable.
Print Assumptions c10_witness_decodes.
Print Assumptions c10_own_parser_roundtrip.
Print Assumptions c10_own_parser_hypotheses_satisfiable.
Print Assumptions c10_accept_implies_topic.
Print Assumptions c10_reject_without_topic.
Print Assumptions c10_rejects.
Print Assumptions c10_trackers_order_dedup.
Print Assumptions c10_announce_first.
Print Assumptions c10_indices_sorted_dedup.
Print Assumptions c10_so_reads_back.
Print Assumptions c10_so_example.
Print Assumptions c10_link_command_decodes.
Print Assumptions c10_link_command_example.

(* ====================================================================================================== *)
(** * end to end with create (X5)

    The magnet link `torrent link` prints for the bytes `torrent create` wrote, and the link `create --link`
    prints. Composition of C05 ([Metainfo.build]), C04 ([Infohash.hashed_bytes] / [infohash_of], the lossy path
    [Infohash.ser_info]), C07's typed loader (link.rs loads the file with Metainfo::from_input) and this file's
    [link_cmd] / standard parser. Model: Model/EndToEndShow.v ([link_file] = link.rs on given bytes, [create_link] =
    MagnetLink::from_metainfo_lossy on the struct create holds); proofs: Proofs/EndToEndShowProofs.v.
    [norm], [host_canon], [git_suffix] are C05's Section variables, [host_disp] / [url_norm] C07's and this file's,
    [H] is SHA-1 (nothing is assumed of it but that it returns bytes), [md] bendy's depth limit. The side conditions
    are those of c07_created_bytes_show_back (link.rs runs the same loader) plus [depth_ok]; the [wfb] hypotheses
    say that names, digests, peers and URLs are bytes ([byte] is [N] in the models), as in c10_link_command_decodes.

    X5b (on the models as X4 left them): [link_file] loads the file with [Summary.from_input], the one typed loader of
    `show`, `link` and `verify` (serde's reader: nesting at most [BencodeWide.max_depth], i64 for what is skipped or
    buffered; the typed record now carries the MD5 texts, which the link does not use). Its nesting bound is proved
    to hold for every created metainfo ([c10_e2e_depth_within_limit]) and used in the proofs, not assumed. *)
From Imdl Require Model.BencodeWide Model.Metainfo Model.Schema Model.Infohash Model.Summary Generated.GenInfohash
  Proofs.MetainfoProofs Proofs.EndToEndShowExamples.
From Imdl Require Import Model.EndToEndShow Proofs.EndToEndShowProofs.

(** bridge: bendy's struct serialiser as C04 models it (sort the fields, refuse duplicates) and as C05 models it
    (insert one by one, refusing duplicates) build the same dictionary from the same fields, in whatever order
    they are handed over *)
Theorem c10_e2e_same_serialiser : forall es e,
  Schema.distinct_keys (map fst es) = true -> Schema.distinct_keys (map fst e) = true ->
  (forall y, In y e <-> In y (present es)) -> Infohash.ser_struct e = Schema.mk_dict es.
Proof. exact ser_struct_of_mk_dict. Qed.

(** C04's lossy path applies to what create holds: the serialisation of the typed `Metainfo` struct is the bytes
    C05 writes, and `create --link` / `create --show` hash what `link` / `show` hash on that file
    (by c04_lossy_agrees_on_created) *)
Theorem c10_e2e_lossy_on_created :
  forall norm host_canon git_suffix (H : list N -> list N) md o c v name trailing,
    Metainfo.input_ok (Metainfo.c_input c) = true -> Metainfo.opts_ok o = true ->
    Metainfo.piece_length_of o (Metainfo.c_input c) < 2 ^ 63 ->
    Metainfo.build norm host_canon git_suffix o c = Some v ->
    Metainfo.name_of o (Metainfo.c_input c) = Some name -> Infohash.depth_ok md v = true ->
    exists typed,
      Infohash.ser_info (tinfo_of norm o c name) = Some typed /\
      Infohash.ser_metainfo (present (other_entries norm host_canon git_suffix o)) (tinfo_of norm o c name)
        = Some (encode v) /\
      Infohash.infohash_of (list N) H md (encode v ++ trailing) = Some (H typed).
Proof. exact lossy_created. Qed.

(** both commands, as [link_cmd] of the requested name, the requested trackers and the hash of the info dictionary
    as stored, which is the span `Infohash::from_input` hashes in those bytes *)
Theorem c10_created_links_are_link_cmd :
  forall norm host_canon git_suffix (H : list N -> list N) host_disp url_norm md o c v name nodes upd peers select_only,
    Metainfo.input_ok (Metainfo.c_input c) = true -> Metainfo.opts_ok o = true ->
    Metainfo.piece_length_of o (Metainfo.c_input c) < 2 ^ 63 ->
    texts_utf8 norm host_canon git_suffix o c = true -> content_shown_ok (Metainfo.o_md5 o) c = true ->
    Metainfo.build norm host_canon git_suffix o c = Some v ->
    Metainfo.name_of o (Metainfo.c_input c) = Some name ->
    nodes_text host_canon host_disp o = Some nodes -> update_text norm url_norm o = Some upd ->
    Infohash.depth_ok md v = true ->
    exists info,
      Schema.vget (Schema.txt "info") v = Some info /\
      Infohash.hashed_bytes md (encode v) = Some (encode info) /\
      Infohash.ser_info (tinfo_of norm o c name) = Some (encode info) /\
      link_file H host_disp url_norm md (encode v) peers select_only
        = link_cmd url_norm (H (encode info)) name (option_map norm (Metainfo.o_announce o)) (Metainfo.tiers_of o)
                   peers select_only /\
      create_link norm H url_norm o c peers
        = link_cmd url_norm (H (encode info)) name (option_map norm (Metainfo.o_announce o)) (Metainfo.tiers_of o)
                   peers [].
Proof. exact created_link_back. Qed.

(** headline: whenever `torrent link` prints a URI for the created bytes, a standard parser (either `+` convention)
    decodes it to xt = urn:btih: + hex of H (the info span of those bytes), dn = the requested / derived name, one tr
    per distinct tracker text - the normalised --announce, then the tier members in order, first appearance only
    (c10_trackers_order_dedup) - in url normal form, one x.pe per --peer, the ascending duplicate-free selection;
    and without --select-only it is the very link `create --link` prints *)
Theorem c10_created_bytes_link_back :
  forall norm host_canon git_suffix (H : list N -> list N) host_disp url_norm md plus o c v name nodes upd
         peers select_only uri,
    Metainfo.input_ok (Metainfo.c_input c) = true -> Metainfo.opts_ok o = true ->
    Metainfo.piece_length_of o (Metainfo.c_input c) < 2 ^ 63 ->
    texts_utf8 norm host_canon git_suffix o c = true -> content_shown_ok (Metainfo.o_md5 o) c = true ->
    Metainfo.build norm host_canon git_suffix o c = Some v ->
    Metainfo.name_of o (Metainfo.c_input c) = Some name ->
    nodes_text host_canon host_disp o = Some nodes -> update_text norm url_norm o = Some upd ->
    Infohash.depth_ok md v = true ->
    (forall x, wfb (H x)) -> wfb name -> Forall wfb peers -> (forall t u, url_norm t = Some u -> wfb u) ->
    link_file H host_disp url_norm md (encode v) peers select_only = Some uri ->
    exists info q trs,
      Schema.vget (Schema.txt "info") v = Some info /\
      Infohash.hashed_bytes md (encode v) = Some (encode info) /\
      map_opt url_norm (tracker_texts (option_map norm (Metainfo.o_announce o)) (Metainfo.tiers_of o)) = Some trs /\
      uri_query uri = Some q /\
      std_parse plus q =
        (k_xt, k_urn_btih ++ hex_lower (H (encode info))) :: (k_dn, name)
        :: map (fun t => (k_tr, t)) trs ++ map (fun p => (k_pe, p)) peers
        ++ match index_set select_only with [] => [] | _ :: _ => [(k_so, so_value (index_set select_only))] end /\
      (select_only = [] -> create_link norm H url_norm o c peers = Some uri).
Proof. exact created_bytes_link_back. Qed.

(** [depth_ok] is no restriction on the command line: a created metainfo nests at most 5 deep (top, info, files, one
    file, its path), so it is within every limit of at least 5 - in particular the one of this tree - and within
    the limit of the serde reader [Summary.from_input] runs (the same depth function, written twice) *)
Theorem c10_e2e_depth_within_limit :
  forall norm host_canon git_suffix o c v,
    Metainfo.build norm host_canon git_suffix o c = Some v ->
    (Infohash.vdepth v <= 5) /\
    (Infohash.depth_ok None v = true /\ (forall m, 5 <= m -> Infohash.depth_ok (Some m) v = true) /\
     Infohash.depth_ok GenInfohash.max_depth v = true) /\
    (BencodeWide.depth v = Infohash.vdepth v /\ (BencodeWide.depth v <=? BencodeWide.max_depth) = true).
Proof. exact build_depth_all. Qed.

(** link.rs loads the file with Metainfo::from_input: on the created bytes it returns the requested metainfo (name,
    trackers - what the link uses - and everything else, c07_created_bytes_load) *)
Theorem c10_e2e_link_loader :
  forall norm host_canon git_suffix host_disp url_norm o c v name nodes upd,
    Metainfo.input_ok (Metainfo.c_input c) = true -> Metainfo.opts_ok o = true ->
    Metainfo.piece_length_of o (Metainfo.c_input c) < 2 ^ 63 ->
    texts_utf8 norm host_canon git_suffix o c = true -> content_shown_ok (Metainfo.o_md5 o) c = true ->
    Metainfo.build norm host_canon git_suffix o c = Some v ->
    Metainfo.name_of o (Metainfo.c_input c) = Some name ->
    nodes_text host_canon host_disp o = Some nodes -> update_text norm url_norm o = Some upd ->
    exists m, Summary.from_input host_disp url_norm (encode v) = Some m /\
              Summary.m_name m = name /\ Summary.m_announce m = option_map norm (Metainfo.o_announce o) /\
              (match Summary.m_announce_list m with Some t => t | None => [] end) = Metainfo.tiers_of o.
Proof. exact created_bytes_link_fields. Qed.

(** instances: the command line with every option (C05's example plus --name, --piece-length, --no-creation-date)
    satisfies the hypotheses; its link decodes as stated under both conventions and equals the link of
    `create --link`; a tracker given twice appears once *)
Example c10_e2e_hyps_satisfiable :
  EndToEndShowExamples.hyps EndToEndShowExamples.all_opts MetainfoProofs.ex_content = true /\
  Metainfo.name_of EndToEndShowExamples.all_opts (Metainfo.c_input MetainfoProofs.ex_content) = Some (B "my name") /\
  nodes_text EndToEndShowExamples.idb EndToEndShowExamples.host_brackets EndToEndShowExamples.all_opts
    = Some (Some [B "router.example.com:6881"; B "[2001:db8::1]:6882"; B "203.0.113.5:1"]) /\
  update_text EndToEndShowExamples.idb EndToEndShowExamples.some_url EndToEndShowExamples.all_opts
    = Some (Some (B "https://example.com/feed")) /\
  exists v, Metainfo.build EndToEndShowExamples.idb EndToEndShowExamples.idb EndToEndShowExamples.ex_suffix
              EndToEndShowExamples.all_opts MetainfoProofs.ex_content = Some v /\
            Infohash.depth_ok GenInfohash.max_depth v = true.
Proof. exact EndToEndShowExamples.ex_all_hyps. Qed.

Example c10_e2e_all_options_link :
  forall plus,
  EndToEndShowExamples.decoded plus
    (EndToEndShowExamples.linked GenInfohash.max_depth EndToEndShowExamples.all_opts MetainfoProofs.ex_content
       [B "[::1]:80"] [2; 0; 2]) =
  Some ([ (B "xt", B "urn:btih:" ++ hex_lower
              (EndToEndShowExamples.ex_sha
                 (match EndToEndShowExamples.built EndToEndShowExamples.all_opts MetainfoProofs.ex_content with
                  | Some tb => match Infohash.hashed_bytes GenInfohash.max_depth tb with Some s => s | None => [] end
                  | None => [] end)));
          (B "dn", B "my name"); (B "tr", B "http://example.com/announce"); (B "tr", B "http://a.example/announce");
          (B "tr", B "udp://b.example:1337/announce"); (B "tr", B "http://c.example/announce");
          (B "x.pe", B "[::1]:80"); (B "so", B "0,2") ]) /\
  EndToEndShowExamples.linked GenInfohash.max_depth EndToEndShowExamples.all_opts MetainfoProofs.ex_content [B "[::1]:80"] []
  = create_link EndToEndShowExamples.idb EndToEndShowExamples.ex_sha EndToEndShowExamples.some_url
      EndToEndShowExamples.all_opts MetainfoProofs.ex_content [B "[::1]:80"] /\
  EndToEndShowExamples.linked GenInfohash.max_depth EndToEndShowExamples.all_opts MetainfoProofs.ex_content [] [] <> None.
Proof. exact EndToEndShowExamples.ex_all_link. Qed.

Example c10_e2e_repeated_tracker_once :
  option_map (map snd)
    (EndToEndShowExamples.decoded true
       (EndToEndShowExamples.linked None EndToEndShowExamples.dup_opts EndToEndShowExamples.one_file [] [])) =
  Some [ B "urn:btih:" ++ hex_lower
              (EndToEndShowExamples.ex_sha
                 (match EndToEndShowExamples.built EndToEndShowExamples.dup_opts EndToEndShowExamples.one_file with
                  | Some tb => match Infohash.hashed_bytes None tb with Some s => s | None => [] end
                  | None => [] end));
         B "file.bin"; B "udp://a:1"; B "udp://b:2" ].
Proof. exact EndToEndShowExamples.ex_dup_link. Qed.

(** the hypotheses that are really needed, beyond those of c07_e2e_needs_*: a stored host the url crate would not
    read back makes the loader - hence `link` - refuse the file; a depth limit below the nesting of a metainfo makes
    `link` refuse what `create --link` still prints *)
Example c10_e2e_needs_host_readback :
  nodes_text EndToEndShowExamples.idb (fun _ => None)
    (EndToEndShowExamples.with_node EndToEndShowExamples.no_opts (B "h.example", 1)) = None /\
  option_map (fun tb => Summary.show EndToEndShowExamples.no_cal dec (fun _ => None) EndToEndShowExamples.some_url
                          Summary.FromPath tb EndToEndShowExamples.ex_ih)
    (EndToEndShowExamples.built (EndToEndShowExamples.with_node EndToEndShowExamples.no_opts (B "h.example", 1))
       EndToEndShowExamples.one_file) = Some Summary.ShowRejected.
Proof. exact EndToEndShowExamples.ex_needs_host_readback. Qed.

Example c10_e2e_needs_depth :
  (exists v, Metainfo.build EndToEndShowExamples.idb EndToEndShowExamples.idb EndToEndShowExamples.ex_suffix
               EndToEndShowExamples.no_opts EndToEndShowExamples.one_file = Some v /\
             Infohash.depth_ok (Some 1) v = false) /\
  EndToEndShowExamples.linked (Some 1) EndToEndShowExamples.no_opts EndToEndShowExamples.one_file [] [] = None /\
  create_link EndToEndShowExamples.idb EndToEndShowExamples.ex_sha EndToEndShowExamples.some_url
    EndToEndShowExamples.no_opts EndToEndShowExamples.one_file [] <> None.
Proof. exact EndToEndShowExamples.ex_needs_depth. Qed.

Print Assumptions c10_e2e_same_serialiser.
Print Assumptions c10_e2e_lossy_on_created.
Print Assumptions c10_created_links_are_link_cmd.
Print Assumptions c10_created_bytes_link_back.
Print Assumptions c10_e2e_depth_within_limit.
Print Assumptions c10_e2e_link_loader.
Print Assumptions c10_e2e_hyps_satisfiable.
Print Assumptions c10_e2e_all_options_link.
Print Assumptions c10_e2e_repeated_tracker_once.
Print Assumptions c10_e2e_needs_host_readback.
Print Assumptions c10_e2e_needs_depth.

(* ================================================================== X10: the tracker hypothesis, concretely *)

(** In [c10_own_parser_roundtrip] the url crate enters through the hypothesis that it returns each tracker unchanged.
    With the concrete model of `Url::parse` + `as_str` (Model/UrlNorm.v, proved in Proofs/UrlNormProofs.v and compared with
    the `url_norm` hook by ./check C05) that hypothesis is a theorem for every tracker written in normal form
    ([is_normal_url], syntactic), and for every text the model returns; [ext] is whatever the crate does outside the
    modelled fragment (IDNA, `file:`, URLs without `//`), arbitrary. *)
From Imdl Require Import Model.HostPort Model.UrlHost Model.UrlNorm Proofs.UrlNormProofs Proofs.UrlNormUses.

Theorem c10_normal_trackers_are_fixed : forall ext ts,
  forallb is_normal_url ts = true -> Forall (fun t => u_url_norm_with ext t = Some t) ts.
Proof. exact url_norm_with_fixed_all. Qed.

Theorem c10_stored_trackers_are_fixed : forall ext t u,
  u_norm t = Some (Some u) -> u_url_norm_with ext t = Some u /\ u_url_norm_with ext u = Some u.
Proof. exact url_norm_with_stored. Qed.

Theorem c10_own_parser_roundtrip_normal_trackers : forall lossy ext hp_norm l,
  wf_link l -> length (l_ih l) = 20%nat ->
  (forall s, ascii s -> lossy s = s) -> utf8_fixed lossy l ->
  forallb is_normal_url (l_trackers l) = true ->
  Forall (fun p => hp_norm p = Some p) (l_peers l) ->
  own_parse lossy (u_url_norm_with ext) hp_norm (print l) = Parsed (l_ih l) (l_name l) (l_trackers l) (l_peers l).
Proof. exact own_parser_roundtrip_normal_trackers. Qed.

Example c10_normal_tracker_instances :
  forallb is_normal_url [B "http://foo.com/announce"; B "udp://tracker.example:6969"; B "http://t.example/announce?x=1&y=%20+z#f";
                         B "udp://[::1]:1337/announce"] = true /\
  u_norm (B "HTTP://EXAMPLE.COM:80/A?b=c") = Some (Some (B "http://example.com/A?b=c")).
Proof. split; vm_compute; reflexivity. Qed.

Print Assumptions c10_normal_trackers_are_fixed.
Print Assumptions c10_stored_trackers_are_fixed.
Print Assumptions c10_own_parser_roundtrip_normal_trackers.
Print Assumptions c10_normal_tracker_instances.
