(** C10 — magnet links carry the infohash, name, trackers, peers and selection faithfully.
    This file contains only pinned statements, theorems closed by [exact], examples showing that
    the hypotheses are satisfiable, and [Print Assumptions]. Model: Model/Magnet.v (the tree as
    repaired by "fix: percent-encode magnet link parameter values"); proofs:
    Proofs/MagnetProofs.v; tables regenerated from /repo by tools/rs2v_magnet.py:
    Generated/GenMagnet.v. *)
From Coq Require Import String.
From Coq Require Import NArith List Bool Sorted.
From Imdl Require Import Model.Bencode Model.Magnet Proofs.MagnetProofs Generated.GenMagnet.
Import ListNotations.
Local Open Scope N_scope.

(** (T) the translator understood the current sources *)
Theorem c10_sources_translated :
  GenMagnet.translated = true /\ GenMagnet.src_trackers_announce_then_tiers_skip_seen = true.
Proof. split; reflexivity. Qed.

(** (T) the unescaped byte classes, the escape case, the pieces `to_url` pushes and which values are
    escaped, and the literals of `parse` are those of the model *)
Theorem c10_model_matches_source :
  forallb (fun b => Bool.eqb (safe b) (existsb (N.eqb b) GenMagnet.src_safe)) (map N.of_nat (seq 0 256)) = true /\
  GenMagnet.src_escape_upper = true /\
  GenMagnet.src_parts = [(k_xt_topic, false); (k_amp_dn, true); (k_amp_tr, true); (k_amp_pe, true); (k_amp_so, false)] /\
  GenMagnet.src_scheme = k_magnet /\ GenMagnet.src_topic_key = k_xt /\ GenMagnet.src_topic_prefix = k_urn_btih /\
  GenMagnet.src_topic_hex_len = 40%nat /\ GenMagnet.src_parse_keys = [k_tr; k_dn; k_pe].
Proof. repeat split; vm_compute; reflexivity. Qed.

(** percent-decoding (either convention) undoes push_value on every byte string *)
Check pct_roundtrip : forall plus s, wfb s -> pct_decode plus (push_value s) = s.
Theorem c10_escape_roundtrip : forall plus s, wfb s -> pct_decode plus (push_value s) = s.
Proof. exact pct_roundtrip. Qed.

(** Url::set_query neither drops nor re-encodes anything of the query `to_url` builds *)
Check set_query_to_query : forall l, wf_link l -> set_query (to_query l) = to_query l.
Theorem c10_set_query_identity : forall l, wf_link l -> set_query (to_query l) = to_query l.
Proof. exact set_query_to_query. Qed.

(** first clause: for all names, tracker texts, peer texts and index sets, a standard query-string
    parser (split on `&` and the first `=`, percent-decoding; [plus] = `+`-as-space or not) decodes
    the printed URI to exactly xt, dn, one tr per tracker, one x.pe per peer, so *)
Check std_parse_print : forall plus l, wf_link l ->
  exists q, uri_query (print l) = Some q /\ std_parse plus q = expected l.
Theorem c10_standard_parser_decodes : forall plus l, wf_link l ->
  exists q, uri_query (print l) = Some q /\ std_parse plus q = expected l.
Proof. exact std_parse_print. Qed.

(** the name of DESIGN section 6, a tracker with its own query and escapes, a bracketed IPv6 peer *)
Definition witness_link : link :=
  Link (repeat 171 20) (Some (B "a&b=c+d%41#e f"))
       [B "http://t.example/announce?x=1&y=%20+z#f"] [B "[::1]:80"; B "d.example:6881"] (index_set [3; 1; 3]).

Example c10_wf_link_satisfiable : wf_link witness_link.
Proof.
  unfold wf_link, wfb. cbn [witness_link l_ih l_name l_trackers l_peers].
  repeat split; [| intros n E; inversion E; subst | |];
    repeat (apply Forall_cons || apply Forall_nil); vm_compute; reflexivity.
Qed.

Example c10_witness_decodes :
  forall plus, option_map (std_parse plus) (uri_query (print witness_link)) = Some (expected witness_link) /\
  expected witness_link =
    [(B "xt", B "urn:btih:abababababababababababababababababababab"); (B "dn", B "a&b=c+d%41#e f");
     (B "tr", B "http://t.example/announce?x=1&y=%20+z#f"); (B "x.pe", B "[::1]:80");
     (B "x.pe", B "d.example:6881"); (B "so", B "1,3")].
Proof. intros [|]; split; vm_compute; reflexivity. Qed.

(** second clause: imdl's own parser recovers infohash, name, trackers and peers from the printed
    URI. [lossy] = from_utf8_lossy (identity on the valid UTF-8 a link holds), [url_norm] / [hp_norm]
    = the typed parsers, which return a link's own trackers / peers unchanged (C17 for peers; the url
    crate's parse-of-serialisation invariant for trackers) *)
Check own_parse_print : forall lossy url_norm hp_norm l,
  wf_link l -> length (l_ih l) = 20%nat ->
  (forall s, ascii s -> lossy s = s) -> utf8_fixed lossy l ->
  Forall (fun t => url_norm t = Some t) (l_trackers l) ->
  Forall (fun p => hp_norm p = Some p) (l_peers l) ->
  own_parse lossy url_norm hp_norm (print l) = Parsed (l_ih l) (l_name l) (l_trackers l) (l_peers l).
Theorem c10_own_parser_roundtrip : forall lossy url_norm hp_norm l,
  wf_link l -> length (l_ih l) = 20%nat ->
  (forall s, ascii s -> lossy s = s) -> utf8_fixed lossy l ->
  Forall (fun t => url_norm t = Some t) (l_trackers l) ->
  Forall (fun p => hp_norm p = Some p) (l_peers l) ->
  own_parse lossy url_norm hp_norm (print l) = Parsed (l_ih l) (l_name l) (l_trackers l) (l_peers l).
Proof. exact own_parse_print. Qed.

Example c10_own_parser_hypotheses_satisfiable :
  wf_link witness_link /\ length (l_ih witness_link) = 20%nat /\
  (forall s, ascii s -> id_bytes s = s) /\ utf8_fixed id_bytes witness_link /\
  Forall (fun t => some_bytes t = Some t) (l_trackers witness_link) /\
  Forall (fun p => some_bytes p = Some p) (l_peers witness_link) /\
  run_parse (print witness_link) =
    Parsed (l_ih witness_link) (l_name witness_link) (l_trackers witness_link) (l_peers witness_link).
Proof.
  split; [exact c10_wf_link_satisfiable|]. split; [reflexivity|]. split; [reflexivity|].
  split; [repeat split; try reflexivity; repeat constructor|].
  split; [repeat constructor|]. split; [repeat constructor|]. vm_compute. reflexivity.
Qed.

(** third clause: whatever imdl's parser accepts contains a pair xt = urn:btih: + 40 hex digits, whose
    value is the infohash it reports; so a URI without such a topic is rejected *)
Check own_parse_accepts_topic : forall lossy url_norm hp_norm text ih name trs prs,
  own_parse lossy url_norm hp_norm text = Parsed ih name trs prs ->
  exists q h, url_query text = UQ (Some q) /\ In (k_xt, k_urn_btih ++ h) (form_pairs lossy q) /\
              length h = 40%nat /\ Forall hexchar h /\ unhex_str h = Some ih /\ length ih = 20%nat.
Theorem c10_accept_implies_topic : forall lossy url_norm hp_norm text ih name trs prs,
  own_parse lossy url_norm hp_norm text = Parsed ih name trs prs ->
  exists q h, url_query text = UQ (Some q) /\ In (k_xt, k_urn_btih ++ h) (form_pairs lossy q) /\
              length h = 40%nat /\ Forall hexchar h /\ unhex_str h = Some ih /\ length ih = 20%nat.
Proof. exact own_parse_accepts_topic. Qed.

Check reject_without_topic : forall lossy url_norm hp_norm text,
  (forall q h, url_query text = UQ (Some q) -> In (k_xt, k_urn_btih ++ h) (form_pairs lossy q) ->
               length h = 40%nat -> ~ Forall hexchar h) ->
  forall ih name trs prs, own_parse lossy url_norm hp_norm text <> Parsed ih name trs prs.
Theorem c10_reject_without_topic : forall lossy url_norm hp_norm text,
  (forall q h, url_query text = UQ (Some q) -> In (k_xt, k_urn_btih ++ h) (form_pairs lossy q) ->
               length h = 40%nat -> ~ Forall hexchar h) ->
  forall ih name trs prs, own_parse lossy url_norm hp_norm text <> Parsed ih name trs prs.
Proof. exact reject_without_topic. Qed.

(** a 39-digit topic, a non-hex topic, no topic, another scheme: all rejected; the premise of
    c10_reject_without_topic is satisfiable *)
Example c10_rejects :
  run_parse (B "magnet:?xt=urn:btih:abababababababababababababababababababa&dn=x") = Rejected EInfohashLength /\
  run_parse (B "magnet:?xt=urn:btih:zbababababababababababababababababababab") = Rejected EHexParse /\
  run_parse (B "magnet:?dn=x&tr=http://a/") = Rejected ETopicMissing /\
  run_parse (B "magnet:") = Rejected ETopicMissing /\
  run_parse (B "http://x/?xt=urn:btih:abababababababababababababababababababab") = Rejected EScheme /\
  run_parse (B " MAGNET:?dn=n&xt=urn:sha1:x&xt=urn%3Abtih%3AABABABABABABABABABABABABABABABABABABABAB#frag") =
    Parsed (repeat 171 20) (Some (B "n")) [] [].
Proof. repeat split; vm_compute; reflexivity. Qed.

(** the tracker list: one entry per distinct stored text, nothing else, in first-appearance order
    of announce followed by the tiers *)
Check trackers_order_dedup : forall announce tiers,
  let all := match announce with Some a => [a] | None => [] end ++ concat tiers in
  let ts := tracker_texts announce tiers in
  NoDup ts /\ (forall t, In t ts <-> In t all) /\
  StronglySorted (fun x y => (first_idx x all < first_idx y all)%nat) ts.
Theorem c10_trackers_order_dedup : forall announce tiers,
  let all := match announce with Some a => [a] | None => [] end ++ concat tiers in
  let ts := tracker_texts announce tiers in
  NoDup ts /\ (forall t, In t ts <-> In t all) /\
  StronglySorted (fun x y => (first_idx x all < first_idx y all)%nat) ts.
Proof. exact trackers_order_dedup. Qed.

Theorem c10_announce_first : forall a tiers, exists r, tracker_texts (Some a) tiers = a :: r.
Proof. exact tracker_texts_announce_first. Qed.

(** the selection: ascending, duplicate-free, exactly the requested indices; and the printed `so`
    value reads back as that list *)
Check indices_sorted_dedup : forall l,
  StronglySorted N.lt (index_set l) /\ forall x, In x (index_set l) <-> In x l.
Theorem c10_indices_sorted_dedup : forall l,
  StronglySorted N.lt (index_set l) /\ forall x, In x (index_set l) <-> In x l.
Proof. exact indices_sorted_dedup. Qed.

Check read_so_value : forall s, s <> [] -> read_so (so_value s) = Some s.
Theorem c10_so_reads_back : forall s, s <> [] -> read_so (so_value s) = Some s.
Proof. exact read_so_value. Qed.

Example c10_so_example : so_value (index_set [7; 0; 7; 18446744073709551615; 2]) = B "0,2,7,18446744073709551615".
Proof. vm_compute. reflexivity. Qed.

(** `torrent link` end to end: whenever the command prints a URI, a standard parser decodes it to the
    infohash, the name, one tr per distinct tracker text in first-appearance order (url normal form),
    one x.pe per --peer, and the ascending duplicate-free --select-only indices *)
Check link_cmd_decodes : forall url_norm plus ih name announce tiers peers select_only uri,
  wfb ih -> wfb name -> Forall wfb peers -> (forall t u, url_norm t = Some u -> wfb u) ->
  link_cmd url_norm ih name announce tiers peers select_only = Some uri ->
  exists q trs,
    map_opt url_norm (tracker_texts announce tiers) = Some trs /\ uri_query uri = Some q /\
    std_parse plus q =
      (k_xt, k_urn_btih ++ hex_lower ih) :: (k_dn, name)
      :: map (fun t => (k_tr, t)) trs ++ map (fun p => (k_pe, p)) peers
      ++ match index_set select_only with [] => [] | _ :: _ => [(k_so, so_value (index_set select_only))] end.
Theorem c10_link_command_decodes : forall url_norm plus ih name announce tiers peers select_only uri,
  wfb ih -> wfb name -> Forall wfb peers -> (forall t u, url_norm t = Some u -> wfb u) ->
  link_cmd url_norm ih name announce tiers peers select_only = Some uri ->
  exists q trs,
    map_opt url_norm (tracker_texts announce tiers) = Some trs /\ uri_query uri = Some q /\
    std_parse plus q =
      (k_xt, k_urn_btih ++ hex_lower ih) :: (k_dn, name)
      :: map (fun t => (k_tr, t)) trs ++ map (fun p => (k_pe, p)) peers
      ++ match index_set select_only with [] => [] | _ :: _ => [(k_so, so_value (index_set select_only))] end.
Proof. exact link_cmd_decodes. Qed.

Example c10_link_command_example :
  option_map (fun uri => option_map (std_parse true) (uri_query uri))
    (link_cmd some_bytes (repeat 1 20) (B "n m") (Some (B "udp://a:1")) [[B "udp://b:2"; B "udp://a:1"]; [B "udp://b:2"]]
              [B "1.2.3.4:5"] [2; 2]) =
  Some (Some [(B "xt", B "urn:btih:0101010101010101010101010101010101010101"); (B "dn", B "n m");
              (B "tr", B "udp://a:1"); (B "tr", B "udp://b:2"); (B "x.pe", B "1.2.3.4:5"); (B "so", B "2")]).
Proof. vm_compute. reflexivity. Qed.

Print Assumptions c10_sources_translated.
Print Assumptions c10_model_matches_source.
Print Assumptions c10_escape_roundtrip.
Print Assumptions c10_set_query_identity.
Print Assumptions c10_standard_parser_decodes.
Print Assumptions c10_wf_link_satisfiable.
Print Assumptions c10_witness_decodes.
Print Assumptions c10_own_parser_roundtrip.
Print Assumptions c10_own_parser_hypotheses_satisfiable.
Print Assumptions c10_accept_implies_topic.
Print Assumptions c10_reject_without_topic.
Print Assumptions c10_rejects.
Print Assumptions c10_trackers_order_dedup.
Print Assumptions c10_announce_first.
Print Assumptions c10_indices_sorted_dedup.
Print Assumptions c10_so_reads_back.
Print Assumptions c10_so_example.
Print Assumptions c10_link_command_decodes.
Print Assumptions c10_link_command_example.

(* ====================================================================================================== *)
(** * end to end with create (X5)

    The magnet link `torrent link` prints for the bytes `torrent create` wrote, and the link `create --link`
    prints. Composition of C05 ([Metainfo.build]), C04 ([Infohash.hashed_bytes] / [infohash_of], the lossy path
    [Infohash.ser_info]), C07's typed loader (link.rs loads the file with Metainfo::from_input) and this file's
    [link_cmd] / standard parser. Model: Model/EndToEndShow.v ([link_file] = link.rs on given bytes, [create_link] =
    MagnetLink::from_metainfo_lossy on the struct create holds); proofs: Proofs/EndToEndShowProofs.v.
    [norm], [host_canon], [git_suffix] are C05's Section variables, [host_disp] / [url_norm] C07's and this file's,
    [H] is SHA-1 (nothing is assumed of it but that it returns bytes), [md] bendy's depth limit. The side conditions
    are those of c07_created_bytes_show_back (link.rs runs the same loader) plus [depth_ok]; the [wfb] hypotheses
    say that names, digests, peers and URLs are bytes ([byte] is [N] in the models), as in c10_link_command_decodes.

    X5b (on the models as X4 left them): [link_file] loads the file with [Summary.from_input], the one typed loader of
    `show`, `link` and `verify` (serde's reader: nesting at most [BencodeWide.max_depth], i64 for what is skipped or
    buffered; the typed record now carries the MD5 texts, which the link does not use). Its nesting bound is proved
    to hold for every created metainfo ([c10_e2e_depth_within_limit]) and used in the proofs, not assumed. *)
From Imdl Require Model.BencodeWide Model.Metainfo Model.Schema Model.Infohash Model.Summary Generated.GenInfohash
  Proofs.MetainfoProofs Proofs.EndToEndShowExamples.
From Imdl Require Import Model.EndToEndShow Proofs.EndToEndShowProofs.

(** bridge: bendy's struct serialiser as C04 models it (sort the fields, refuse duplicates) and as C05 models it
    (insert one by one, refusing duplicates) build the same dictionary from the same fields, in whatever order
    they are handed over *)
Theorem c10_e2e_same_serialiser : forall es e,
  Schema.distinct_keys (map fst es) = true -> Schema.distinct_keys (map fst e) = true ->
  (forall y, In y e <-> In y (present es)) -> Infohash.ser_struct e = Schema.mk_dict es.
Proof. exact ser_struct_of_mk_dict. Qed.

(** C04's lossy path applies to what create holds: the serialisation of the typed `Metainfo` struct is the bytes
    C05 writes, and `create --link` / `create --show` hash what `link` / `show` hash on that file
    (by c04_lossy_agrees_on_created) *)
Theorem c10_e2e_lossy_on_created :
  forall norm host_canon git_suffix (H : list N -> list N) md o c v name trailing,
    Metainfo.input_ok (Metainfo.c_input c) = true -> Metainfo.opts_ok o = true ->
    Metainfo.piece_length_of o (Metainfo.c_input c) < 2 ^ 63 ->
    Metainfo.build norm host_canon git_suffix o c = Some v ->
    Metainfo.name_of o (Metainfo.c_input c) = Some name -> Infohash.depth_ok md v = true ->
    exists typed,
      Infohash.ser_info (tinfo_of norm o c name) = Some typed /\
      Infohash.ser_metainfo (present (other_entries norm host_canon git_suffix o)) (tinfo_of norm o c name)
        = Some (encode v) /\
      Infohash.infohash_of (list N) H md (encode v ++ trailing) = Some (H typed).
Proof. exact lossy_created. Qed.

(** both commands, as [link_cmd] of the requested name, the requested trackers and the hash of the info dictionary
    as stored, which is the span `Infohash::from_input` hashes in those bytes *)
Theorem c10_created_links_are_link_cmd :
  forall norm host_canon git_suffix (H : list N -> list N) host_disp url_norm md o c v name nodes upd peers select_only,
    Metainfo.input_ok (Metainfo.c_input c) = true -> Metainfo.opts_ok o = true ->
    Metainfo.piece_length_of o (Metainfo.c_input c) < 2 ^ 63 ->
    texts_utf8 norm host_canon git_suffix o c = true -> content_shown_ok (Metainfo.o_md5 o) c = true ->
    Metainfo.build norm host_canon git_suffix o c = Some v ->
    Metainfo.name_of o (Metainfo.c_input c) = Some name ->
    nodes_text host_canon host_disp o = Some nodes -> update_text norm url_norm o = Some upd ->
    Infohash.depth_ok md v = true ->
    exists info,
      Schema.vget (Schema.txt "info") v = Some info /\
      Infohash.hashed_bytes md (encode v) = Some (encode info) /\
      Infohash.ser_info (tinfo_of norm o c name) = Some (encode info) /\
      link_file H host_disp url_norm md (encode v) peers select_only
        = link_cmd url_norm (H (encode info)) name (option_map norm (Metainfo.o_announce o)) (Metainfo.tiers_of o)
                   peers select_only /\
      create_link norm H url_norm o c peers
        = link_cmd url_norm (H (encode info)) name (option_map norm (Metainfo.o_announce o)) (Metainfo.tiers_of o)
                   peers [].
Proof. exact created_link_back. Qed.

(** headline: whenever `torrent link` prints a URI for the created bytes, a standard parser (either `+` convention)
    decodes it to xt = urn:btih: + hex of H (the info span of those bytes), dn = the requested / derived name, one tr
    per distinct tracker text - the normalised --announce, then the tier members in order, first appearance only
    (c10_trackers_order_dedup) - in url normal form, one x.pe per --peer, the ascending duplicate-free selection;
    and without --select-only it is the very link `create --link` prints *)
Theorem c10_created_bytes_link_back :
  forall norm host_canon git_suffix (H : list N -> list N) host_disp url_norm md plus o c v name nodes upd
         peers select_only uri,
    Metainfo.input_ok (Metainfo.c_input c) = true -> Metainfo.opts_ok o = true ->
    Metainfo.piece_length_of o (Metainfo.c_input c) < 2 ^ 63 ->
    texts_utf8 norm host_canon git_suffix o c = true -> content_shown_ok (Metainfo.o_md5 o) c = true ->
    Metainfo.build norm host_canon git_suffix o c = Some v ->
    Metainfo.name_of o (Metainfo.c_input c) = Some name ->
    nodes_text host_canon host_disp o = Some nodes -> update_text norm url_norm o = Some upd ->
    Infohash.depth_ok md v = true ->
    (forall x, wfb (H x)) -> wfb name -> Forall wfb peers -> (forall t u, url_norm t = Some u -> wfb u) ->
    link_file H host_disp url_norm md (encode v) peers select_only = Some uri ->
    exists info q trs,
      Schema.vget (Schema.txt "info") v = Some info /\
      Infohash.hashed_bytes md (encode v) = Some (encode info) /\
      map_opt url_norm (tracker_texts (option_map norm (Metainfo.o_announce o)) (Metainfo.tiers_of o)) = Some trs /\
      uri_query uri = Some q /\
      std_parse plus q =
        (k_xt, k_urn_btih ++ hex_lower (H (encode info))) :: (k_dn, name)
        :: map (fun t => (k_tr, t)) trs ++ map (fun p => (k_pe, p)) peers
        ++ match index_set select_only with [] => [] | _ :: _ => [(k_so, so_value (index_set select_only))] end /\
      (select_only = [] -> create_link norm H url_norm o c peers = Some uri).
Proof. exact created_bytes_link_back. Qed.

(** [depth_ok] is no restriction on the command line: a created metainfo nests at most 5 deep (top, info, files, one
    file, its path), so it is within every limit of at least 5 - in particular the one of this tree - and within
    the limit of the serde reader [Summary.from_input] runs (the same depth function, written twice) *)
Theorem c10_e2e_depth_within_limit :
  forall norm host_canon git_suffix o c v,
    Metainfo.build norm host_canon git_suffix o c = Some v ->
    (Infohash.vdepth v <= 5) /\
    (Infohash.depth_ok None v = true /\ (forall m, 5 <= m -> Infohash.depth_ok (Some m) v = true) /\
     Infohash.depth_ok GenInfohash.max_depth v = true) /\
    (BencodeWide.depth v = Infohash.vdepth v /\ (BencodeWide.depth v <=? BencodeWide.max_depth) = true).
Proof. exact build_depth_all. Qed.

(** link.rs loads the file with Metainfo::from_input: on the created bytes it returns the requested metainfo (name,
    trackers - what the link uses - and everything else, c07_created_bytes_load) *)
Theorem c10_e2e_link_loader :
  forall norm host_canon git_suffix host_disp url_norm o c v name nodes upd,
    Metainfo.input_ok (Metainfo.c_input c) = true -> Metainfo.opts_ok o = true ->
    Metainfo.piece_length_of o (Metainfo.c_input c) < 2 ^ 63 ->
    texts_utf8 norm host_canon git_suffix o c = true -> content_shown_ok (Metainfo.o_md5 o) c = true ->
    Metainfo.build norm host_canon git_suffix o c = Some v ->
    Metainfo.name_of o (Metainfo.c_input c) = Some name ->
    nodes_text host_canon host_disp o = Some nodes -> update_text norm url_norm o = Some upd ->
    exists m, Summary.from_input host_disp url_norm (encode v) = Some m /\
              Summary.m_name m = name /\ Summary.m_announce m = option_map norm (Metainfo.o_announce o) /\
              (match Summary.m_announce_list m with Some t => t | None => [] end) = Metainfo.tiers_of o.
Proof. exact created_bytes_link_fields. Qed.

(** instances: the command line with every option (C05's example plus --name, --piece-length, --no-creation-date)
    satisfies the hypotheses; its link decodes as stated under both conventions and equals the link of
    `create --link`; a tracker given twice appears once *)
Example c10_e2e_hyps_satisfiable :
  EndToEndShowExamples.hyps EndToEndShowExamples.all_opts MetainfoProofs.ex_content = true /\
  Metainfo.name_of EndToEndShowExamples.all_opts (Metainfo.c_input MetainfoProofs.ex_content) = Some (B "my name") /\
  nodes_text EndToEndShowExamples.idb EndToEndShowExamples.host_brackets EndToEndShowExamples.all_opts
    = Some (Some [B "router.example.com:6881"; B "[2001:db8::1]:6882"; B "203.0.113.5:1"]) /\
  update_text EndToEndShowExamples.idb EndToEndShowExamples.some_url EndToEndShowExamples.all_opts
    = Some (Some (B "https://example.com/feed")) /\
  exists v, Metainfo.build EndToEndShowExamples.idb EndToEndShowExamples.idb EndToEndShowExamples.ex_suffix
              EndToEndShowExamples.all_opts MetainfoProofs.ex_content = Some v /\
            Infohash.depth_ok GenInfohash.max_depth v = true.
Proof. exact EndToEndShowExamples.ex_all_hyps. Qed.

Example c10_e2e_all_options_link :
  forall plus,
  EndToEndShowExamples.decoded plus
    (EndToEndShowExamples.linked GenInfohash.max_depth EndToEndShowExamples.all_opts MetainfoProofs.ex_content
       [B "[::1]:80"] [2; 0; 2]) =
  Some ([ (B "xt", B "urn:btih:" ++ hex_lower
              (EndToEndShowExamples.ex_sha
                 (match EndToEndShowExamples.built EndToEndShowExamples.all_opts MetainfoProofs.ex_content with
                  | Some tb => match Infohash.hashed_bytes GenInfohash.max_depth tb with Some s => s | None => [] end
                  | None => [] end)));
          (B "dn", B "my name"); (B "tr", B "http://example.com/announce"); (B "tr", B "http://a.example/announce");
          (B "tr", B "udp://b.example:1337/announce"); (B "tr", B "http://c.example/announce");
          (B "x.pe", B "[::1]:80"); (B "so", B "0,2") ]) /\
  EndToEndShowExamples.linked GenInfohash.max_depth EndToEndShowExamples.all_opts MetainfoProofs.ex_content [B "[::1]:80"] []
  = create_link EndToEndShowExamples.idb EndToEndShowExamples.ex_sha EndToEndShowExamples.some_url
      EndToEndShowExamples.all_opts MetainfoProofs.ex_content [B "[::1]:80"] /\
  EndToEndShowExamples.linked GenInfohash.max_depth EndToEndShowExamples.all_opts MetainfoProofs.ex_content [] [] <> None.
Proof. exact EndToEndShowExamples.ex_all_link. Qed.

Example c10_e2e_repeated_tracker_once :
  option_map (map snd)
    (EndToEndShowExamples.decoded true
       (EndToEndShowExamples.linked None EndToEndShowExamples.dup_opts EndToEndShowExamples.one_file [] [])) =
  Some [ B "urn:btih:" ++ hex_lower
              (EndToEndShowExamples.ex_sha
                 (match EndToEndShowExamples.built EndToEndShowExamples.dup_opts EndToEndShowExamples.one_file with
                  | Some tb => match Infohash.hashed_bytes None tb with Some s => s | None => [] end
                  | None => [] end));
         B "file.bin"; B "udp://a:1"; B "udp://b:2" ].
Proof. exact EndToEndShowExamples.ex_dup_link. Qed.

(** the hypotheses that are really needed, beyond those of c07_e2e_needs_*: a stored host the url crate would not
    read back makes the loader - hence `link` - refuse the file; a depth limit below the nesting of a metainfo makes
    `link` refuse what `create --link` still prints *)
Example c10_e2e_needs_host_readback :
  nodes_text EndToEndShowExamples.idb (fun _ => None)
    (EndToEndShowExamples.with_node EndToEndShowExamples.no_opts (B "h.example", 1)) = None /\
  option_map (fun tb => Summary.show EndToEndShowExamples.no_cal dec (fun _ => None) EndToEndShowExamples.some_url
                          Summary.FromPath tb EndToEndShowExamples.ex_ih)
    (EndToEndShowExamples.built (EndToEndShowExamples.with_node EndToEndShowExamples.no_opts (B "h.example", 1))
       EndToEndShowExamples.one_file) = Some Summary.ShowRejected.
Proof. exact EndToEndShowExamples.ex_needs_host_readback. Qed.

Example c10_e2e_needs_depth :
  (exists v, Metainfo.build EndToEndShowExamples.idb EndToEndShowExamples.idb EndToEndShowExamples.ex_suffix
               EndToEndShowExamples.no_opts EndToEndShowExamples.one_file = Some v /\
             Infohash.depth_ok (Some 1) v = false) /\
  EndToEndShowExamples.linked (Some 1) EndToEndShowExamples.no_opts EndToEndShowExamples.one_file [] [] = None /\
  create_link EndToEndShowExamples.idb EndToEndShowExamples.ex_sha EndToEndShowExamples.some_url
    EndToEndShowExamples.no_opts EndToEndShowExamples.one_file [] <> None.
Proof. exact EndToEndShowExamples.ex_needs_depth. Qed.

Print Assumptions c10_e2e_same_serialiser.
Print Assumptions c10_e2e_lossy_on_created.
Print Assumptions c10_created_links_are_link_cmd.
Print Assumptions c10_created_bytes_link_back.
Print Assumptions c10_e2e_depth_within_limit.
Print Assumptions c10_e2e_link_loader.
Print Assumptions c10_e2e_hyps_satisfiable.
Print Assumptions c10_e2e_all_options_link.
Print Assumptions c10_e2e_repeated_tracker_once.
Print Assumptions c10_e2e_needs_host_readback.
Print Assumptions c10_e2e_needs_depth.

(* ================================================================== X10: the tracker hypothesis, concretely *)

(** In [c10_own_parser_roundtrip] the url crate enters through the hypothesis that it returns each tracker unchanged.
    With the concrete model of `Url::parse` + `as_str` (Model/UrlNorm.v, proved in Proofs/UrlNormProofs.v and compared with
    the `url_norm` hook by ./check C05) that hypothesis is a theorem for every tracker written in normal form
    ([is_normal_url], syntactic), and for every text the model returns; [ext] is whatever the crate does outside the
    modelled fragment (IDNA, `file:`, URLs without `//`), arbitrary. *)
From Imdl Require Import Model.HostPort Model.UrlHost Model.UrlNorm Proofs.UrlNormProofs Proofs.UrlNormUses.

Theorem c10_normal_trackers_are_fixed : forall ext ts,
  forallb is_normal_url ts = true -> Forall (fun t => u_url_norm_with ext t = Some t) ts.
Proof. exact url_norm_with_fixed_all. Qed.

Theorem c10_stored_trackers_are_fixed : forall ext t u,
  u_norm t = Some (Some u) -> u_url_norm_with ext t = Some u /\ u_url_norm_with ext u = Some u.
Proof. exact url_norm_with_stored. Qed.

Theorem c10_own_parser_roundtrip_normal_trackers : forall lossy ext hp_norm l,
  wf_link l -> length (l_ih l) = 20%nat ->
  (forall s, ascii s -> lossy s = s) -> utf8_fixed lossy l ->
  forallb is_normal_url (l_trackers l) = true ->
  Forall (fun p => hp_norm p = Some p) (l_peers l) ->
  own_parse lossy (u_url_norm_with ext) hp_norm (print l) = Parsed (l_ih l) (l_name l) (l_trackers l) (l_peers l).
Proof. exact own_parser_roundtrip_normal_trackers. Qed.

Example c10_normal_tracker_instances :
  forallb is_normal_url [B "http://foo.com/announce"; B "udp://tracker.example:6969"; B "http://t.example/announce?x=1&y=%20+z#f";
                         B "udp://[::1]:1337/announce"] = true /\
  u_norm (B "HTTP://EXAMPLE.COM:80/A?b=c") = Some (Some (B "http://example.com/A?b=c")).
Proof. split; vm_compute; reflexivity. Qed.

Print Assumptions c10_normal_trackers_are_fixed.
Print Assumptions c10_stored_trackers_are_fixed.
Print Assumptions c10_own_parser_roundtrip_normal_trackers.
Print Assumptions c10_normal_tracker_instances.

(* ================================================================== X12: String::from_utf8_lossy, concretely *)

(** In [c10_own_parser_roundtrip] Rust's `String::from_utf8_lossy` (form_urlencoded::parse applies it to every percent-decoded
    key and value) enters through two hypotheses: it returns ASCII text unchanged and it returns the link's own fields
    unchanged. Model/Utf8.v models the conversion as std implements it - one iteration of the `while` loop of
    `Utf8Chunks::next` is [Utf8.scan1]; [Utf8.lossy] copies well-formed sequences and replaces every invalid part (a maximal
    subpart, Unicode 3.9) by EF BF BD; [Utf8.chunks] / [Utf8.from_utf8_lossy] follow the iterator and String::from_utf8_lossy
    literally - and Proofs/Utf8Proofs.v proves, for ALL byte strings, what the hypotheses said and more. ./check C10 compares
    [Utf8.lossy] with the real parser through the `magnet_parse` hook and with CPython's `errors="replace"` decoder. *)
From Imdl Require Model.Utf8 Proofs.Utf8Proofs Proofs.Utf8Agree Model.Crash Model.Peer Model.Verify.
From Imdl Require Import Model.MagnetLossy Proofs.MagnetUtf8.

(** valid UTF-8 comes back unchanged; the result is always valid UTF-8; hence idempotence; and the conversion changes a
    byte string exactly when it is not valid UTF-8 *)
Check Utf8Proofs.lossy_valid : forall s, Utf8.utf8_valid s = true -> Utf8.lossy s = s.
Theorem c10_lossy_fixes_valid_utf8 : forall s, Utf8.utf8_valid s = true -> Utf8.lossy s = s.
Proof. exact Utf8Proofs.lossy_valid. Qed.

Check Utf8Proofs.valid_lossy : forall s, Utf8.utf8_valid (Utf8.lossy s) = true.
Theorem c10_lossy_yields_valid_utf8 : forall s, Utf8.utf8_valid (Utf8.lossy s) = true.
Proof. exact Utf8Proofs.valid_lossy. Qed.

Check Utf8Proofs.lossy_idempotent : forall s, Utf8.lossy (Utf8.lossy s) = Utf8.lossy s.
Theorem c10_lossy_idempotent : forall s, Utf8.lossy (Utf8.lossy s) = Utf8.lossy s.
Proof. exact Utf8Proofs.lossy_idempotent. Qed.

Check Utf8Proofs.lossy_fixed_iff : forall s, Utf8.lossy s = s <-> Utf8.utf8_valid s = true.
Theorem c10_lossy_fixed_iff_valid : forall s, Utf8.lossy s = s <-> Utf8.utf8_valid s = true.
Proof. exact Utf8Proofs.lossy_fixed_iff. Qed.

Check Utf8Proofs.valid_ascii : forall s, Forall (fun b => b < 128) s -> Utf8.utf8_valid s = true.
Theorem c10_ascii_is_valid_utf8 : forall s, Forall (fun b => b < 128) s -> Utf8.utf8_valid s = true.
Proof. exact Utf8Proofs.valid_ascii. Qed.

(** a valid prefix is copied and has no influence on what follows it *)
Check Utf8Proofs.lossy_app_valid : forall a b, Utf8.utf8_valid a = true -> Utf8.lossy (a ++ b) = a ++ Utf8.lossy b.
Theorem c10_lossy_after_valid_prefix : forall a b, Utf8.utf8_valid a = true -> Utf8.lossy (a ++ b) = a ++ Utf8.lossy b.
Proof. exact Utf8Proofs.lossy_app_valid. Qed.

Check Utf8Proofs.valid_app : forall a b, Utf8.utf8_valid a = true -> Utf8.utf8_valid (a ++ b) = Utf8.utf8_valid b.
Theorem c10_valid_prefix_validity : forall a b, Utf8.utf8_valid a = true -> Utf8.utf8_valid (a ++ b) = Utf8.utf8_valid b.
Proof. exact Utf8Proofs.valid_app. Qed.

(** nothing shrinks, nothing grows beyond a factor of three *)
Check Utf8Proofs.lossy_length : forall s, (length s <= length (Utf8.lossy s) <= 3 * length s)%nat.
Theorem c10_lossy_length_bounds : forall s, (length s <= length (Utf8.lossy s) <= 3 * length s)%nat.
Proof. exact Utf8Proofs.lossy_length. Qed.

(** sequence by sequence: [Utf8.pieces] cuts any byte string into well-formed sequences (1-4 bytes) and invalid parts
    (1-3 bytes); the conversion renders the pieces one by one; and the output, cut again, consists of the same well-formed
    sequences in the same order with exactly one U+FFFD in the place of each invalid part - a replacement never merges with
    a neighbour or with another replacement, nothing is dropped, nothing is added *)
Check Utf8Proofs.pieces_concat : forall s, concat (map snd (Utf8.pieces s)) = s.
Theorem c10_pieces_partition_the_input : forall s, concat (map snd (Utf8.pieces s)) = s.
Proof. exact Utf8Proofs.pieces_concat. Qed.

Check Utf8Proofs.pieces_shape : forall s,
  Forall (fun p : bool * list N => if fst p return Prop then Utf8.one_sequence (snd p) = true /\ (1 <= length (snd p) <= 4)%nat
                                   else (1 <= length (snd p) <= 3)%nat) (Utf8.pieces s).
Theorem c10_pieces_shape : forall s,
  Forall (fun p : bool * list N => if fst p return Prop then Utf8.one_sequence (snd p) = true /\ (1 <= length (snd p) <= 4)%nat
                                   else (1 <= length (snd p) <= 3)%nat) (Utf8.pieces s).
Proof. exact Utf8Proofs.pieces_shape. Qed.

Check Utf8Proofs.lossy_pieces : forall s, Utf8.lossy s = flat_map Utf8.render (Utf8.pieces s).
Theorem c10_lossy_renders_the_pieces : forall s, Utf8.lossy s = flat_map Utf8.render (Utf8.pieces s).
Proof. exact Utf8Proofs.lossy_pieces. Qed.

Check Utf8Proofs.valid_pieces : forall s, Utf8.utf8_valid s = forallb fst (Utf8.pieces s).
Theorem c10_valid_iff_no_invalid_part : forall s, Utf8.utf8_valid s = forallb fst (Utf8.pieces s).
Proof. exact Utf8Proofs.valid_pieces. Qed.

Check Utf8Proofs.pieces_lossy : forall s,
  Utf8.pieces (Utf8.lossy s) = map (fun p => (true, Utf8.render p)) (Utf8.pieces s).
Theorem c10_replacements_never_merge : forall s,
  Utf8.pieces (Utf8.lossy s) = map (fun p => (true, Utf8.render p)) (Utf8.pieces s).
Proof. exact Utf8Proofs.pieces_lossy. Qed.

(** counting: the number of U+FFFD inserted ([Utf8.replacements]: items of the iterator with a non-empty invalid part) is the
    number of invalid parts; each is exchanged for three bytes; the U+FFFD sequences of the output are those of the input plus
    one per invalid part *)
Check Utf8Proofs.replacements_count : forall s, Utf8.replacements s = length (Utf8.invalid_parts s).
Theorem c10_one_replacement_per_invalid_part : forall s, Utf8.replacements s = length (Utf8.invalid_parts s).
Proof. exact Utf8Proofs.replacements_count. Qed.

Check Utf8Proofs.lossy_length_exact : forall s,
  (length (Utf8.lossy s) + length (concat (Utf8.invalid_parts s)) = length s + 3 * Utf8.replacements s)%nat.
Theorem c10_lossy_length_exact : forall s,
  (length (Utf8.lossy s) + length (concat (Utf8.invalid_parts s)) = length s + 3 * Utf8.replacements s)%nat.
Proof. exact Utf8Proofs.lossy_length_exact. Qed.

Check Utf8Proofs.fffd_count : forall s,
  length (filter Utf8Proofs.is_fffd (Utf8.pieces (Utf8.lossy s))) =
  (length (filter Utf8Proofs.is_fffd (Utf8.pieces s)) + Utf8.replacements s)%nat.
Theorem c10_fffd_count : forall s,
  length (filter Utf8Proofs.is_fffd (Utf8.pieces (Utf8.lossy s))) =
  (length (filter Utf8Proofs.is_fffd (Utf8.pieces s)) + Utf8.replacements s)%nat.
Proof. exact Utf8Proofs.fffd_count. Qed.

(** what is replaced is a maximal subpart in the sense of the Unicode standard: where the scan breaks, the bytes accepted so
    far are a proper initial subsequence of a well-formed sequence (or one byte that begins none), and the next byte, if there
    is one, extends them neither to a longer such subsequence nor to a well-formed sequence. [proper_prefix] and
    [one_sequence] mean what their names say *)
Check Utf8Proofs.invalid_part_maximal : forall b0 r c, Utf8.scan1 b0 r = (false, c) ->
  (Utf8.proper_prefix (b0 :: Utf8.taken c r) = true \/ (c = Utf8.I1 /\ Utf8.width b0 = 0)) /\
  forall x t, Utf8.after c r = x :: t ->
    Utf8.proper_prefix ((b0 :: Utf8.taken c r) ++ [x]) = false /\ Utf8.one_sequence ((b0 :: Utf8.taken c r) ++ [x]) = false.
Theorem c10_invalid_parts_are_maximal_subparts : forall b0 r c, Utf8.scan1 b0 r = (false, c) ->
  (Utf8.proper_prefix (b0 :: Utf8.taken c r) = true \/ (c = Utf8.I1 /\ Utf8.width b0 = 0)) /\
  forall x t, Utf8.after c r = x :: t ->
    Utf8.proper_prefix ((b0 :: Utf8.taken c r) ++ [x]) = false /\ Utf8.one_sequence ((b0 :: Utf8.taken c r) ++ [x]) = false.
Proof. exact Utf8Proofs.invalid_part_maximal. Qed.

Check Utf8Proofs.proper_prefix_spec : forall p,
  Utf8.proper_prefix p = true <-> p <> [] /\ exists t, t <> [] /\ Utf8.one_sequence (p ++ t) = true.
Theorem c10_proper_prefix_meaning : forall p,
  Utf8.proper_prefix p = true <-> p <> [] /\ exists t, t <> [] /\ Utf8.one_sequence (p ++ t) = true.
Proof. exact Utf8Proofs.proper_prefix_spec. Qed.

Check Utf8Proofs.one_sequence_spec : forall p, Utf8.one_sequence p = true <-> Utf8.pieces p = [(true, p)].
Theorem c10_one_sequence_meaning : forall p, Utf8.one_sequence p = true <-> Utf8.pieces p = [(true, p)].
Proof. exact Utf8Proofs.one_sequence_spec. Qed.

(** String::from_utf8_lossy written over the Utf8Chunks iterator, as in library/alloc/src/string.rs, is the
    sequence-by-sequence conversion; the iterator's items cover the input, their valid parts are valid UTF-8, their non-empty
    invalid parts are the invalid pieces *)
Check Utf8Proofs.from_utf8_lossy_eq : forall s, Utf8.from_utf8_lossy s = Utf8.lossy s.
Theorem c10_from_utf8_lossy_over_chunks : forall s, Utf8.from_utf8_lossy s = Utf8.lossy s.
Proof. exact Utf8Proofs.from_utf8_lossy_eq. Qed.

Check Utf8Proofs.chunks_concat : forall s, flat_map (fun c => fst c ++ snd c) (Utf8.chunks s) = s.
Theorem c10_chunks_cover_the_input : forall s, flat_map (fun c => fst c ++ snd c) (Utf8.chunks s) = s.
Proof. exact Utf8Proofs.chunks_concat. Qed.

Check Utf8Proofs.chunks_valid : forall s, Forall (fun c => Utf8.utf8_valid (fst c) = true) (Utf8.chunks s).
Theorem c10_chunks_valid_parts : forall s, Forall (fun c => Utf8.utf8_valid (fst c) = true) (Utf8.chunks s).
Proof. exact Utf8Proofs.chunks_valid. Qed.

Check Utf8Proofs.chunks_invalid_parts : forall s, filter Utf8.nonempty (map snd (Utf8.chunks s)) = Utf8.invalid_parts s.
Theorem c10_chunks_invalid_parts : forall s, filter Utf8.nonempty (map snd (Utf8.chunks s)) = Utf8.invalid_parts s.
Proof. exact Utf8Proofs.chunks_invalid_parts. Qed.

(** one validity predicate: the validators of C07 / C10's end-to-end theorems, C08, C11 and C02 / C03 agree with it on every
    byte string *)
Check Utf8Agree.utf8_validators_agree : forall s,
  Summary.utf8_valid s = Utf8.utf8_valid s /\ Crash.utf8_ok s = Utf8.utf8_valid s /\
  Peer.utf8_valid s = Utf8.utf8_valid s /\ Verify.utf8_ok s = Utf8.utf8_valid s.
Theorem c10_utf8_validators_agree : forall s,
  Summary.utf8_valid s = Utf8.utf8_valid s /\ Crash.utf8_ok s = Utf8.utf8_valid s /\
  Peer.utf8_valid s = Utf8.utf8_valid s /\ Verify.utf8_ok s = Utf8.utf8_valid s.
Proof. exact Utf8Agree.utf8_validators_agree. Qed.

(** the Unicode standard's own example of the practice (chapter 3, U+FFFD substitution of maximal subparts):
    61 F1 80 80 E1 80 C2 62 80 63 80 BF 64  ->  61 FFFD FFFD FFFD 62 FFFD 63 FFFD FFFD 64; the iterator's items for it;
    overlong, surrogate and out-of-range forms give one U+FFFD per byte; a truncated sequence gives one *)
Example c10_lossy_examples :
  Utf8.lossy [97; 241; 128; 128; 225; 128; 194; 98; 128; 99; 128; 191; 100] =
    [97] ++ Utf8.repl ++ Utf8.repl ++ Utf8.repl ++ [98] ++ Utf8.repl ++ [99] ++ Utf8.repl ++ Utf8.repl ++ [100] /\
  Utf8.chunks [97; 241; 128; 128; 225; 128; 194; 98; 128; 99; 128; 191; 100] =
    [([97], [241; 128; 128]); ([], [225; 128]); ([], [194]); ([98], [128]); ([99], [128]); ([], [191]); ([100], [])] /\
  Utf8.replacements [97; 241; 128; 128; 225; 128; 194; 98; 128; 99; 128; 191; 100] = 6%nat /\
  Utf8.lossy [192; 175] = Utf8.repl ++ Utf8.repl /\ Utf8.lossy [224; 159; 128] = Utf8.repl ++ Utf8.repl ++ Utf8.repl /\
  Utf8.lossy [237; 160; 128] = Utf8.repl ++ Utf8.repl ++ Utf8.repl /\
  Utf8.lossy [244; 144; 128; 128] = Utf8.repl ++ Utf8.repl ++ Utf8.repl ++ Utf8.repl /\
  Utf8.lossy [240; 159; 146] = Utf8.repl /\ Utf8.lossy [240; 159; 146; 169] = [240; 159; 146; 169] /\
  Utf8.from_utf8_lossy [] = [] /\ Utf8.utf8_valid [195; 169; 230; 151; 165; 240; 159; 152; 128; 239; 191; 189] = true /\
  Utf8.lossy [195; 169; 230; 151; 165; 240; 159; 152; 128] = [195; 169; 230; 151; 165; 240; 159; 152; 128] /\
  Utf8.lossy (Utf8.lossy [102; 255; 195]) = Utf8.lossy [102; 255; 195] /\
  Utf8.lossy ([195; 169] ++ [169; 195]) = [195; 169] ++ Utf8.lossy [169; 195] /\
  Forall (fun b => b < 128) (B "plain ASCII") /\ Utf8.utf8_valid (B "plain ASCII") = true.
Proof. repeat split; try (vm_compute; reflexivity). repeat constructor. Qed.

(** second clause of C10 with nothing assumed about from_utf8_lossy: the hypotheses about [lossy] are replaced by the UTF-8
    validity of the link's name, trackers and peers ([link_utf8]) - which holds of every MagnetLink, whose fields are Rust
    Strings *)
Check own_parse_print_utf8 : forall url_norm hp_norm l,
  wf_link l -> length (l_ih l) = 20%nat -> link_utf8 l = true ->
  Forall (fun t => url_norm t = Some t) (l_trackers l) ->
  Forall (fun p => hp_norm p = Some p) (l_peers l) ->
  own_parse Utf8.lossy url_norm hp_norm (print l) = Parsed (l_ih l) (l_name l) (l_trackers l) (l_peers l).
Theorem c10_own_parser_roundtrip_utf8 : forall url_norm hp_norm l,
  wf_link l -> length (l_ih l) = 20%nat -> link_utf8 l = true ->
  Forall (fun t => url_norm t = Some t) (l_trackers l) ->
  Forall (fun p => hp_norm p = Some p) (l_peers l) ->
  own_parse Utf8.lossy url_norm hp_norm (print l) = Parsed (l_ih l) (l_name l) (l_trackers l) (l_peers l).
Proof. exact own_parse_print_utf8. Qed.

(** the same with X10's concrete url normaliser: trackers written in normal form are ASCII, so only the name and the peers
    need to be valid UTF-8 and only the peers' typed parser remains a hypothesis *)
Check own_parse_print_utf8_normal_trackers : forall ext hp_norm l,
  wf_link l -> length (l_ih l) = 20%nat ->
  opt_valid (l_name l) = true -> forallb is_normal_url (l_trackers l) = true -> forallb Utf8.utf8_valid (l_peers l) = true ->
  Forall (fun p => hp_norm p = Some p) (l_peers l) ->
  own_parse Utf8.lossy (u_url_norm_with ext) hp_norm (print l) = Parsed (l_ih l) (l_name l) (l_trackers l) (l_peers l).
Theorem c10_own_parser_roundtrip_utf8_normal_trackers : forall ext hp_norm l,
  wf_link l -> length (l_ih l) = 20%nat ->
  opt_valid (l_name l) = true -> forallb is_normal_url (l_trackers l) = true -> forallb Utf8.utf8_valid (l_peers l) = true ->
  Forall (fun p => hp_norm p = Some p) (l_peers l) ->
  own_parse Utf8.lossy (u_url_norm_with ext) hp_norm (print l) = Parsed (l_ih l) (l_name l) (l_trackers l) (l_peers l).
Proof. exact own_parse_print_utf8_normal_trackers. Qed.

(** a witness with a non-ASCII name (e-acute, two CJK characters, an emoji, a literal U+FFFD), a tracker in normal form and
    two peers *)
Definition witness_link_utf8 : link :=
  Link (repeat 171 20) (Some ([195; 169; 32; 38; 61] ++ [230; 151; 165; 230; 156; 172] ++ [240; 159; 152; 128] ++ [239; 191; 189; 37]))
       [B "http://t.example/announce?x=1&y=%20+z#f"] [B "[::1]:80"; B "d.example:6881"] (index_set [3; 1; 3]).

Example c10_own_parser_utf8_hypotheses_satisfiable :
  wf_link witness_link_utf8 /\ length (l_ih witness_link_utf8) = 20%nat /\ link_utf8 witness_link_utf8 = true /\
  opt_valid (l_name witness_link_utf8) = true /\ forallb is_normal_url (l_trackers witness_link_utf8) = true /\
  forallb Utf8.utf8_valid (l_peers witness_link_utf8) = true /\
  Forall (fun t => some_bytes t = Some t) (l_trackers witness_link_utf8) /\
  Forall (fun p => some_bytes p = Some p) (l_peers witness_link_utf8) /\
  run_parse_lossy (print witness_link_utf8) =
    Parsed (l_ih witness_link_utf8) (l_name witness_link_utf8) (l_trackers witness_link_utf8) (l_peers witness_link_utf8).
Proof.
  split.
  { unfold wf_link, wfb. cbn [witness_link_utf8 l_ih l_name l_trackers l_peers].
    repeat split; [| intros n E; inversion E; subst | |];
      repeat (apply Forall_cons || apply Forall_nil); vm_compute; reflexivity. }
  split; [reflexivity|]. split; [vm_compute; reflexivity|]. split; [vm_compute; reflexivity|].
  split; [vm_compute; reflexivity|]. split; [vm_compute; reflexivity|].
  split; [repeat constructor|]. split; [repeat constructor|]. vm_compute. reflexivity.
Qed.

(** a name that is NOT valid UTF-8 after percent-decoding (a `dn` value a third party wrote as the percent-encoding of arbitrary
    bytes): for every byte string the parser reports exactly [Utf8.lossy] of it - a valid UTF-8 string different from the bytes -
    and infohash, trackers and peers are unaffected *)
Check own_parse_print_any_name : forall url_norm hp_norm l,
  wf_link l -> length (l_ih l) = 20%nat ->
  forallb Utf8.utf8_valid (l_trackers l) = true -> forallb Utf8.utf8_valid (l_peers l) = true ->
  Forall (fun t => url_norm t = Some t) (l_trackers l) ->
  Forall (fun p => hp_norm p = Some p) (l_peers l) ->
  own_parse Utf8.lossy url_norm hp_norm (print l) = Parsed (l_ih l) (option_map Utf8.lossy (l_name l)) (l_trackers l) (l_peers l).
Theorem c10_own_parser_any_name : forall url_norm hp_norm l,
  wf_link l -> length (l_ih l) = 20%nat ->
  forallb Utf8.utf8_valid (l_trackers l) = true -> forallb Utf8.utf8_valid (l_peers l) = true ->
  Forall (fun t => url_norm t = Some t) (l_trackers l) ->
  Forall (fun p => hp_norm p = Some p) (l_peers l) ->
  own_parse Utf8.lossy url_norm hp_norm (print l) = Parsed (l_ih l) (option_map Utf8.lossy (l_name l)) (l_trackers l) (l_peers l).
Proof. exact own_parse_print_any_name. Qed.

Check own_parse_print_invalid_name : forall url_norm hp_norm l n,
  wf_link l -> length (l_ih l) = 20%nat -> l_name l = Some n -> Utf8.utf8_valid n = false ->
  forallb Utf8.utf8_valid (l_trackers l) = true -> forallb Utf8.utf8_valid (l_peers l) = true ->
  Forall (fun t => url_norm t = Some t) (l_trackers l) ->
  Forall (fun p => hp_norm p = Some p) (l_peers l) ->
  own_parse Utf8.lossy url_norm hp_norm (print l) = Parsed (l_ih l) (Some (Utf8.lossy n)) (l_trackers l) (l_peers l) /\
  Utf8.lossy n <> n /\ Utf8.utf8_valid (Utf8.lossy n) = true.
Theorem c10_own_parser_invalid_name : forall url_norm hp_norm l n,
  wf_link l -> length (l_ih l) = 20%nat -> l_name l = Some n -> Utf8.utf8_valid n = false ->
  forallb Utf8.utf8_valid (l_trackers l) = true -> forallb Utf8.utf8_valid (l_peers l) = true ->
  Forall (fun t => url_norm t = Some t) (l_trackers l) ->
  Forall (fun p => hp_norm p = Some p) (l_peers l) ->
  own_parse Utf8.lossy url_norm hp_norm (print l) = Parsed (l_ih l) (Some (Utf8.lossy n)) (l_trackers l) (l_peers l) /\
  Utf8.lossy n <> n /\ Utf8.utf8_valid (Utf8.lossy n) = true.
Proof. exact own_parse_print_invalid_name. Qed.

(** a witness: `fo` FF `o` E0 A0 (a lone FF, a truncated three-byte sequence at the end), one peer *)
Definition witness_link_invalid_name : link :=
  Link (repeat 171 20) (Some [102; 111; 255; 111; 224; 160]) [] [B "[::1]:80"] [].

Example c10_invalid_name_hypotheses_satisfiable :
  wf_link witness_link_invalid_name /\ length (l_ih witness_link_invalid_name) = 20%nat /\
  l_name witness_link_invalid_name = Some [102; 111; 255; 111; 224; 160] /\
  Utf8.utf8_valid [102; 111; 255; 111; 224; 160] = false /\
  forallb Utf8.utf8_valid (l_trackers witness_link_invalid_name) = true /\
  forallb Utf8.utf8_valid (l_peers witness_link_invalid_name) = true /\
  Forall (fun t => some_bytes t = Some t) (l_trackers witness_link_invalid_name) /\
  Forall (fun p => some_bytes p = Some p) (l_peers witness_link_invalid_name) /\
  print witness_link_invalid_name = B "magnet:?xt=urn:btih:abababababababababababababababababababab&dn=fo%FFo%E0%A0&x.pe=[::1]:80" /\
  run_parse_lossy (print witness_link_invalid_name) =
    Parsed (repeat 171 20) (Some ([102; 111] ++ Utf8.repl ++ [111] ++ Utf8.repl)) [] [B "[::1]:80"] /\
  run_parse_lossy (B "magnet:?dn=%c0%AF&xt=urn:btih:abababababababababababababababababababab&dn=a+%f0%9f%98") =
    Parsed (repeat 171 20) (Some ([97; 32] ++ Utf8.repl)) [] [].
Proof.
  split.
  { unfold wf_link, wfb. cbn [witness_link_invalid_name l_ih l_name l_trackers l_peers].
    repeat split; [| intros n E; inversion E; subst | |];
      repeat (apply Forall_cons || apply Forall_nil); vm_compute; reflexivity. }
  split; [reflexivity|]. split; [reflexivity|]. split; [vm_compute; reflexivity|].
  split; [reflexivity|]. split; [vm_compute; reflexivity|].
  split; [repeat constructor|]. split; [repeat constructor|].
  split; [vm_compute; reflexivity|]. split; vm_compute; reflexivity.
Qed.

(** whatever the text: every key and value MagnetLink::parse sees, and hence the name it reports, is valid UTF-8 *)
Check form_pairs_valid : forall q,
  Forall (fun kv => Utf8.utf8_valid (fst kv) = true /\ Utf8.utf8_valid (snd kv) = true) (form_pairs Utf8.lossy q).
Theorem c10_query_pairs_are_valid_utf8 : forall q,
  Forall (fun kv => Utf8.utf8_valid (fst kv) = true /\ Utf8.utf8_valid (snd kv) = true) (form_pairs Utf8.lossy q).
Proof. exact form_pairs_valid. Qed.

Check own_parse_name_valid : forall url_norm hp_norm text ih name trs prs,
  own_parse Utf8.lossy url_norm hp_norm text = Parsed ih name trs prs -> opt_valid name = true.
Theorem c10_parsed_name_is_valid_utf8 : forall url_norm hp_norm text ih name trs prs,
  own_parse Utf8.lossy url_norm hp_norm text = Parsed ih name trs prs -> opt_valid name = true.
Proof. exact own_parse_name_valid. Qed.

Print Assumptions c10_lossy_fixes_valid_utf8.
Print Assumptions c10_lossy_yields_valid_utf8.
Print Assumptions c10_lossy_idempotent.
Print Assumptions c10_lossy_fixed_iff_valid.
Print Assumptions c10_ascii_is_valid_utf8.
Print Assumptions c10_lossy_after_valid_prefix.
Print Assumptions c10_valid_prefix_validity.
Print Assumptions c10_lossy_length_bounds.
Print Assumptions c10_pieces_partition_the_input.
Print Assumptions c10_pieces_shape.
Print Assumptions c10_lossy_renders_the_pieces.
Print Assumptions c10_valid_iff_no_invalid_part.
Print Assumptions c10_replacements_never_merge.
Print Assumptions c10_one_replacement_per_invalid_part.
Print Assumptions c10_lossy_length_exact.
Print Assumptions c10_fffd_count.
Print Assumptions c10_invalid_parts_are_maximal_subparts.
Print Assumptions c10_proper_prefix_meaning.
Print Assumptions c10_one_sequence_meaning.
Print Assumptions c10_from_utf8_lossy_over_chunks.
Print Assumptions c10_chunks_cover_the_input.
Print Assumptions c10_chunks_valid_parts.
Print Assumptions c10_chunks_invalid_parts.
Print Assumptions c10_utf8_validators_agree.
Print Assumptions c10_lossy_examples.
Print Assumptions c10_own_parser_roundtrip_utf8.
Print Assumptions c10_own_parser_roundtrip_utf8_normal_trackers.
Print Assumptions c10_own_parser_utf8_hypotheses_satisfiable.
Print Assumptions c10_own_parser_any_name.
Print Assumptions c10_own_parser_invalid_name.
Print Assumptions c10_invalid_name_hypotheses_satisfiable.
Print Assumptions c10_query_pairs_are_valid_utf8.
Print Assumptions c10_parsed_name_is_valid_utf8.

(* ================================================================== X14: the typed parsers, concretely *)

(** In [c10_own_parser_roundtrip] the url crate and `HostPort::from_str` enter through [url_norm] and [hp_norm] and two
    hypotheses (each returns the link's own values unchanged); X10 made the first concrete up to an arbitrary [ext], X12
    removed [lossy]. Model/UrlConcrete.v closes the rest: [c_url_norm] = X10's model inside its fragment (refusal outside),
    [c_hp_norm] = C17's [hp_parse] / [hp_display] over X9's model of `Host::parse` (refusal outside its fragment), and
    [c_own_parse] = [own_parse Utf8.lossy c_url_norm c_hp_norm]: MagnetLink::parse with NO `Section` variable left.
    [c_hp_fixed p] ("p is a printed host:port value") is decidable and characterised below. The correspondence run compares
    [c_own_parse] with the `magnet_parse` hook on every text of the run whose `tr` / `x.pe` values lie inside the fragments
    ([magnet_in_fragment], decided by the model), and [c_url_norm] / [c_hp_norm] with the `trackers` / `hpparse` hooks. *)
From Imdl Require Import Model.UrlConcrete Proofs.UrlConcreteProofs Proofs.UrlConcreteUses.

(** the two library hypotheses, proved of the instances: fixed points are exactly the normal forms / the printed values;
    whatever is returned is a fixed point; everything returned is ASCII *)
Theorem c10_concrete_typed_parsers :
  (forall u, c_url_norm u = Some u <-> is_normal_url u = true) /\
  (forall t u, c_url_norm t = Some u -> c_url_norm u = Some u /\ is_normal_url u = true) /\
  (forall p, c_hp_fixed p = true <->
     exists h n, (exists t, u_hparse t = Some (Some h)) /\ n <= 65535 /\ p = hp_display u_std4 u_url6 (h, n)) /\
  (forall h n, (exists t, u_hparse t = Some (Some h)) -> n <= 65535 ->
     c_hp_norm (hp_display u_std4 u_url6 (h, n)) = Some (hp_display u_std4 u_url6 (h, n))) /\
  (forall p q, c_hp_norm p = Some q -> c_hp_norm q = Some q /\ forallb (fun b => b <? 128) q = true) /\
  (forall ext s hp, c_hp_parse s = HpOk hp -> hp_parse u_ascii_nd (u_hparse_with ext) s = HpOk hp).
Proof.
  split; [exact c_url_norm_fixed_iff|].
  split; [exact (fun t u H => conj (c_url_norm_idempotent t u H) (c_url_norm_normal t u H))|].
  split; [exact c_hp_fixed_iff|]. split; [exact c_hp_norm_display|].
  split; [exact (fun p q H => conj (c_hp_norm_idempotent p q H) (c_hp_norm_ascii p q H))|exact c_hp_parse_transfer].
Qed.

(** second clause of C10 with nothing assumed of any library: for links whose trackers are normal URLs and whose peers are
    printed host:port values, parse (print l) recovers exactly the fields ([wf_link]: the fields are byte strings;
    [opt_valid]: the name is valid UTF-8, as every Rust String is) *)
Check c_own_parse_print : forall l,
  wf_link l -> length (l_ih l) = 20%nat -> opt_valid (l_name l) = true ->
  forallb is_normal_url (l_trackers l) = true -> forallb c_hp_fixed (l_peers l) = true ->
  c_own_parse (print l) = Parsed (l_ih l) (l_name l) (l_trackers l) (l_peers l).
Theorem c10_own_parser_roundtrip_concrete : forall l,
  wf_link l -> length (l_ih l) = 20%nat -> opt_valid (l_name l) = true ->
  forallb is_normal_url (l_trackers l) = true -> forallb c_hp_fixed (l_peers l) = true ->
  c_own_parse (print l) = Parsed (l_ih l) (l_name l) (l_trackers l) (l_peers l).
Proof. exact c_own_parse_print. Qed.

(** ... for any name: the parser reports [Utf8.lossy] of it *)
Theorem c10_own_parser_any_name_concrete : forall l,
  wf_link l -> length (l_ih l) = 20%nat ->
  forallb is_normal_url (l_trackers l) = true -> forallb c_hp_fixed (l_peers l) = true ->
  c_own_parse (print l) = Parsed (l_ih l) (option_map Utf8.lossy (l_name l)) (l_trackers l) (l_peers l).
Proof. exact c_own_parse_print_any_name. Qed.

(** whatever text the concrete parser accepts, the trackers it reports are normal URLs and the peers printed host:port
    values - so a link built from a parsed one satisfies the premises above, and prints / parses back to itself *)
Theorem c10_concrete_parser_returns_normal_forms : forall text ih name trs prs,
  c_own_parse text = Parsed ih name trs prs -> forallb is_normal_url trs = true /\ forallb c_hp_fixed prs = true.
Proof. exact c_own_parse_normal. Qed.

(** `torrent link` with the url crate concrete: the side condition of c10_link_command_decodes is proved, and every tr
    value is a normal URL *)
Theorem c10_link_command_decodes_concrete : forall plus ih name announce tiers peers select_only uri,
  wfb ih -> wfb name -> Forall wfb peers ->
  c_link_cmd ih name announce tiers peers select_only = Some uri ->
  exists q trs,
    map_opt c_url_norm (tracker_texts announce tiers) = Some trs /\ forallb is_normal_url trs = true /\
    uri_query uri = Some q /\
    std_parse plus q =
      (k_xt, k_urn_btih ++ hex_lower ih) :: (k_dn, name)
      :: map (fun t => (k_tr, t)) trs ++ map (fun p => (k_pe, p)) peers
      ++ match index_set select_only with [] => [] | _ :: _ => [(k_so, so_value (index_set select_only))] end.
Proof. exact c_link_cmd_decodes. Qed.

(** the premises are satisfiable by non-trivial values: a tracker URL with port, path, query and fragment, a UDP tracker on
    an IPv6 literal, an IPv6 peer and a domain peer, a non-ASCII name; the parser also normalises what is not in normal
    form, refuses what the typed parsers refuse, and says where it is outside the fragments *)
Definition witness_link_concrete : link :=
  Link (repeat 171 20) (Some ([195; 169; 32; 38; 61] ++ [230; 151; 165]))
       [B "http://t.example:8080/announce?x=1&y=%20+z#f"; B "udp://[2001:db8::1]:6969/a"] [B "[::1]:80"; B "d.example:6881"; B "10.0.0.1:0"]
       (index_set [3; 1; 3]).

Example c10_concrete_hypotheses_satisfiable :
  wf_link witness_link_concrete /\ length (l_ih witness_link_concrete) = 20%nat /\ opt_valid (l_name witness_link_concrete) = true /\
  forallb is_normal_url (l_trackers witness_link_concrete) = true /\ forallb c_hp_fixed (l_peers witness_link_concrete) = true /\
  c_own_parse (print witness_link_concrete) =
    Parsed (l_ih witness_link_concrete) (l_name witness_link_concrete) (l_trackers witness_link_concrete) (l_peers witness_link_concrete) /\
  c_own_parse (B "magnet:?xt=urn:btih:abababababababababababababababababababab&tr=HTTP://T.Example:80/a/../b&x.pe=[0:0::1]:080&x.pe=LOCALHOST:1") =
    Parsed (repeat 171 20) None [B "http://t.example/b"] [B "[::1]:80"; B "localhost:1"] /\
  c_own_parse (B "magnet:?xt=urn:btih:abababababababababababababababababababab&tr=http://h:65536/") = Rejected ETracker /\
  c_own_parse (B "magnet:?xt=urn:btih:abababababababababababababababababababab&x.pe=a%20b:1") = Rejected EPeer /\
  c_own_parse (B "magnet:?xt=urn:btih:abababababababababababababababababababab&x.pe=[::1]:65536") = Rejected EPeer /\
  magnet_in_fragment (B "magnet:?xt=urn:btih:abababababababababababababababababababab&tr=http://h:65536/&x.pe=a%20b:1") = true /\
  magnet_in_fragment (B "magnet:?xt=urn:btih:abababababababababababababababababababab&tr=mailto:x") = false /\
  magnet_in_fragment (B "magnet:?xt=urn:btih:abababababababababababababababababababab&x.pe=xn--bcher-kva.example:1") = false.
Proof.
  split.
  { unfold wf_link, wfb. cbn [witness_link_concrete l_ih l_name l_trackers l_peers].
    repeat split; [| intros n E; inversion E; subst | |];
      repeat (apply Forall_cons || apply Forall_nil); vm_compute; reflexivity. }
  split; [reflexivity|]. repeat split; vm_compute; reflexivity.
Qed.

Print Assumptions c10_concrete_typed_parsers.
Print Assumptions c10_own_parser_roundtrip_concrete.
Print Assumptions c10_own_parser_any_name_concrete.
Print Assumptions c10_concrete_parser_returns_normal_forms.
Print Assumptions c10_link_command_decodes_concrete.
Print Assumptions c10_concrete_hypotheses_satisfiable.
