(** C19 — completion scripts: same text on stdout and on disk, under the documented names.
    This file contains only pinned statements, theorems closed by [exact] (or by computation
    over the regenerated tables), one [Example] per implication, and [Print Assumptions].
    Model: Model/Completions.v; proofs: Proofs/CompletionsProofs.v; tables regenerated from
    /repo by tools/rs2v_shell.py: Generated/GenShell.v.

    [gen : shell -> text] is clap's script generator (universally quantified: the theorems
    hold whatever clap prints); [d] is the content of the directory named by --dir before the
    run (universally quantified: any files may already be there). *)
From Coq Require Import NArith List String Bool.
From Imdl Require Import Model.Completions Proofs.CompletionsProofs Generated.GenShell.
Import ListNotations.
Import Cpl.
Local Open Scope N_scope.

(** (T) the translator understood the current sources *)
Theorem c19_sources_translated : GenShell.translated = true.
Proof. reflexivity. Qed.

(** (T) the tables of the model are the tables of the Rust source: variants in declaration
    order (= Shell::iter()), their command-line names, the file-name match, the mapping to
    clap's shells, where the script comes from and how it is post-processed, and the
    structopt attributes the clap stage of the model was written from *)
Theorem c19_model_matches_source :
  (forall s, shell_arg s = bytes_of_string (shell_name s) /\ fname s = bytes_of_string (filename s)) /\
  map shell_ident all_shells = GenShell.shell_variants /\
  map (fun s => (shell_ident s, shell_name s)) all_shells = GenShell.shell_names /\
  (forall s, sassoc (shell_ident s) GenShell.shell_filenames = Some (filename s)) /\
  List.length GenShell.shell_filenames = 5%nat /\
  (forall s, sassoc (shell_ident s) GenShell.shell_clap = Some (clap_ident s)) /\
  List.length GenShell.shell_clap = 5%nat /\
  GenShell.script_source = "Arguments"%string /\ GenShell.script_bin_name = "imdl"%string /\
  GenShell.script_post_trim = true /\ GenShell.script_post_push = [10] /\
  GenShell.completions_args = expected_args.
Proof.
  split; [exact byte_tables_agree|].
  repeat split; try reflexivity; intros s; destruct s; reflexivity.
Qed.

(** the file names are the documented ones, and no two shells share one *)
Theorem c19_names_documented :
  map (fun v => sassoc v GenShell.shell_filenames)
      ["Bash"; "Fish"; "Zsh"; "Powershell"; "Elvish"]%string =
  [Some "imdl.bash"; Some "imdl.fish"; Some "_imdl"; Some "_imdl.ps1"; Some "imdl.elvish"]%string /\
  distinctb (map snd GenShell.shell_filenames) = true /\
  (forall s1 s2, fname s1 = fname s2 -> s1 = s2).
Proof. split; [reflexivity | split; [reflexivity | exact fname_inj]]. Qed.

(** `--shell S` or positional `S`, no --dir: the script on stdout, the directory untouched *)
Check stdout_mode : forall gen s a tgt,
  one_shell a s -> a_dir a = None ->
  run gen a tgt = {| o_status := Success; o_stdout := script gen s; o_dir := tgt |}.
Theorem c19_stdout_mode : forall gen s a tgt,
  one_shell a s -> a_dir a = None ->
  run gen a tgt = {| o_status := Success; o_stdout := script gen s; o_dir := tgt |}.
Proof. exact stdout_mode. Qed.

Example c19_stdout_mode_ex :
  one_shell {| a_flag := None; a_pos := Some (shell_arg Fish); a_dir := None |} Fish /\
  a_dir {| a_flag := None; a_pos := Some (shell_arg Fish); a_dir := None |} = None.
Proof. split; [right; split; reflexivity | reflexivity]. Qed.

(** every script is non-empty: a body with no white space at either end, then one line feed *)
Theorem c19_script_shape : forall gen s,
  script gen s <> [] /\
  exists body, script gen s = body ++ [10] /\ drop_ws body = body /\ drop_ws (rev body) = rev body.
Proof. exact script_shape. Qed.

(** `--dir D` with one shell, for every prior content [d] of D: exactly the documented name
    now holds the script, every other name is as before, nothing on stdout *)
Theorem c19_dir_writes_exactly_one : forall gen s a path d,
  one_shell a s -> a_dir a = Some path -> path <> [] ->
  let o := run gen a (Some d) in
  o_status o = Success /\ o_stdout o = [] /\
  exists d', o_dir o = Some d' /\
    lookup (fname s) d' = Some (script gen s) /\
    (forall m, m <> fname s -> lookup m d' = lookup m d).
Proof. exact dir_mode_one. Qed.

(** the file holds byte for byte what the same shell prints without --dir (flag or
    positional on either side), and that text is not empty *)
Theorem c19_dir_and_stdout_same_text : forall gen s a1 a2 path d tgt,
  one_shell a1 s -> a_dir a1 = None ->
  one_shell a2 s -> a_dir a2 = Some path -> path <> [] ->
  o_stdout (run gen a1 tgt) <> [] /\
  exists d', o_dir (run gen a2 (Some d)) = Some d' /\
             lookup (fname s) d' = Some (o_stdout (run gen a1 tgt)).
Proof. exact dir_and_stdout_same_text. Qed.

Example c19_dir_mode_ex :
  let a1 := {| a_flag := Some (shell_arg Zsh); a_pos := None; a_dir := None |} in
  let a2 := {| a_flag := None; a_pos := Some (shell_arg Zsh); a_dir := Some [100] |} in
  one_shell a1 Zsh /\ a_dir a1 = None /\ one_shell a2 Zsh /\ a_dir a2 = Some [100] /\ [100] <> [].
Proof.
  cbv zeta. split; [left; split; reflexivity|]. split; [reflexivity|].
  split; [right; split; reflexivity|]. split; [reflexivity | discriminate].
Qed.

(** `--dir D` without a shell, for every prior content of D: all five documented names hold
    their shell's script, every other name is as before *)
Theorem c19_dir_without_shell_writes_all_five : forall gen a path d,
  a_flag a = None -> a_pos a = None -> a_dir a = Some path -> path <> [] ->
  let o := run gen a (Some d) in
  o_status o = Success /\ o_stdout o = [] /\
  exists d', o_dir o = Some d' /\
    (forall s, lookup (fname s) d' = Some (script gen s)) /\
    (forall m, (forall s, m <> fname s) -> lookup m d' = lookup m d).
Proof. exact dir_without_shell_writes_all_five. Qed.

Example c19_all_five_ex :
  let a := {| a_flag := None; a_pos := None; a_dir := Some [100] |} in
  a_flag a = None /\ a_pos a = None /\ a_dir a = Some [100] /\ [100] <> [] /\
  (forall s, [46; 98; 97; 107] <> fname s).
Proof.
  cbv zeta. repeat split; try discriminate. intros s; destruct s; vm_compute; discriminate.
Qed.

(** both ways of naming the shell at once (any two values), or neither shell nor directory:
    usage error, nothing printed, nothing written *)
Theorem c19_both_or_neither_is_usage_error :
  (forall gen a f p tgt, a_flag a = Some f -> a_pos a = Some p -> run gen a tgt = usage tgt) /\
  (forall gen a tgt, a_flag a = None -> a_pos a = None -> a_dir a = None -> run gen a tgt = usage tgt).
Proof. exact (conj both_is_usage_error neither_is_usage_error). Qed.

Example c19_usage_error_ex :
  (let a := {| a_flag := Some (shell_arg Bash); a_pos := Some (shell_arg Bash); a_dir := Some [100] |} in
   a_flag a = Some (shell_arg Bash) /\ a_pos a = Some (shell_arg Bash)) /\
  (let a := {| a_flag := None; a_pos := None; a_dir := None |} in
   a_flag a = None /\ a_pos a = None /\ a_dir a = None).
Proof. cbv zeta. repeat split. Qed.

(** exactly which command lines are usage errors; and a usage error has no effect *)
Theorem c19_usage_error_iff : forall gen a tgt,
  o_status (run gen a tgt) = UsageError <->
  (~ valid_value (a_flag a) \/ ~ valid_value (a_pos a) \/ a_dir a = Some [] \/
   (is_some (a_flag a) && is_some (a_pos a) = true) \/
   (a_flag a = None /\ a_pos a = None /\ a_dir a = None)).
Proof. exact usage_error_iff. Qed.

Theorem c19_usage_error_no_effect : forall gen a tgt,
  o_status (run gen a tgt) = UsageError -> run gen a tgt = usage tgt.
Proof. exact usage_error_no_effect. Qed.

Example c19_usage_error_iff_ex :
  ~ valid_value (Some [66; 97; 115; 104]) /\ valid_value (Some (shell_arg Bash)) /\ valid_value None.
Proof.
  split; [|split; [exists Bash; reflexivity | exact I]].
  intros [s Hs]. destruct s; vm_compute in Hs; discriminate Hs.
Qed.

(** clap's validation makes both `Error::internal` branches of Completions::run unreachable *)
Theorem c19_no_internal_error : forall gen a tgt, o_status (run gen a tgt) <> InternalError.
Proof. exact no_internal_error. Qed.

(** the only other failure is a missing directory: nothing printed, nothing created *)
Theorem c19_io_error_only_when_dir_missing : forall gen a tgt,
  o_status (run gen a tgt) = IoError ->
  tgt = None /\ is_some (a_dir a) = true /\
  run gen a tgt = {| o_status := IoError; o_stdout := []; o_dir := None |}.
Proof. exact io_error_iff. Qed.

Example c19_io_error_ex : forall gen,
  o_status (run gen {| a_flag := None; a_pos := None; a_dir := Some [100] |} None) = IoError.
Proof. intros gen. reflexivity. Qed.

(** nothing else, for every command line and every prior directory content: stdout is empty
    or one shell's script; every name in the directory is untouched or is a documented file
    name holding that shell's script; the directory is never created or removed *)
Theorem c19_nothing_else : forall gen a tgt,
  let o := run gen a tgt in
  (o_stdout o = [] \/ exists s, o_stdout o = script gen s) /\
  match tgt, o_dir o with
  | Some d, Some d' =>
      forall m, lookup m d' = lookup m d \/ exists s, m = fname s /\ lookup m d' = Some (script gen s)
  | None, None => True
  | _, _ => False
  end.
Proof. exact nothing_else. Qed.

(** (T) the subcommand tree regenerated from the StructOpt enums is well formed *)
Theorem c19_cli_names_wellformed :
  paths_ok GenShell.cli_subcommands = true /\ forallb name_ok cli_names = true.
Proof. split; vm_compute; reflexivity. Qed.

(** if clap's generator names every subcommand of the current interface for every shell
    (hypothesis about clap, validated on the real binary by the check), then so does every
    script after imdl's post-processing — hence, by the theorems above, every text that
    `imdl completions` prints or writes *)
Check scripts_name : forall gen names,
  forallb name_ok names = true ->
  (forall s n, In n names -> infix n (gen s)) ->
  forall s n, In n names -> infix n (script gen s).
Theorem c19_scripts_name_every_subcommand : forall gen,
  (forall s n, In n cli_names -> infix n (gen s)) ->
  forall s n, In n cli_names -> infix n (script gen s).
Proof. exact (fun gen => scripts_name gen cli_names (proj2 c19_cli_names_wellformed)). Qed.

Example c19_clap_hypothesis_satisfiable :
  exists gen : shell -> text, forall s n, In n cli_names -> infix n (gen s).
Proof. exists (fun _ => List.concat cli_names). intros _ n Hin. apply infix_concat_in. exact Hin. Qed.

Print Assumptions c19_sources_translated.
Print Assumptions c19_model_matches_source.
Print Assumptions c19_names_documented.
Print Assumptions c19_stdout_mode.
Print Assumptions c19_stdout_mode_ex.
Print Assumptions c19_script_shape.
Print Assumptions c19_dir_writes_exactly_one.
Print Assumptions c19_dir_and_stdout_same_text.
Print Assumptions c19_dir_mode_ex.
Print Assumptions c19_dir_without_shell_writes_all_five.
Print Assumptions c19_all_five_ex.
Print Assumptions c19_both_or_neither_is_usage_error.
Print Assumptions c19_usage_error_ex.
Print Assumptions c19_usage_error_iff.
Print Assumptions c19_usage_error_no_effect.
Print Assumptions c19_usage_error_iff_ex.
Print Assumptions c19_no_internal_error.
Print Assumptions c19_io_error_only_when_dir_missing.
Print Assumptions c19_io_error_ex.
Print Assumptions c19_nothing_else.
Print Assumptions c19_cli_names_wellformed.
Print Assumptions c19_scripts_name_every_subcommand.
Print Assumptions c19_clap_hypothesis_satisfiable.
