(** C14 — create enforces its validity rules, and each --allow lifts exactly one.
    This file contains only pinned statements, theorems closed by [exact] (or by computation for
    the generated-table obligations), [Example]s showing the hypotheses are satisfiable, and
    [Print Assumptions]. Model: Model/Lint.v; proofs: Proofs/LintProofs.v; tables regenerated
    from /repo by tools/rs2v_lint.py: Generated/GenLint.v.

    Every theorem quantifies over all piece lengths [pl : N] (not only the thresholds) and all
    allow lists [A : list lint] (any order, any duplicates). *)
From Coq Require Import NArith List Bool String.
From Imdl Require Import Model.Lint Model.Picker Proofs.PickerProofs Proofs.LintProofs.
From Imdl Require Generated.GenLint.
Import ListNotations.
Local Open Scope N_scope.

(** (T) the translator understood the current sources *)
Theorem c14_sources_translated : GenLint.translated = true.
Proof. reflexivity. Qed.

(** (T) the tables of the model are the tables of the Rust source: lint names (src/lint.rs), the
    Error::lint map (src/error.rs) and nothing else mapped to a lint, the early returns of
    Create::run in source order with their guarding lints, the threshold, the integer width of
    as_piece_length and its position after the checks and before any write, exit code, note text *)
Theorem c14_model_matches_source :
  map (fun l => (lint_ident l, lint_name l)) all_lints = GenLint.lint_names /\
  (forall e, In e all_errors ->
     option_map lint_ident (error_lint e) = lookup_str (error_ident e) GenLint.error_lint) /\
  incl (map fst GenLint.error_lint) (map error_ident all_errors) /\
  GenLint.create_checks = check_table ++ [("OutputExists"%string, None, "output-exists"%string)] /\
  small_threshold = GenLint.small_threshold /\
  piece_length_bits = GenLint.as_piece_length_bits /\
  error_ident (EPieceLengthTooLarge 0) = GenLint.as_piece_length_error /\
  GenLint.as_piece_length_after_checks = true /\
  GenLint.exit_failure = 1 /\
  (forall l, note_line l = (GenLint.note_label ++ GenLint.note_middle ++ lint_name l ++ GenLint.note_end)%string).
Proof.
  split; [reflexivity | ].
  split; [intros e He; repeat (destruct He as [He | He]; [subst e; reflexivity | ]); destruct He | ].
  split; [intros s Hs; repeat (destruct Hs as [Hs | Hs]; [subst s; cbn; tauto | ]); destruct Hs | ].
  repeat split; try reflexivity.
Qed.

(** the executable power-of-two test of the model (u64::is_power_of_two) is the mathematical one *)
Check is_power_of_two_spec : forall n, is_power_of_two n = true <-> exists k, n = 2 ^ k.
Theorem c14_power_of_two_test : forall n, is_power_of_two n = true <-> exists k, n = 2 ^ k.
Proof. exact is_power_of_two_spec. Qed.

(** a run is accepted exactly when the length is non-zero, fits u32, and every violated lint is
    allowed; the recorded length is then the given one *)
Check accept_iff : forall A pl p a pl',
  decide A pl p a = Accept pl' <->
  pl' = pl /\ pl <> 0 /\ pl < 2 ^ 32 /\ (forall l, violated l pl p a -> In l A).
Theorem c14_accept_iff : forall A pl p a pl',
  decide A pl p a = Accept pl' <->
  pl' = pl /\ pl <> 0 /\ pl < 2 ^ 32 /\ (forall l, violated l pl p a -> In l A).
Proof. exact accept_iff. Qed.

Theorem c14_accept_records_exactly : forall A pl p a pl', decide A pl p a = Accept pl' -> pl' = pl.
Proof. exact accept_records_exactly. Qed.

(** zero is always rejected, whatever is allowed *)
Theorem c14_zero_always : forall A p a pl', decide A 0 p a <> Accept pl'.
Proof. exact zero_always. Qed.

(** anything above 2^32-1 is always rejected, whatever is allowed *)
Theorem c14_too_large_always : forall A pl p a pl', 2 ^ 32 <= pl -> decide A pl p a <> Accept pl'.
Proof. exact too_large_always. Qed.

(** a violated lint that is not allowed is never admitted, whatever else is allowed *)
Check allow_independent : forall A l pl p a pl',
  violated l pl p a -> ~ In l A -> decide A pl p a <> Accept pl'.
Theorem c14_allow_independent : forall A l pl p a pl',
  violated l pl p a -> ~ In l A -> decide A pl p a <> Accept pl'.
Proof. exact allow_independent. Qed.

Theorem c14_allow_one_never_disables_another : forall A l l' pl p a pl',
  l' <> l -> violated l' pl p a -> ~ In l' A -> decide (l :: A) pl p a <> Accept pl'.
Proof. exact allow_one_never_disables_another. Qed.

(** adding `--allow l` yields acceptance exactly when l was the only obstacle *)
Theorem c14_allow_lifts_exactly_one : forall A l pl p a,
  decide (l :: A) pl p a = Accept pl <->
  pl <> 0 /\ pl < 2 ^ 32 /\ (forall l', violated l' pl p a -> l' = l \/ In l' A).
Proof. exact allow_lifts_exactly_one. Qed.

(** each rejection happens for exactly its reason, in the code's order *)
Theorem c14_private_iff : forall A pl p a,
  decide A pl p a = RejectLint PrivateTrackerless <-> blocks A PrivateTrackerless pl p a.
Proof. exact private_iff. Qed.

Theorem c14_zero_iff : forall A pl p a,
  decide A pl p a = RejectZero <-> pl = 0 /\ ~ blocks A PrivateTrackerless pl p a.
Proof. exact zero_iff. Qed.

Theorem c14_uneven_iff : forall A pl p a,
  decide A pl p a = RejectLint UnevenPieceLength <->
  blocks A UnevenPieceLength pl p a /\ pl <> 0 /\ ~ blocks A PrivateTrackerless pl p a.
Proof. exact uneven_iff. Qed.

Theorem c14_small_iff : forall A pl p a,
  decide A pl p a = RejectLint SmallPieceLength <->
  blocks A SmallPieceLength pl p a /\ pl <> 0 /\ ~ blocks A PrivateTrackerless pl p a /\
  ~ blocks A UnevenPieceLength pl p a.
Proof. exact small_iff. Qed.

Theorem c14_too_large_iff : forall A pl p a,
  decide A pl p a = RejectTooLarge <-> 2 ^ 32 <= pl /\ (forall l, violated l pl p a -> In l A).
Proof. exact too_large_iff. Qed.

(** [blocks] is what it should be *)
Theorem c14_blocks_def : forall A l pl p a, blocks A l pl p a <-> violated l pl p a /\ ~ In l A.
Proof. intros; reflexivity. Qed.

(** the note never lies *)
Check note_truthful : forall A pl p a l, decide A pl p a = RejectLint l -> violated l pl p a /\ ~ In l A.
Theorem c14_note_truthful : forall A pl p a l,
  decide A pl p a = RejectLint l -> violated l pl p a /\ ~ In l A.
Proof. exact note_truthful. Qed.

(** what the process shows: a note implies exit 1, nothing recorded, and a truthful lint name;
    names (and whole note lines) determine lints *)
Theorem c14_lint_rejection_observed : forall A pl p a l,
  note (status A pl p a) = Some l ->
  exit_code (status A pl p a) = 1 /\ recorded (status A pl p a) = None /\
  note_text (status A pl p a) = Some (note_line l) /\ violated l pl p a /\ ~ In l A.
Proof. exact lint_rejection_observed. Qed.

Theorem c14_lint_name_injective :
  (forall l l', lint_name l = lint_name l' -> l = l') /\ (forall l l', note_line l = note_line l' -> l = l').
Proof. exact (conj lint_name_injective note_line_injective). Qed.

Theorem c14_exit_code_spec : forall A pl p a,
  (exit_code (status A pl p a) = 0 /\ recorded (status A pl p a) = Some pl /\ note (status A pl p a) = None /\
   decide A pl p a = Accept pl) \/
  (exit_code (status A pl p a) = 1 /\ recorded (status A pl p a) = None /\ forall v, decide A pl p a <> Accept v).
Proof. exact exit_code_spec. Qed.

(** the allow list is a set *)
Theorem c14_allow_set_semantics : forall A B pl p a,
  (forall l, In l A <-> In l B) -> decide A pl p a = decide B pl p a.
Proof. exact allow_set_semantics. Qed.

(** with C15: an automatically picked piece length trips no piece-length rule, for any content size *)
Theorem c14_auto_piece_length_accepted : forall A n p a,
  (p = true -> a = false -> In PrivateTrackerless A) ->
  decide A (pick_ideal n) p a = Accept (pick_ideal n).
Proof. exact auto_piece_length_accepted. Qed.

(** the hypotheses of the implications above are satisfiable, on both sides of every threshold *)
Example c14_ex_thresholds :
  decide [] 16383 false false = RejectLint UnevenPieceLength /\
  decide [UnevenPieceLength] 16383 false false = RejectLint SmallPieceLength /\
  decide [] 16384 false false = Accept 16384 /\
  decide [UnevenPieceLength] 16385 false false = Accept 16385 /\
  decide [UnevenPieceLength] (2 ^ 32 - 1) false false = Accept 4294967295 /\
  decide [UnevenPieceLength; SmallPieceLength; PrivateTrackerless] (2 ^ 32) true false = RejectTooLarge /\
  decide [UnevenPieceLength; SmallPieceLength; PrivateTrackerless] 0 true false = RejectZero /\
  decide [UnevenPieceLength; SmallPieceLength] 1 true false = RejectLint PrivateTrackerless /\
  decide [UnevenPieceLength; SmallPieceLength] 1 true true = Accept 1.
Proof. vm_compute. repeat split. Qed.

Example c14_ex_independent :
  violated SmallPieceLength 8192 false true /\ ~ In SmallPieceLength [UnevenPieceLength; PrivateTrackerless] /\
  decide [UnevenPieceLength; PrivateTrackerless] 8192 false true = RejectLint SmallPieceLength /\
  decide [SmallPieceLength] 12288 true false = RejectLint PrivateTrackerless /\
  decide [SmallPieceLength; PrivateTrackerless] 12288 true false = RejectLint UnevenPieceLength /\
  decide [UnevenPieceLength; SmallPieceLength; PrivateTrackerless] 12288 true false = Accept 12288.
Proof.
  split; [reflexivity | ]. split; [intros [H | [H | H]]; try discriminate H; exact H | ].
  vm_compute. repeat split.
Qed.

Example c14_ex_auto : decide [] (pick_ideal 5000000) true true = Accept 32768.
Proof. vm_compute. reflexivity. Qed.

Print Assumptions c14_sources_translated.
Print Assumptions c14_model_matches_source.
Print Assumptions c14_power_of_two_test.
Print Assumptions c14_accept_iff.
Print Assumptions c14_accept_records_exactly.
Print Assumptions c14_zero_always.
Print Assumptions c14_too_large_always.
Print Assumptions c14_allow_independent.
Print Assumptions c14_allow_one_never_disables_another.
Print Assumptions c14_allow_lifts_exactly_one.
Print Assumptions c14_private_iff.
Print Assumptions c14_zero_iff.
Print Assumptions c14_uneven_iff.
Print Assumptions c14_small_iff.
Print Assumptions c14_too_large_iff.
Print Assumptions c14_blocks_def.
Print Assumptions c14_note_truthful.
Print Assumptions c14_lint_rejection_observed.
Print Assumptions c14_lint_name_injective.
Print Assumptions c14_exit_code_spec.
Print Assumptions c14_allow_set_semantics.
Print Assumptions c14_auto_piece_length_accepted.
Print Assumptions c14_ex_thresholds.
Print Assumptions c14_ex_independent.
Print Assumptions c14_ex_auto.
