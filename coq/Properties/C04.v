(** C04 — the reported infohash is the SHA-1 of the info dictionary exactly as stored.
    Only pinned statements, theorems closed by [exact], examples and [Print Assumptions].
    Model: Model/Bencode.v, Model/Infohash.v; proofs: Proofs/BencodeProofs.v,
    Proofs/InfohashProofs.v; regenerated from /repo by tools/rs2v_infohash.py: Generated/GenInfohash.v.
    [H] (SHA-1) and [digest] are universally quantified: nothing is assumed about the hash. *)
From Coq Require Import NArith ZArith List Bool.
From Imdl Require Import Model.Bencode Proofs.BencodeProofs Generated.GenInfohash Model.Infohash Proofs.InfohashProofs.
Import ListNotations.
Local Open Scope N_scope.

(** (T) the translator understood `Infohash::from_input` and `Info::infohash_lossy`: the value is
    decoded from the whole input, the located value is re-encoded and handed to SHA-1; the lossy
    path hashes the serde serialisation of the typed struct *)
Theorem c04_sources_translated :
  GenInfohash.translated = true /\ GenInfohash.hashes_reencoding = true /\
  GenInfohash.lossy_hashes_typed_serialisation = true.
Proof. repeat split; reflexivity. Qed.

(** (T) the key looked up is `info`, and it is the serde name of `Metainfo`'s field of type `Info` *)
Theorem c04_lookup_key :
  info_key = [105; 110; 102; 111] /\ info_key = GenInfohash.metainfo_info_key.
Proof. split; reflexivity. Qed.

(** strict decoding: what was consumed is byte for byte the re-encoding of what was returned,
    and the returned value is canonical (sorted distinct keys, i64 integers) *)
Check decode_exact_wf : forall f bs v rest, decode f bs = Some (v, rest) -> bs = encode v ++ rest /\ wfb v = true.
Theorem c04_decode_exact : forall f bs v rest, decode f bs = Some (v, rest) -> bs = encode v ++ rest /\ wfb v = true.
Proof. exact decode_exact_wf. Qed.

(** conversely every canonical value, followed by anything, decodes back to itself and the rest *)
Check encode_decode : forall v, wfb v = true -> forall rest, decode (vsize v) (encode v ++ rest) = Some (v, rest).
Theorem c04_encode_decode : forall v, wfb v = true -> forall rest, decode (vsize v) (encode v ++ rest) = Some (v, rest).
Proof. exact encode_decode. Qed.

(** the fuel the model passes is never the reason for a rejection *)
Check fuel_sufficient : forall f bs r, decode f bs = Some r -> decode (fuel_of bs) bs = Some r.
Theorem c04_fuel_sufficient : forall f bs r, decode f bs = Some r -> decode (fuel_of bs) bs = Some r.
Proof. exact fuel_sufficient. Qed.

(** headline: for every input, every depth limit and every hash function, a reported infohash is
    the hash of a span of the file that sits right after `d <items not keyed info> 4:info` and
    is one complete canonical dictionary — unknown keys and nested values included *)
Check infohash_is_span : forall digest (H : list N -> digest) md bs h,
  infohash_of digest H md bs = Some h ->
  exists pre span post, bs = pre ++ span ++ post /\ info_position pre /\ complete_dict span /\ h = H span.
Theorem c04_infohash_is_span : forall digest (H : list N -> digest) md bs h,
  infohash_of digest H md bs = Some h ->
  exists pre span post, bs = pre ++ span ++ post /\ info_position pre /\ complete_dict span /\ h = H span.
Proof. exact infohash_is_span. Qed.

(** that span is unique: a file can be read as `prefix-up-to-info ++ dictionary ++ rest` in one way *)
Check span_unique : forall bs pre span post pre' span' post',
  bs = pre ++ span ++ post -> info_position pre -> complete_dict span ->
  bs = pre' ++ span' ++ post' -> info_position pre' -> complete_dict span' ->
  pre = pre' /\ span = span' /\ post = post'.
Theorem c04_span_unique : forall bs pre span post pre' span' post',
  bs = pre ++ span ++ post -> info_position pre -> complete_dict span ->
  bs = pre' ++ span' ++ post' -> info_position pre' -> complete_dict span' ->
  pre = pre' /\ span = span' /\ post = post'.
Proof. exact span_unique. Qed.

(** exact characterisation of acceptance and of the hashed bytes *)
Check hashed_iff_shape : forall md bs span, hashed_bytes md bs = Some span <-> torrent_shape md bs span.
Theorem c04_hashed_iff_shape : forall md bs span, hashed_bytes md bs = Some span <-> torrent_shape md bs span.
Proof. exact hashed_iff_shape. Qed.

(** every canonical torrent-shaped file is accepted and its infohash depends only on the text of
    the info dictionary: other top-level keys (known or unknown) and trailing bytes are irrelevant *)
Check infohash_complete : forall digest (H : list N -> digest) md before iv after trailing,
  let top := Dict (before ++ (info_key, Dict iv) :: after) in
  wfb top = true -> depth_ok md top = true ->
  infohash_of digest H md (encode top ++ trailing) = Some (H (encode (Dict iv))).
Theorem c04_infohash_complete : forall digest (H : list N -> digest) md before iv after trailing,
  let top := Dict (before ++ (info_key, Dict iv) :: after) in
  wfb top = true -> depth_ok md top = true ->
  infohash_of digest H md (encode top ++ trailing) = Some (H (encode (Dict iv))).
Proof. exact infohash_complete. Qed.

Theorem c04_trailing_bytes_irrelevant : forall digest (H : list N -> digest) md top t1 t2,
  wfb top = true ->
  infohash_of digest H md (encode top ++ t1) = infohash_of digest H md (encode top ++ t2).
Proof. exact trailing_bytes_irrelevant. Qed.

(** `create --show` / `create --link` (lossy path: hash of the typed struct's serialisation) agree
    with `show` / `link` on the file `create` wrote, for every typed `Info` whose u64 fields are
    below 2^63, whatever the other top-level fields are and whatever follows the file *)
Check lossy_agrees_on_created : forall digest (H : list N -> digest) md others i top trailing,
  info_small i = true -> forallb (fun kv => wfb (snd kv)) others = true ->
  metainfo_value others i = Some top -> depth_ok md top = true ->
  exists typed, ser_info i = Some typed /\ ser_metainfo others i = Some (encode top) /\
    infohash_of digest H md (encode top ++ trailing) = Some (H typed).
Theorem c04_lossy_agrees_on_created : forall digest (H : list N -> digest) md others i top trailing,
  info_small i = true -> forallb (fun kv => wfb (snd kv)) others = true ->
  metainfo_value others i = Some top -> depth_ok md top = true ->
  exists typed, ser_info i = Some typed /\ ser_metainfo others i = Some (encode top) /\
    infohash_of digest H md (encode top ++ trailing) = Some (H typed).
Proof. exact lossy_agrees_on_created. Qed.

(** Examples: the hypotheses are satisfiable by non-trivial instances. *)

(* `d4:infod4:name1:x1:<FF>i-5ee3:zzzlee` + `XYZ`: an unknown non-UTF-8 key inside info, an unknown
   key after it, trailing bytes; the hashed bytes are `d4:name1:x1:<FF>i-5ee` *)
Definition ex_file : list N :=
  [100; 52; 58; 105; 110; 102; 111; 100; 52; 58; 110; 97; 109; 101; 49; 58; 120; 49; 58; 255; 105; 45; 53;
   101; 101; 51; 58; 122; 122; 122; 108; 101; 101; 88; 89; 90].
Definition ex_span : list N :=
  [100; 52; 58; 110; 97; 109; 101; 49; 58; 120; 49; 58; 255; 105; 45; 53; 101; 101].

Example c04_example_accepts : forall md, hashed_bytes (Some (2 + md)) ex_file = Some ex_span /\
                                          hashed_bytes None ex_file = Some ex_span /\
                                          hashed_bytes (Some 1) ex_file = None.
Proof.
  intros md. split; [|split; vm_compute; reflexivity].
  unfold hashed_bytes, ih_from_input.
  replace (decode (fuel_of ex_file) ex_file) with
    (Some (Dict [(info_key, Dict [([110; 97; 109; 101], Str [120]); ([255], Int (-5))]); ([122; 122; 122], Lst [])],
           [88; 89; 90])) by (vm_compute; reflexivity).
  unfold depth_ok. replace (vdepth _) with 2 by (vm_compute; reflexivity).
  replace (2 <=? 2 + md) with true by (symmetry; apply N.leb_le, N.le_add_r). vm_compute. reflexivity.
Qed.

Example c04_example_span : exists pre post,
  ex_file = pre ++ ex_span ++ post /\ info_position pre /\ complete_dict ex_span.
Proof.
  destruct (infohash_is_span _ (fun x => x) None ex_file ex_span) as (pre & span & post & Hb & Hp & Hc & Hh).
  - vm_compute. reflexivity.
  - subst span. exists pre, post. repeat split; assumption.
Qed.

(* a typed Info {private = 1, piece length = 16384, name = "foo", source = "src", pieces = 20 bytes,
   length = 5} under others = {announce, zzz} *)
Definition ex_info : tinfo :=
  {| ti_private := Some true; ti_piece_length := 16384; ti_name := [102; 111; 111]; ti_source := Some [115; 114; 99];
     ti_pieces := repeat 7 20; ti_mode := TSingle 5 None; ti_update_url := None |}.
Definition ex_multi : tinfo :=
  {| ti_private := None; ti_piece_length := 32768; ti_name := [102; 111; 111]; ti_source := None;
     ti_pieces := repeat 9 40;
     ti_mode := TMultiple [ {| tf_length := 3; tf_path := [[97]; [98]]; tf_md5sum := Some (repeat 48 32) |};
                          {| tf_length := 0; tf_path := [[99]]; tf_md5sum := None |} ];
     ti_update_url := Some [104; 116; 116; 112; 58; 47; 47; 116; 47; 97] |}.
Definition ex_others : list (list N * value) :=
  [([122; 122; 122], Lst [Int 1]); ([97; 110; 110; 111; 117; 110; 99; 101], Str [104; 116; 116; 112; 58; 47; 47; 116; 47; 97])].

Example c04_example_lossy :
  forall i, In i [ex_info; ex_multi] ->
  info_small i = true /\ forallb (fun kv => wfb (snd kv)) ex_others = true /\
  exists top, metainfo_value ex_others i = Some top /\ depth_ok GenInfohash.max_depth top = true /\
              depth_ok (Some 2048) top = true /\
              hashed_bytes None (encode top ++ [1; 2; 3]) = ser_info i.
Proof.
  intros i [<-|[<-|[]]].
  - split; [vm_compute; reflexivity|]. split; [vm_compute; reflexivity|].
    eexists. split; [vm_compute; reflexivity|]. repeat split; vm_compute; reflexivity.
  - split; [vm_compute; reflexivity|]. split; [vm_compute; reflexivity|].
    eexists. split; [vm_compute; reflexivity|]. repeat split; vm_compute; reflexivity.
Qed.

Print Assumptions c04_sources_translated.
Print Assumptions c04_lookup_key.
Print Assumptions c04_decode_exact.
Print Assumptions c04_encode_decode.
Print Assumptions c04_fuel_sufficient.
Print Assumptions c04_infohash_is_span.
Print Assumptions c04_span_unique.
Print Assumptions c04_hashed_iff_shape.
Print Assumptions c04_infohash_complete.
Print Assumptions c04_trailing_bytes_irrelevant.
Print Assumptions c04_lossy_agrees_on_created.
Print Assumptions c04_example_accepts.
Print Assumptions c04_example_span.
Print Assumptions c04_example_lossy.
