(** C17 — host:port values survive every representation.
    Only pinned statements, theorems closed by [exact], examples and [Print Assumptions].
    Model: Model/HostPort.v (imdl's own logic exact; the url crate's hp_host parser, the IP
    `Display`s and the regex digit class are parameters constrained by [url_lib]);
    proofs: Proofs/HostPortProofs.v; the regex, the format strings and the re-bracketing test
    are re-read from src/host_port.rs by tools/rs2v_hostport.py into Generated/GenHostPort.v. *)
From Coq Require Import NArith ZArith List Bool String.
From Imdl Require Import Model.Bencode Model.HostPort Proofs.HostPortProofs Generated.GenHostPort.
Import ListNotations.
Local Open Scope N_scope.

Section Statements.
  Variable all_nd : list N -> bool.
  Variable hparse : list N -> option hp_host.
  Variables std4 std6 url6 : N -> list N.
  Let lib := url_lib all_nd hparse std4 std6 url6.
  Let hp_parse := HostPort.hp_parse all_nd hparse.
  Let hp_split := HostPort.hp_split all_nd.
  Let hp_display := HostPort.hp_display std4 url6.
  Let hshow := HostPort.hshow std4 url6.
  Let hp_plain := HostPort.hp_plain std4 std6.
  Let hp_to_bencode := HostPort.hp_to_bencode std4 std6.
  Let hp_from_bencode := HostPort.hp_from_bencode hparse.
  Let in_range := HostPort.in_range hparse.

  (** the lazy regex splits exactly at the last colon: for every text *)
  Definition split_statement := lib -> forall s h p,
    hp_split s = Some (h, p) <-> s = h ++ 58 :: p /\ all_nd p = true /\ hp_mem 10 h = false.
  Definition split_last_statement := lib -> forall ht pt, hp_mem 58 pt = false ->
    hp_split (ht ++ 58 :: pt) = if all_nd pt && negb (hp_mem 10 ht) then Some (ht, pt) else None.

  (** exactly which texts are accepted, and as what *)
  Definition parse_statement := lib -> forall s h n,
    hp_parse s = HpOk (h, n) <->
    exists ht pt, s = ht ++ 58 :: pt /\ hp_mem 10 ht = false /\ all_nd pt = true /\
                  hparse ht = Some h /\ parse_u16 pt = Some n.

  (** the printed form parses to the identical value: every host the parser can produce, every u16 *)
  Definition parse_display_statement := lib -> forall h n,
    in_range h -> n <= 65535 -> hp_parse (hp_display (h, n)) = HpOk (h, n).

  (** the stored form is the pair [host text without brackets, port] *)
  Definition bencode_form_statement := lib -> forall h n, in_range h ->
    hp_to_bencode (h, n) = encode (Lst [Str (hp_plain h); Int (Z.of_N n)]) /\
    hp_mem 91 (hp_plain h) = false /\ hp_mem 93 (hp_plain h) = false /\
    hparse (hp_rebracket (hp_plain h)) = Some h /\
    ((forall a, h = HIp6 a -> std6 a = url6 a) -> hshow h = hp_rebracket (hp_plain h)).

  (** re-reading the stored pair yields the identical value (trailing bytes are left alone) *)
  Definition bencode_roundtrip_statement := lib -> forall h n rest,
    in_range h -> n <= 65535 -> hp_from_bencode (hp_to_bencode (h, n) ++ rest) = Some (h, n).

  (** whatever was accepted at the command line survives printing and storing *)
  Definition accepted_survives_statement := lib -> forall s hp,
    hp_parse s = HpOk hp ->
    hp_parse (hp_display hp) = HpOk hp /\ forall rest, hp_from_bencode (hp_to_bencode hp ++ rest) = Some hp.

  (** whatever was read from a torrent is a canonical pair, and survives printing and storing *)
  Definition reread_statement := lib -> forall bs h n,
    hp_from_bencode bs = Some (h, n) ->
    (in_range h /\ n <= 65535 /\
     exists t rest, bs = encode (Lst [Str t; Int (Z.of_N n)]) ++ rest /\ hparse (hp_rebracket t) = Some h) /\
    hp_parse (hp_display (h, n)) = HpOk (h, n) /\
    forall rest, hp_from_bencode (hp_to_bencode (h, n) ++ rest) = Some (h, n).

  (** rejections: [ht] before the last colon, [pt] after it *)
  Definition rejects_statement := lib ->
    (forall s, hp_mem 58 s = false -> hp_parse s = HpErr PortMissing) /\
    (forall ht pt, hp_mem 58 pt = false ->
       pt = []
       \/ forallb hp_is_dig pt = false
       \/ (exists v, hp_digits_val 0 pt = Some v /\ 65535 < v)
       \/ ht = []
       \/ (hd_is 91 ht = None /\ hp_mem 58 ht = true)
       \/ (hd_is 91 ht = None /\ existsb hp_forbidden ht = true)
       \/ hp_mem 10 ht = true ->
       exists e, hp_parse (ht ++ 58 :: pt) = HpErr e).
End Statements.

Theorem c17_regex_split_is_last_colon :
  forall nd hp s4 s6 u6, split_statement nd hp s4 s6 u6 /\ split_last_statement nd hp s4 s6 u6.
Proof. intros nd hp s4 s6 u6. split; intros L; [exact (split_spec _ _ _ _ _ L)|exact (split_last _ _ _ _ _ L)]. Qed.

Theorem c17_parse_characterised : forall nd hp s4 s6 u6, parse_statement nd hp s4 s6 u6.
Proof. intros nd hp s4 s6 u6 L. exact (parse_spec _ _ _ _ _ L). Qed.

Theorem c17_printed_form_parses_back : forall nd hp s4 s6 u6, parse_display_statement nd hp s4 s6 u6.
Proof. intros nd hp s4 s6 u6 L. exact (parse_display _ _ _ _ _ L). Qed.

Theorem c17_stored_pair_form : forall nd hp s4 s6 u6, bencode_form_statement nd hp s4 s6 u6.
Proof.
  intros nd hp s4 s6 u6 L h n Hr.
  exact (conj (bencode_form s4 s6 (h, n))
        (conj (proj1 (plain_no_bracket _ _ _ _ _ L h Hr))
        (conj (proj2 (plain_no_bracket _ _ _ _ _ L h Hr))
        (conj (rebracket_plain _ _ _ _ _ L h Hr) (hshow_rebracket_plain _ _ _ _ _ L h Hr))))).
Qed.

Theorem c17_stored_pair_reads_back : forall nd hp s4 s6 u6, bencode_roundtrip_statement nd hp s4 s6 u6.
Proof. intros nd hp s4 s6 u6 L. exact (bencode_roundtrip _ _ _ _ _ L). Qed.

Theorem c17_accepted_values_survive : forall nd hp s4 s6 u6, accepted_survives_statement nd hp s4 s6 u6.
Proof. intros nd hp s4 s6 u6 L. exact (parsed_survives _ _ _ _ _ L). Qed.

Theorem c17_reread_values_survive : forall nd hp s4 s6 u6, reread_statement nd hp s4 s6 u6.
Proof.
  intros nd hp s4 s6 u6 L bs h n H.
  exact (conj (from_bencode_sound hp bs h n H) (reread_then_print _ _ _ _ _ L bs (h, n) H)).
Qed.

Theorem c17_rejects : forall nd hp s4 s6 u6, rejects_statement nd hp s4 s6 u6.
Proof.
  intros nd hp s4 s6 u6 L. exact (conj (rejects_no_colon nd hp) (rejects _ _ _ _ _ L)).
Qed.

(** the hypotheses are satisfiable, and the three address kinds run through the model *)
Example c17_library_hypotheses_satisfiable : url_lib toy_nd toy_hparse toy4 toy6 toy6.
Proof. exact toy_lib. Qed.

Example c17_three_address_kinds :
  let P := HostPort.hp_parse toy_nd toy_hparse in
  let D := HostPort.hp_display toy4 toy6 in
  let B := HostPort.hp_to_bencode toy4 toy6 in
  let U := HostPort.hp_from_bencode toy_hparse in
  (* a.b:080 *)
  P [97; 46; 98; 58; 48; 56; 48] = HpOk (HDomain toy_dom, 80) /\
  D (HDomain toy_dom, 80) = [97; 46; 98; 58; 56; 48] /\
  B (HDomain toy_dom, 80) = [108; 51; 58; 97; 46; 98; 105; 56; 48; 101; 101] /\
  U (B (HDomain toy_dom, 80)) = Some (HDomain toy_dom, 80) /\
  (* 1.2.3.4:0 *)
  P [49; 46; 50; 46; 51; 46; 52; 58; 48] = HpOk (HIp4 16909060, 0) /\
  U (B (HIp4 16909060, 0)) = Some (HIp4 16909060, 0) /\
  (* [::1]:65535 is stored as l3:::1i65535ee and read back through the re-added brackets *)
  P [91; 58; 58; 49; 93; 58; 54; 53; 53; 51; 53] = HpOk (HIp6 1, 65535) /\
  B (HIp6 1, 65535) = [108; 51; 58; 58; 58; 49; 105; 54; 53; 53; 51; 53; 101; 101] /\
  U (B (HIp6 1, 65535)) = Some (HIp6 1, 65535) /\
  P (D (HIp6 1, 65535)) = HpOk (HIp6 1, 65535) /\
  (* ::1:80 (no brackets), a.b:65536, a.b: , a.b:+1 and a.b are refused *)
  P [58; 58; 49; 58; 56; 48] = HpErr BadHost /\
  P [97; 46; 98; 58; 54; 53; 53; 51; 54] = HpErr BadPort /\
  P [97; 46; 98; 58] = HpErr PortMissing /\
  P [97; 46; 98; 58; 43; 49] = HpErr PortMissing /\
  P [97; 46; 98] = HpErr PortMissing.
Proof. vm_compute. repeat split; reflexivity. Qed.

Print Assumptions c17_regex_split_is_last_colon.
Print Assumptions c17_parse_characterised.
Print Assumptions c17_printed_form_parses_back.
Print Assumptions c17_stored_pair_form.
Print Assumptions c17_stored_pair_reads_back.
Print Assumptions c17_accepted_values_survive.
Print Assumptions c17_reread_values_survive.
Print Assumptions c17_rejects.
Print Assumptions c17_library_hypotheses_satisfiable.
Print Assumptions c17_three_address_kinds.

(** (T) the source still contains the regex, the format strings, the port type and the
    re-bracketing test that Model/HostPort.v mirrors *)
Theorem c17_source_is_what_the_model_mirrors :
  GenHostPort.translated = true /\
  GenHostPort.regex_tokens = ["^"; "(?P<host>.*?)"; ":"; "(?P<port>\d+?)"; "$"]%string /\
  GenHostPort.regex_flags = "x"%string /\
  GenHostPort.port_type = "u16"%string /\
  GenHostPort.display_format = "{}:{}"%string /\
  GenHostPort.tuple_fields = ["String"; "u16"]%string /\
  GenHostPort.tuple_hosts = ["domain.to_string()"; "ipv4.to_string()"; "ipv6.to_string()"]%string /\
  GenHostPort.rebracket_test = "tuple.0.contains(':')"%string /\
  GenHostPort.rebracket_format = "[{}]"%string /\
  GenHostPort.parse_order = ["Host::parse(host_text)"; "port_text.parse::<u16>()"]%string.
Proof. repeat split; reflexivity. Qed.

Print Assumptions c17_source_is_what_the_model_mirrors.
