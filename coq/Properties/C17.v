(** C17 — host:port values survive every representation.
    Only pinned statements, theorems closed by [exact], examples and [Print Assumptions].
    Model: Model/HostPort.v (imdl's own logic exact; the url crate's hp_host parser, the IP
    `Display`s and the regex digit class are parameters constrained by [url_lib]);
    proofs: Proofs/HostPortProofs.v; the regex, the format strings and the re-bracketing test
    are re-read from src/host_port.rs by tools/rs2v_hostport.py into Generated/GenHostPort.v.

    X9: [url_lib] is no longer only assumed. Model/UrlHost.v is a concrete, executable model of
    `url::Host::parse` (url 2.5.2) on a stated fragment — bracketed IPv6 literals, and ASCII texts
    without `%` and without `xn--` labels (IPv4 in every spelling of the WHATWG parser, ASCII
    domains) — and of the three IP serialisers (`Display` of `Ipv4Addr` / `Ipv6Addr`, the url
    crate's `write_ipv6`). Proofs/UrlHostProofs.v proves every field of [url_lib] for these
    functions, for all 2^32 / 2^128 addresses. WHAT REMAINS ASSUMED: the regex digit class, and
    the behaviour of `Host::parse` outside the fragment (IDNA on non-ASCII text and punycode
    labels, percent-decoding) — the four fields of [ext_lib]; the `c17_ip_*` corollaries need no
    assumption about the url crate at all. *)
From Coq Require Import NArith ZArith List Bool String.
From Imdl Require Import Model.Bencode Model.HostPort Proofs.HostPortProofs Generated.GenHostPort.
From Imdl Require Import Model.UrlHost Proofs.UrlHostProofs.
Import ListNotations.
Local Open Scope N_scope.

Section Statements.
  Variable all_nd : list N -> bool.
  Variable hparse : list N -> option hp_host.
  Variables std4 std6 url6 : N -> list N.
  Let lib := url_lib all_nd hparse std4 std6 url6.
  Let hp_parse := HostPort.hp_parse all_nd hparse.
  Let hp_split := HostPort.hp_split all_nd.
  Let hp_display := HostPort.hp_display std4 url6.
  Let hshow := HostPort.hshow std4 url6.
  Let hp_plain := HostPort.hp_plain std4 std6.
  Let hp_to_bencode := HostPort.hp_to_bencode std4 std6.
  Let hp_from_bencode := HostPort.hp_from_bencode hparse.
  Let in_range := HostPort.in_range hparse.

  (** the lazy regex splits exactly at the last colon: for every text *)
  Definition split_statement := lib -> forall s h p,
    hp_split s = Some (h, p) <-> s = h ++ 58 :: p /\ all_nd p = true /\ hp_mem 10 h = false.
  Definition split_last_statement := lib -> forall ht pt, hp_mem 58 pt = false ->
    hp_split (ht ++ 58 :: pt) = if all_nd pt && negb (hp_mem 10 ht) then Some (ht, pt) else None.

  (** exactly which texts are accepted, and as what *)
  Definition parse_statement := lib -> forall s h n,
    hp_parse s = HpOk (h, n) <->
    exists ht pt, s = ht ++ 58 :: pt /\ hp_mem 10 ht = false /\ all_nd pt = true /\
                  hparse ht = Some h /\ parse_u16 pt = Some n.

  (** the printed form parses to the identical value: every host the parser can produce, every u16 *)
  Definition parse_display_statement := lib -> forall h n,
    in_range h -> n <= 65535 -> hp_parse (hp_display (h, n)) = HpOk (h, n).

  (** the stored form is the pair [host text without brackets, port] *)
  Definition bencode_form_statement := lib -> forall h n, in_range h ->
    hp_to_bencode (h, n) = encode (Lst [Str (hp_plain h); Int (Z.of_N n)]) /\
    hp_mem 91 (hp_plain h) = false /\ hp_mem 93 (hp_plain h) = false /\
    hparse (hp_rebracket (hp_plain h)) = Some h /\
    ((forall a, h = HIp6 a -> std6 a = url6 a) -> hshow h = hp_rebracket (hp_plain h)).

  (** re-reading the stored pair yields the identical value (trailing bytes are left alone) *)
  Definition bencode_roundtrip_statement := lib -> forall h n rest,
    in_range h -> n <= 65535 -> hp_from_bencode (hp_to_bencode (h, n) ++ rest) = Some (h, n).

  (** whatever was accepted at the command line survives printing and storing *)
  Definition accepted_survives_statement := lib -> forall s hp,
    hp_parse s = HpOk hp ->
    hp_parse (hp_display hp) = HpOk hp /\ forall rest, hp_from_bencode (hp_to_bencode hp ++ rest) = Some hp.

  (** whatever was read from a torrent is a canonical pair, and survives printing and storing *)
  Definition reread_statement := lib -> forall bs h n,
    hp_from_bencode bs = Some (h, n) ->
    (in_range h /\ n <= 65535 /\
     exists t rest, bs = encode (Lst [Str t; Int (Z.of_N n)]) ++ rest /\ hparse (hp_rebracket t) = Some h) /\
    hp_parse (hp_display (h, n)) = HpOk (h, n) /\
    forall rest, hp_from_bencode (hp_to_bencode (h, n) ++ rest) = Some (h, n).

  (** rejections: [ht] before the last colon, [pt] after it *)
  Definition rejects_statement := lib ->
    (forall s, hp_mem 58 s = false -> hp_parse s = HpErr PortMissing) /\
    (forall ht pt, hp_mem 58 pt = false ->
       pt = []
       \/ forallb hp_is_dig pt = false
       \/ (exists v, hp_digits_val 0 pt = Some v /\ 65535 < v)
       \/ ht = []
       \/ (hd_is 91 ht = None /\ hp_mem 58 ht = true)
       \/ (hd_is 91 ht = None /\ existsb hp_forbidden ht = true)
       \/ hp_mem 10 ht = true ->
       exists e, hp_parse (ht ++ 58 :: pt) = HpErr e).
End Statements.

Theorem c17_regex_split_is_last_colon :
  forall nd hp s4 s6 u6, split_statement nd hp s4 s6 u6 /\ split_last_statement nd hp s4 s6 u6.
Proof. intros nd hp s4 s6 u6. split; intros L; [exact (split_spec _ _ _ _ _ L)|exact (split_last _ _ _ _ _ L)]. Qed.

Theorem c17_parse_characterised : forall nd hp s4 s6 u6, parse_statement nd hp s4 s6 u6.
Proof. intros nd hp s4 s6 u6 L. exact (parse_spec _ _ _ _ _ L). Qed.

Theorem c17_printed_form_parses_back : forall nd hp s4 s6 u6, parse_display_statement nd hp s4 s6 u6.
Proof. intros nd hp s4 s6 u6 L. exact (parse_display _ _ _ _ _ L). Qed.

Theorem c17_stored_pair_form : forall nd hp s4 s6 u6, bencode_form_statement nd hp s4 s6 u6.
Proof.
  intros nd hp s4 s6 u6 L h n Hr.
  exact (conj (bencode_form s4 s6 (h, n))
        (conj (proj1 (plain_no_bracket _ _ _ _ _ L h Hr))
        (conj (proj2 (plain_no_bracket _ _ _ _ _ L h Hr))
        (conj (rebracket_plain _ _ _ _ _ L h Hr) (hshow_rebracket_plain _ _ _ _ _ L h Hr))))).
Qed.

Theorem c17_stored_pair_reads_back : forall nd hp s4 s6 u6, bencode_roundtrip_statement nd hp s4 s6 u6.
Proof. intros nd hp s4 s6 u6 L. exact (bencode_roundtrip _ _ _ _ _ L). Qed.

Theorem c17_accepted_values_survive : forall nd hp s4 s6 u6, accepted_survives_statement nd hp s4 s6 u6.
Proof. intros nd hp s4 s6 u6 L. exact (parsed_survives _ _ _ _ _ L). Qed.

Theorem c17_reread_values_survive : forall nd hp s4 s6 u6, reread_statement nd hp s4 s6 u6.
Proof.
  intros nd hp s4 s6 u6 L bs h n H.
  exact (conj (from_bencode_sound hp bs h n H) (reread_then_print _ _ _ _ _ L bs (h, n) H)).
Qed.

Theorem c17_rejects : forall nd hp s4 s6 u6, rejects_statement nd hp s4 s6 u6.
Proof.
  intros nd hp s4 s6 u6 L. exact (conj (rejects_no_colon nd hp) (rejects _ _ _ _ _ L)).
Qed.

(** the hypotheses are satisfiable, and the three address kinds run through the model *)
Example c17_library_hypotheses_satisfiable : url_lib toy_nd toy_hparse toy4 toy6 toy6.
Proof. exact toy_lib. Qed.

Example c17_three_address_kinds :
  let P := HostPort.hp_parse toy_nd toy_hparse in
  let D := HostPort.hp_display toy4 toy6 in
  let B := HostPort.hp_to_bencode toy4 toy6 in
  let U := HostPort.hp_from_bencode toy_hparse in
  (* a.b:080 *)
  P [97; 46; 98; 58; 48; 56; 48] = HpOk (HDomain toy_dom, 80) /\
  D (HDomain toy_dom, 80) = [97; 46; 98; 58; 56; 48] /\
  B (HDomain toy_dom, 80) = [108; 51; 58; 97; 46; 98; 105; 56; 48; 101; 101] /\
  U (B (HDomain toy_dom, 80)) = Some (HDomain toy_dom, 80) /\
  (* 1.2.3.4:0 *)
  P [49; 46; 50; 46; 51; 46; 52; 58; 48] = HpOk (HIp4 16909060, 0) /\
  U (B (HIp4 16909060, 0)) = Some (HIp4 16909060, 0) /\
  (* [::1]:65535 is stored as l3:::1i65535ee and read back through the re-added brackets *)
  P [91; 58; 58; 49; 93; 58; 54; 53; 53; 51; 53] = HpOk (HIp6 1, 65535) /\
  B (HIp6 1, 65535) = [108; 51; 58; 58; 58; 49; 105; 54; 53; 53; 51; 53; 101; 101] /\
  U (B (HIp6 1, 65535)) = Some (HIp6 1, 65535) /\
  P (D (HIp6 1, 65535)) = HpOk (HIp6 1, 65535) /\
  (* ::1:80 (no brackets), a.b:65536, a.b: , a.b:+1 and a.b are refused *)
  P [58; 58; 49; 58; 56; 48] = HpErr BadHost /\
  P [97; 46; 98; 58; 54; 53; 53; 51; 54] = HpErr BadPort /\
  P [97; 46; 98; 58] = HpErr PortMissing /\
  P [97; 46; 98; 58; 43; 49] = HpErr PortMissing /\
  P [97; 46; 98] = HpErr PortMissing.
Proof. vm_compute. repeat split; reflexivity. Qed.

Print Assumptions c17_regex_split_is_last_colon.
Print Assumptions c17_parse_characterised.
Print Assumptions c17_printed_form_parses_back.
Print Assumptions c17_stored_pair_form.
Print Assumptions c17_stored_pair_reads_back.
Print Assumptions c17_accepted_values_survive.
Print Assumptions c17_reread_values_survive.
Print Assumptions c17_rejects.
Print Assumptions c17_library_hypotheses_satisfiable.
Print Assumptions c17_three_address_kinds.

(* ================================================================== X9: the library hypotheses, proved *)

(** IPv4: the dotted-decimal text of every address is read back by the WHATWG IPv4 parser *)
Check parse4_std4 : forall a, a < 4294967296 -> u_parse4 (u_std4 a) = Some a.
Theorem c17_ipv4_text_reads_back :
  forall a, a < 2 ^ 32 -> u_parse4 (u_std4 a) = Some a /\ forallb v4_char (u_std4 a) = true.
Proof. intros a Ha. exact (conj (parse4_std4 a Ha) (std4_shape_all a)). Qed.

(** IPv6: both serialisers (the url crate's and the standard library's, including its IPv4-mapped form) are read
    back by the WHATWG IPv6 parser as the same address: all 2^128 addresses *)
Check parse6_url6 : forall a, a < 2 ^ 128 -> u_parse6 (u_url6 a) = Some a.
Check parse6_std6 : forall a, a < 2 ^ 128 -> u_parse6 (u_std6 a) = Some a.
Theorem c17_ipv6_texts_read_back :
  forall a, a < 2 ^ 128 -> u_parse6 (u_url6 a) = Some a /\ u_parse6 (u_std6 a) = Some a.
Proof. intros a Ha. exact (conj (parse6_url6 a Ha) (parse6_std6 a Ha)). Qed.

Theorem c17_ipv6_text_shapes :
  forall a, forallb v6_char (u_url6 a) = true /\ hp_mem 58 (u_std6 a) = true /\ forallb v6_char (u_std6 a) = true.
Proof. intros a. exact (conj (proj1 (url6_shape_all a)) (std6_shape_all a)). Qed.

(** what the parsers return is an address *)
Theorem c17_parsed_addresses_in_range :
  (forall s a, u_parse4 s = Some a -> a < 2 ^ 32) /\ (forall s a, u_parse6 s = Some a -> a < 2 ^ 128).
Proof. exact (conj parse4_range parse6_range). Qed.

(** the fuel of the IPv6 parser's main loop (the length of the text) is never the reason for a rejection: any two
    amounts of fuel that cover the text give the same result *)
Theorem c17_ipv6_parser_fuel_suffices : forall f1 f2 (s : list N) acc comp,
  (List.length s <= f1)%nat -> (List.length s <= f2)%nat -> u_p6_loop f1 s acc comp = u_p6_loop f2 s acc comp.
Proof. exact p6_loop_fuel. Qed.

(** `Host::parse` on the fragment: whatever it returns, its printed form parses back to it; domains are non-empty,
    lower-case-stable and free of forbidden code points; the empty text and forbidden code points are refused *)
Check hparse_print_parse : forall t h, u_hparse t = Some (Some h) -> u_hparse (hshow u_std4 u_url6 h) = Some (Some h).
Theorem c17_host_parse_on_the_fragment :
  (forall t h, u_hparse t = Some (Some h) -> u_hparse (hshow u_std4 u_url6 h) = Some (Some h)) /\
  (forall t h, u_hparse t = Some (Some h) ->
     (exists a, h = HIp6 a /\ a < 2 ^ 128) \/ (exists a, h = HIp4 a /\ a < 4294967296) \/
     (exists d, h = HDomain d /\ hd_is 91 t = None)) /\
  (forall t d, hd_is 91 t = None -> u_hparse t = Some (Some (HDomain d)) ->
     u_hparse d = Some (Some (HDomain d)) /\ d <> [] /\ forallb (fun b => negb (hp_forbidden b)) d = true) /\
  u_hparse [] = Some None /\
  (forall t, hd_is 91 t = None -> existsb hp_forbidden t = true -> u_hparse t = Some None \/ u_hparse t = None).
Proof. exact (conj hparse_print_parse (conj hparse_cases (conj hparse_domain (conj eq_refl hparse_forbidden)))). Qed.

(** every field of [url_lib] holds for the concrete functions; the only residue is [ext_lib]: four facts about
    `Host::parse` outside the fragment, and the two facts about the regex digit class *)
Definition real_lib_statement := forall nd ext,
  (forall p, p <> [] -> forallb hp_is_dig p = true -> nd p = true) ->
  (forall p, nd p = true -> p <> [] /\ forallb (fun b => hp_is_dig b || (128 <=? b)) p = true) ->
  ext_lib ext -> url_lib nd (u_hparse_with ext) u_std4 u_std6 u_url6.
Check real_lib : real_lib_statement.
Theorem c17_library_hypotheses_proved : real_lib_statement.
Proof. exact real_lib. Qed.

(** ... and with nothing outside the fragment accepted, there is no residue at all *)
Theorem c17_library_instance_without_assumptions : url_lib u_ascii_nd (u_hparse_with u_no_ext) u_std4 u_std6 u_url6.
Proof. exact strict_lib. Qed.

(** C17 for IP literals and fragment domains, whatever `Host::parse` does elsewhere ([ext] is arbitrary): what was
    accepted at the command line, or is any host the fragment parser can return, survives printing and storing *)
Section IpCorollaries.
  Variable ext : list N -> option hp_host.
  Let P := HostPort.hp_parse u_ascii_nd (u_hparse_with ext).
  Let P0 := HostPort.hp_parse u_ascii_nd (u_hparse_with u_no_ext).
  Let D := HostPort.hp_display u_std4 u_url6.
  Let B := HostPort.hp_to_bencode u_std4 u_std6.
  Let U := HostPort.hp_from_bencode (u_hparse_with ext).
  Let U0 := HostPort.hp_from_bencode (u_hparse_with u_no_ext).

  Definition ip_printed_statement := forall h n,
    (exists t, u_hparse t = Some (Some h)) -> n <= 65535 -> P (D (h, n)) = HpOk (h, n).
  Definition ip_stored_statement := forall h n rest,
    (exists t, u_hparse t = Some (Some h)) -> n <= 65535 -> U (B (h, n) ++ rest) = Some (h, n).
  Definition ip_accepted_statement := forall s hp,
    P0 s = HpOk hp -> P s = HpOk hp /\ P (D hp) = HpOk hp /\ forall rest, U (B hp ++ rest) = Some hp.
  Definition ip_reread_statement := forall bs hp,
    U0 bs = Some hp -> U bs = Some hp /\ P (D hp) = HpOk hp /\ forall rest, U (B hp ++ rest) = Some hp.
End IpCorollaries.

Check ip_printed_form_parses_back : forall ext, ip_printed_statement ext.
Theorem c17_ip_printed_form_parses_back : forall ext, ip_printed_statement ext.
Proof. exact ip_printed_form_parses_back. Qed.

Theorem c17_ip_stored_pair_reads_back : forall ext, ip_stored_statement ext.
Proof. exact ip_stored_pair_reads_back. Qed.

Theorem c17_ip_accepted_values_survive : forall ext, ip_accepted_statement ext.
Proof. exact ip_accepted_values_survive. Qed.

Theorem c17_ip_reread_values_survive : forall ext, ip_reread_statement ext.
Proof. exact ip_reread_values_survive. Qed.

(** the concrete model runs: every spelling below is computed by the model of the url crate *)
Example c17_concrete_hosts :
  let H := u_hparse in
  let P := HostPort.hp_parse u_ascii_nd (u_hparse_with u_no_ext) in
  let D := HostPort.hp_display u_std4 u_url6 in
  let B := HostPort.hp_to_bencode u_std4 u_std6 in
  (* [::ffff:1.2.3.4] : the address; std prints ::ffff:1.2.3.4, the url crate ::ffff:102:304 *)
  H [91; 58; 58; 102; 102; 102; 102; 58; 49; 46; 50; 46; 51; 46; 52; 93] = Some (Some (HIp6 281470698652420)) /\
  u_std6 281470698652420 = [58; 58; 102; 102; 102; 102; 58; 49; 46; 50; 46; 51; 46; 52] /\
  u_url6 281470698652420 = [58; 58; 102; 102; 102; 102; 58; 49; 48; 50; 58; 51; 48; 52] /\
  (* 1:0:0:2:0:0:0:3 -> 1:0:0:2::3 (the first LONGEST run), 0:0:1:0:0:1:0:0 -> ::1:0:0:1:0:0 (the FIRST of equal runs) *)
  u_url6 (u_of_groups [1; 0; 0; 2; 0; 0; 0; 3]) = [49; 58; 48; 58; 48; 58; 50; 58; 58; 51] /\
  u_url6 (u_of_groups [0; 0; 1; 0; 0; 1; 0; 0]) = [58; 58; 49; 58; 48; 58; 48; 58; 49; 58; 48; 58; 48] /\
  u_std6 (u_of_groups [1; 0; 2; 3; 4; 5; 6; 7]) = [49; 58; 48; 58; 50; 58; 51; 58; 52; 58; 53; 58; 54; 58; 55] /\
  (* 0x7f.1 -> 127.0.0.1 ; 1.2.3.256 and 08.1 are errors; ExAmple.COM. is the domain example.com. *)
  H [48; 120; 55; 102; 46; 49] = Some (Some (HIp4 2130706433)) /\
  u_std4 2130706433 = [49; 50; 55; 46; 48; 46; 48; 46; 49] /\
  H [49; 46; 50; 46; 51; 46; 50; 53; 54] = Some None /\
  H [48; 56; 46; 49] = Some None /\
  H [69; 120; 65; 109; 46; 67; 79; 77; 46] = Some (Some (HDomain [101; 120; 97; 109; 46; 99; 111; 109; 46])) /\
  (* xn--a, a%41 and non-ASCII text are outside the fragment; [::1 and [:::] are errors *)
  H [120; 110; 45; 45; 97] = None /\ H [97; 37; 52; 49] = None /\ H [195; 169] = None /\
  H [91; 58; 58; 49] = Some None /\ H [91; 58; 58; 58; 93] = Some None /\
  (* [2001:db8::1]:6881 end to end through imdl's own logic over the concrete library *)
  P [91; 50; 48; 48; 49; 58; 100; 98; 56; 58; 58; 49; 93; 58; 54; 56; 56; 49] =
    HpOk (HIp6 42540766411282592856903984951653826561, 6881) /\
  D (HIp6 42540766411282592856903984951653826561, 6881) = [91; 50; 48; 48; 49; 58; 100; 98; 56; 58; 58; 49; 93; 58; 54; 56; 56; 49] /\
  B (HIp6 42540766411282592856903984951653826561, 6881) =
    [108; 49; 49; 58; 50; 48; 48; 49; 58; 100; 98; 56; 58; 58; 49; 105; 54; 56; 56; 49; 101; 101].
Proof. vm_compute. repeat split; reflexivity. Qed.

Example c17_ip_corollaries_inhabited :
  (exists t, u_hparse t = Some (Some (HIp6 1))) /\ (exists t, u_hparse t = Some (Some (HIp4 16909060))) /\
  (exists t, u_hparse t = Some (Some (HDomain [97; 46; 98]))) /\ ext_lib u_no_ext.
Proof.
  split; [exists [91; 58; 58; 49; 93]; reflexivity|]. split; [exists [49; 46; 50; 46; 51; 46; 52]; reflexivity|].
  split; [exists [65; 46; 98]; reflexivity|exact no_ext_lib].
Qed.

Print Assumptions c17_ipv4_text_reads_back.
Print Assumptions c17_ipv6_texts_read_back.
Print Assumptions c17_ipv6_text_shapes.
Print Assumptions c17_parsed_addresses_in_range.
Print Assumptions c17_ipv6_parser_fuel_suffices.
Print Assumptions c17_host_parse_on_the_fragment.
Print Assumptions c17_library_hypotheses_proved.
Print Assumptions c17_library_instance_without_assumptions.
Print Assumptions c17_ip_printed_form_parses_back.
Print Assumptions c17_ip_stored_pair_reads_back.
Print Assumptions c17_ip_accepted_values_survive.
Print Assumptions c17_ip_reread_values_survive.
Print Assumptions c17_concrete_hosts.
Print Assumptions c17_ip_corollaries_inhabited.

(** (T) the source still contains the regex, the format strings, the port type and the
    re-bracketing test that Model/HostPort.v mirrors *)
Theorem c17_source_is_what_the_model_mirrors :
  GenHostPort.translated = true /\
  GenHostPort.regex_tokens = ["^"; "(?P<host>.*?)"; ":"; "(?P<port>\d+?)"; "$"]%string /\
  GenHostPort.regex_flags = "x"%string /\
  GenHostPort.port_type = "u16"%string /\
  GenHostPort.display_format = "{}:{}"%string /\
  GenHostPort.tuple_fields = ["String"; "u16"]%string /\
  GenHostPort.tuple_hosts = ["domain.to_string()"; "ipv4.to_string()"; "ipv6.to_string()"]%string /\
  GenHostPort.rebracket_test = "tuple.0.contains(':')"%string /\
  GenHostPort.rebracket_format = "[{}]"%string /\
  GenHostPort.parse_order = ["Host::parse(host_text)"; "port_text.parse::<u16>()"]%string.
Proof. repeat split; reflexivity. Qed.

Print Assumptions c17_source_is_what_the_model_mirrors.
