(** Names (struct field names, table keys, small tokens) as byte lists with a string notation:
    ["action"%key]. Coq's own [string] is deliberately not used in extracted models — its extraction
    defines an OCaml type called [string], which would shadow OCaml's in the shared driver. *)
From Coq Require Import Strings.Byte List Bool.
Import ListNotations.

Inductive key := Key (cs : list Byte.byte).

Definition key_of_bytes (l : list Byte.byte) : key := Key l.
Definition bytes_of_key (k : key) : list Byte.byte := match k with Key l => l end.

Declare Scope key_scope.
Delimit Scope key_scope with key.
Bind Scope key_scope with key.
String Notation key key_of_bytes bytes_of_key : key_scope.

Fixpoint bytes_eqb (a b : list Byte.byte) : bool :=
  match a, b with
  | [], [] => true
  | x :: a', y :: b' => Byte.eqb x y && bytes_eqb a' b'
  | _, _ => false
  end.

Definition key_eqb (a b : key) : bool := bytes_eqb (bytes_of_key a) (bytes_of_key b).

Lemma bytes_eqb_eq a : forall b, bytes_eqb a b = true <-> a = b.
Proof.
  induction a as [|x a IH]; intros [|y b]; cbn [bytes_eqb]; split; intros H; try discriminate; try reflexivity.
  - apply andb_true_iff in H. destruct H as [Hx Hr].
    apply Byte.byte_dec_bl in Hx. apply IH in Hr. subst. reflexivity.
  - injection H as -> ->. apply andb_true_iff. split; [apply Byte.byte_dec_lb; reflexivity|apply IH; reflexivity].
Qed.

Lemma key_eqb_eq a b : key_eqb a b = true <-> a = b.
Proof.
  destruct a as [a], b as [b]. unfold key_eqb. cbn [bytes_of_key]. rewrite bytes_eqb_eq.
  split; intros H; [subst; reflexivity|injection H as ->; reflexivity].
Qed.

Lemma key_eqb_neq a b : key_eqb a b = false <-> a <> b.
Proof.
  split.
  - intros H E. apply key_eqb_eq in E. congruence.
  - intros H. destruct (key_eqb a b) eqn:E; [|reflexivity]. apply key_eqb_eq in E. contradiction.
Qed.

Lemma key_eqb_refl a : key_eqb a a = true.
Proof. apply key_eqb_eq. reflexivity. Qed.
