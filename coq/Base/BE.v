(** Big-endian fixed-width integers over byte lists and fixed-offset slices (C12; reusable by C11).
    Model-free. [be w n] = `n.to_be_bytes()` for a w-byte unsigned integer, [unbe l] =
    `uN::from_be_bytes(l)`; [slice a w l] = `l[a..a+w]` when in bounds. *)
From Coq Require Import NArith Lia Bool List ZifyN ZifyBool ZifyNat Arith.
Import ListNotations.
Local Open Scope N_scope.

Notation byte := N (only parsing).
Notation bytes := (list N) (only parsing).

(* little-endian recursion, reversed: makes the induction immediate *)
Fixpoint le (w : nat) (n : N) : bytes :=
  match w with O => [] | S w' => n mod 256 :: le w' (n / 256) end.
Fixpoint unle (l : bytes) : N := match l with [] => 0 | b :: r => b + 256 * unle r end.
Definition be (w : nat) (n : N) : bytes := rev (le w n).
Definition unbe (l : bytes) : N := unle (rev l).

Definition wf_bytes (l : bytes) : Prop := Forall (fun b => b < 256) l.

Definition slice (a w : nat) (l : bytes) : bytes := firstn w (skipn a l).

Lemma le_length w : forall n, length (le w n) = w.
Proof. induction w as [|w IH]; intros n; cbn [le length]; [reflexivity|]. rewrite IH. reflexivity. Qed.

Lemma be_length w n : length (be w n) = w.
Proof. unfold be. rewrite rev_length. apply le_length. Qed.

Lemma unle_le w : forall n, n < 256 ^ N.of_nat w -> unle (le w n) = n.
Proof.
  induction w as [|w IH]; intros n Hn.
  - cbn in *. lia.
  - cbn [le unle]. rewrite Nat2N.inj_succ, N.pow_succ_r' in Hn.
    rewrite IH by (apply N.div_lt_upper_bound; lia).
    pose proof (N.div_mod n 256 ltac:(lia)) as Hdm. lia.
Qed.

Theorem unbe_be w n : n < 256 ^ N.of_nat w -> unbe (be w n) = n.
Proof. intros H. unfold unbe, be. rewrite rev_involutive. apply unle_le. exact H. Qed.

Lemma le_wf w : forall n, wf_bytes (le w n).
Proof.
  induction w as [|w IH]; intros n; cbn [le]; constructor; [|apply IH].
  apply N.mod_lt. lia.
Qed.

Lemma be_wf w n : wf_bytes (be w n).
Proof. unfold be, wf_bytes. apply Forall_rev. apply le_wf. Qed.

Lemma unle_bound l : wf_bytes l -> unle l < 256 ^ N.of_nat (length l).
Proof.
  induction 1 as [|b r Hb Hr IH]; [cbn; lia|].
  cbn [unle length]. rewrite Nat2N.inj_succ, N.pow_succ_r'. lia.
Qed.

Lemma le_unle l : wf_bytes l -> le (length l) (unle l) = l.
Proof.
  induction 1 as [|b r Hb Hr IH]; [reflexivity|].
  cbn [unle length le].
  replace (b + 256 * unle r) with (b + unle r * 256) by lia.
  rewrite N.mod_add, N.div_add by lia.
  rewrite (N.mod_small b 256), (N.div_small b 256) by exact Hb.
  cbn [N.add]. rewrite IH. reflexivity.
Qed.

(** the other direction: well-formed bytes are determined by the integer they denote *)
Theorem be_unbe l : wf_bytes l -> be (length l) (unbe l) = l.
Proof.
  intros H. unfold be, unbe.
  assert (Hr : wf_bytes (rev l)) by (apply Forall_rev; exact H).
  rewrite <- (rev_length l). rewrite le_unle by exact Hr. apply rev_involutive.
Qed.

Lemma unbe_bound l : wf_bytes l -> unbe l < 256 ^ N.of_nat (length l).
Proof.
  intros H. unfold unbe. rewrite <- (rev_length l). apply unle_bound. apply Forall_rev. exact H.
Qed.

Lemma be_inj w n m : n < 256 ^ N.of_nat w -> m < 256 ^ N.of_nat w -> be w n = be w m -> n = m.
Proof. intros Hn Hm E. rewrite <- (unbe_be w n Hn), <- (unbe_be w m Hm), E. reflexivity. Qed.

(* ---------- slices ---------- *)
Lemma slice_length a w l : (a + w <= length l)%nat -> length (slice a w l) = w.
Proof. intros H. unfold slice. rewrite firstn_length, skipn_length. lia. Qed.

Lemma slice_app_here a l w : length a = w -> slice 0 w (a ++ l) = a.
Proof.
  intros <-. unfold slice. cbn [skipn].
  rewrite firstn_app, Nat.sub_diag, firstn_O, app_nil_r, firstn_all. reflexivity.
Qed.

Lemma slice_app_skip a l n i w : length a = n -> slice (n + i) w (a ++ l) = slice i w l.
Proof.
  intros <-. unfold slice. f_equal.
  rewrite skipn_app. rewrite skipn_all2 by lia. cbn [app]. f_equal. lia.
Qed.

Lemma Forall_firstn {A} (P : A -> Prop) n : forall l, Forall P l -> Forall P (firstn n l).
Proof.
  induction n as [|n IH]; intros l H; [constructor|].
  destruct H as [|x l Hx Hl]; cbn [firstn]; constructor; [exact Hx|apply IH; exact Hl].
Qed.

Lemma Forall_skipn {A} (P : A -> Prop) n : forall l, Forall P l -> Forall P (skipn n l).
Proof.
  induction n as [|n IH]; intros l H; [exact H|].
  destruct H as [|x l Hx Hl]; cbn [skipn]; [constructor|apply IH; exact Hl].
Qed.

Lemma slice_wf a w l : wf_bytes l -> wf_bytes (slice a w l).
Proof. intros H. unfold slice, wf_bytes. apply Forall_firstn, Forall_skipn. exact H. Qed.
