(** The specification of piece cutting shared by the hasher (C01) and verifier (C02, C03, C13)
    models: [chunks p l] = consecutive p-element blocks of l, last one possibly shorter,
    no block for the empty list. Generic in the element type. *)
From Coq Require Import List Arith Lia.
Import ListNotations.

Section Chunks.
Context {A : Type}.

Fixpoint chunks_fuel (fuel p : nat) (l : list A) : list (list A) :=
  match fuel with
  | O => []
  | S f => match l with [] => [] | _ => firstn p l :: chunks_fuel f p (skipn p l) end
  end.

Definition chunks (p : nat) (l : list A) : list (list A) := chunks_fuel (length l) p l.

Lemma concat_chunks_fuel p (Hp : 0 < p) :
  forall fuel l, length l <= fuel -> concat (chunks_fuel fuel p l) = l.
Proof.
  induction fuel as [|f IH]; intros l Hl.
  - destruct l; [reflexivity|cbn in Hl; lia].
  - cbn [chunks_fuel]. destruct l as [|x l']; [reflexivity|].
    cbn [concat]. rewrite IH.
    + apply firstn_skipn.
    + rewrite skipn_length. cbn [length] in *. lia.
Qed.

Lemma concat_chunks p l : 0 < p -> concat (chunks p l) = l.
Proof. intros Hp. apply concat_chunks_fuel; [exact Hp|lia]. Qed.

(** more fuel than the length changes nothing *)
Lemma chunks_fuel_irrel p (Hp : 0 < p) :
  forall f1 f2 l, length l <= f1 -> length l <= f2 -> chunks_fuel f1 p l = chunks_fuel f2 p l.
Proof.
  induction f1 as [|f1 IH]; intros f2 l H1 H2.
  - destruct l; [|cbn in H1; lia]. destruct f2; reflexivity.
  - destruct l as [|x l']; [destruct f2; reflexivity|].
    destruct f2 as [|f2]; [cbn in H2; lia|].
    cbn [chunks_fuel]. f_equal.
    assert (Hs : length (skipn p (x :: l')) <= length l').
    { rewrite skipn_length. cbn [length]. lia. }
    cbn [length] in H1, H2. apply IH; lia.
Qed.

Lemma chunks_fuel_enough p (Hp : 0 < p) :
  forall fuel l, length l <= fuel -> chunks_fuel fuel p l = chunks p l.
Proof. intros fuel l Hl. unfold chunks. apply chunks_fuel_irrel; [exact Hp|exact Hl|lia]. Qed.

Lemma chunks_nil p : chunks p [] = [].
Proof. reflexivity. Qed.

Lemma chunks_cons p (Hp : 0 < p) x l :
  chunks p (x :: l) = firstn p (x :: l) :: chunks p (skipn p (x :: l)).
Proof.
  unfold chunks at 1. cbn [length chunks_fuel]. f_equal.
  apply chunks_fuel_enough; [exact Hp|]. rewrite skipn_length. cbn [length]. lia.
Qed.

(** a full first block followed by the rest *)
Lemma chunks_app_full p (Hp : 0 < p) b l :
  length b = p -> chunks p (b ++ l) = b :: chunks p l.
Proof.
  intros Hb. destruct b as [|x b']; [cbn in Hb; lia|].
  change ((x :: b') ++ l) with (x :: (b' ++ l)).
  rewrite chunks_cons by exact Hp.
  change (x :: b' ++ l) with ((x :: b') ++ l).
  rewrite firstn_app, skipn_app, Hb, Nat.sub_diag, firstn_all2, skipn_all2 by lia.
  cbn [firstn skipn app]. rewrite app_nil_r. reflexivity.
Qed.

(** a short (non-empty) tail is one block *)
Lemma chunks_short p l : l <> [] -> length l <= p -> chunks p l = [l].
Proof.
  intros Hne Hl. destruct l as [|x l']; [congruence|].
  assert (Hp : 0 < p) by (cbn [length] in Hl; lia).
  rewrite chunks_cons by exact Hp.
  rewrite firstn_all2, skipn_all2 by exact Hl. reflexivity.
Qed.

(** blocks of a concatenation of full blocks followed by a short remainder *)
Lemma chunks_concat_full p (Hp : 0 < p) full rest :
  Forall (fun b => length b = p) full -> length rest < p ->
  chunks p (concat full ++ rest) = full ++ match rest with [] => [] | _ => [rest] end.
Proof.
  intros Hf Hr. induction Hf as [|b full' Hb _ IH].
  - cbn [concat app]. destruct rest as [|x r]; [reflexivity|].
    apply chunks_short; [discriminate|lia].
  - cbn [concat]. rewrite <- app_assoc. rewrite chunks_app_full by assumption.
    rewrite IH. reflexivity.
Qed.

Lemma chunks_all_le p (Hp : 0 < p) : forall l, Forall (fun b => length b <= p /\ b <> []) (chunks p l).
Proof.
  intros l. remember (length l) as n eqn:En. revert l En.
  induction n as [n IH] using lt_wf_ind. intros l En.
  destruct l as [|x l']; [constructor|].
  rewrite chunks_cons by exact Hp. constructor.
  - split; [rewrite firstn_length; lia|]. destruct p; [lia|]. discriminate.
  - eapply IH; [|reflexivity]. subst n. rewrite skipn_length. cbn [length]. lia.
Qed.

Lemma length_chunks p (Hp : 0 < p) : forall l, length (chunks p l) = (length l + p - 1) / p.
Proof.
  intros l. remember (length l) as n eqn:En. revert l En.
  induction n as [n IH] using lt_wf_ind. intros l En.
  destruct l as [|x l'].
  - cbn in En. subst n. cbn [chunks chunks_fuel length]. symmetry. apply Nat.div_small. lia.
  - rewrite chunks_cons by exact Hp. cbn [length].
    erewrite IH; [| |reflexivity]; [|subst n; rewrite skipn_length; cbn [length]; lia].
    rewrite skipn_length. subst n. set (m := length (x :: l')).
    assert (Hm : 0 < m) by (unfold m; cbn [length]; lia).
    destruct (Nat.le_gt_cases m p) as [Hle|Hgt].
    + replace (m - p) with 0 by lia. replace (0 + p - 1) with (p - 1) by lia.
      rewrite Nat.div_small by lia.
      replace (m + p - 1) with (1 * p + (m - 1)) by lia.
      rewrite Nat.div_add_l by lia. rewrite Nat.div_small by lia. lia.
    + replace (m + p - 1) with (1 * p + (m - p + p - 1)) by lia.
      rewrite Nat.div_add_l by lia. lia.
Qed.
End Chunks.
