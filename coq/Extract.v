(** Extraction of the executable models for the correspondence runs.
    ExtrOcamlBasic only: bool, option, unit, list, prod, sumbool, sumor map to OCaml's;
    no Extract Constant; N / Z / positive / nat stay Coq inductives. *)
From Coq Require Import NArith ZArith List.
From Coq Require Extraction ExtrOcamlBasic.
From Imdl Require Import Model.Float53 Model.Picker.

Extraction Language OCaml.
Extraction "../runner/model.ml"
  N.add N.mul N.div_eucl N.of_nat N.to_nat Z.of_N Z.to_N Z.opp
  Float53.round53
  Picker.pick.
