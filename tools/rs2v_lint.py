"""rs2v plug-in for C14: GenLint.v.

Re-reads, on every run, the table-like facts the lint model (coq/Model/Lint.v) relies on:

* src/lint.rs      the `Lint` enum, its variants in declaration order and their kebab-case names
                   (strum `serialize_all = "kebab-case"`, `name()` = `IntoStaticStr`);
* src/error.rs     the `Error::lint` map (error variant -> lint variant, everything else `None`);
* src/linter.rs    `is_allowed` = set membership, `is_denied` = its negation, `allow` = set extension;
* src/subcommand/torrent/create.rs  the early-return checks of `Create::run` in source order, each with
                   the lint that guards it (if any) and a tag for its condition; the small-piece threshold;
                   the position of `as_piece_length()?` (after all checks and the output-exists test,
                   before the first write); `piece_length: content.piece_length` in the `Info` literal;
* src/bytes.rs     `as_piece_length` = `try_into::<u32>()` with `PieceLengthTooLarge`;
* src/env.rs       the `note:` line is printed exactly when `error.lint()` is `Some`, names `lint.name()`,
                   and every non-clap error returns `EXIT_FAILURE`.

Narrow grammar throughout: anything that does not match raises Untranslatable, which makes rs2v emit
the fallback (`translated = false`, neutral values) so that the obligations in Properties/C14.v fail.
"""
import re, sys

# share rs2v's own Untranslatable class whether rs2v runs as a script (__main__) or is imported
_rs = sys.modules["__main__"] if hasattr(sys.modules.get("__main__"), "Untranslatable") else __import__("rs2v")
Untranslatable, read, strip_tests, strip_comments, coq_string = (
    _rs.Untranslatable, _rs.read, _rs.strip_tests, _rs.strip_comments, _rs.coq_string)


def norm(s):
    return " ".join(s.split())


def kebab(ident):
    parts = re.findall(r"[A-Z][a-z]+", ident)
    if "".join(parts) != ident:
        raise Untranslatable("variant %r is not plain CamelCase" % ident)
    return "-".join(p.lower() for p in parts)


def fn_body(src, header_re, what):
    """text between the braces of the first fn whose header matches (brace counting)"""
    m = re.search(header_re, src)
    if not m:
        raise Untranslatable(what + " not found")
    i = src.index("{", m.end() - 1)
    depth, j = 0, i
    while j < len(src):
        if src[j] == "{":
            depth += 1
        elif src[j] == "}":
            depth -= 1
            if depth == 0:
                return src[i + 1:j]
        j += 1
    raise Untranslatable(what + ": unbalanced braces")


def strip_cfg_test_blocks(src):
    """remove `#[cfg(test)] { ... }` statement blocks (not compiled into the binary)"""
    while True:
        m = re.search(r"#\[cfg\(test\)\]\s*\{", src)
        if not m:
            return src
        depth, j = 0, m.end() - 1
        while j < len(src):
            if src[j] == "{":
                depth += 1
            elif src[j] == "}":
                depth -= 1
                if depth == 0:
                    break
            j += 1
        else:
            raise Untranslatable("unbalanced #[cfg(test)] block")
        src = src[:m.start()] + src[j + 1:]


# condition text (whitespace-normalised, after the optional `linter.is_denied(Lint::X) && ` prefix) -> tag
COND_TAGS = [
    (r"self\.private && self\.announce\.is_none\(\)", "private-and-no-announce"),
    (r"content\.piece_length\.count\(\) == 0", "piece-length-eq-0"),
    (r"!content\.piece_length\.count\(\)\.is_power_of_two\(\)", "piece-length-not-power-of-two"),
    (r"content\.piece_length\.count\(\) < (\d+) \* (\d+)", "piece-length-lt-threshold"),
    (r"!self\.force && path\.exists\(\)", "output-exists"),
]


def gen_lint(repo):
    # ---- src/lint.rs
    src = strip_comments(strip_tests(read(repo, "src/lint.rs")))
    m = re.search(r"#\[strum\(serialize_all = \"kebab-case\"\)\]\s*pub\(crate\) enum Lint \{(.*?)\}", src, re.S)
    if not m:
        raise Untranslatable("enum Lint with strum kebab-case not found")
    if "IntoStaticStr" not in src[:m.start()] or "EnumString" not in src[:m.start()]:
        raise Untranslatable("Lint no longer derives IntoStaticStr/EnumString")
    variants = [v.strip() for v in m.group(1).split(",") if v.strip()]
    for v in variants:
        if not re.fullmatch(r"[A-Za-z]+", v):
            raise Untranslatable("Lint variant %r carries attributes or data" % v)
    if norm(fn_body(src, r"pub\(crate\) fn name\(self\) -> &'static str \{", "Lint::name")) != "self.into()":
        raise Untranslatable("Lint::name is not `self.into()`")
    names = [(v, kebab(v)) for v in variants]

    # ---- src/error.rs  fn lint
    esrc = strip_comments(strip_tests(read(repo, "src/error.rs")))
    body = norm(fn_body(esrc, r"pub\(crate\) fn lint\(&self\) -> Option<Lint> \{", "Error::lint"))
    mm = re.fullmatch(r"match self \{ (.*) \}", body)
    if not mm:
        raise Untranslatable("Error::lint is not a single match: %r" % body)
    arms = [a.strip() for a in mm.group(1).split(",") if a.strip()]
    emap, default_none = [], False
    for a in arms:
        am = re.fullmatch(r"Self::(\w+)(?: \{ \.\. \})? => Some\(Lint::(\w+)\)", a)
        if am:
            if default_none:
                raise Untranslatable("arm after the wildcard in Error::lint")
            emap.append((am.group(1), am.group(2)))
        elif a == "_ => None":
            default_none = True
        else:
            raise Untranslatable("Error::lint arm %r" % a)
    if not default_none:
        raise Untranslatable("Error::lint has no `_ => None` arm")
    for _, l in emap:
        if l not in variants:
            raise Untranslatable("Error::lint names unknown lint %s" % l)

    # ---- src/linter.rs
    lsrc = strip_comments(strip_tests(read(repo, "src/linter.rs")))
    if not re.search(r"pub\(crate\) struct Linter \{\s*allowed: BTreeSet<Lint>,\s*\}", lsrc):
        raise Untranslatable("Linter is not { allowed: BTreeSet<Lint> }")
    if norm(fn_body(lsrc, r"pub\(crate\) fn new\(\) -> Linter \{", "Linter::new")) != "Linter { allowed: BTreeSet::new(), }":
        raise Untranslatable("Linter::new does not start from the empty set")
    if norm(fn_body(lsrc, r"pub\(crate\) fn allow\(&mut self, allowed: impl IntoIterator<Item = Lint>\) \{", "Linter::allow")) \
            != "self.allowed.extend(allowed);":
        raise Untranslatable("Linter::allow is not set extension")
    if norm(fn_body(lsrc, r"pub\(crate\) fn is_allowed\(&self, lint: Lint\) -> bool \{", "Linter::is_allowed")) \
            != "self.allowed.contains(&lint)":
        raise Untranslatable("Linter::is_allowed is not set membership")
    if norm(fn_body(lsrc, r"pub\(crate\) fn is_denied\(&self, lint: Lint\) -> bool \{", "Linter::is_denied")) \
            != "!self.is_allowed(lint)":
        raise Untranslatable("Linter::is_denied is not the negation of is_allowed")

    # ---- src/subcommand/torrent/create.rs  Create::run
    csrc = strip_comments(strip_tests(read(repo, "src/subcommand/torrent/create.rs")))
    run = norm(strip_cfg_test_blocks(fn_body(csrc, r"pub\(crate\) fn run\(self, env: &mut Env, options: &Options\) -> Result<\(\), Error> \{", "Create::run")))
    if "let mut linter = Linter::new(); linter.allow(self.allowed_lints.iter().copied());" not in run:
        raise Untranslatable("Create::run does not build the linter from --allow as expected")
    if len(re.findall(r"\blinter\b", run)) != 2 + len(re.findall(r"linter\.is_denied\(", run)):
        raise Untranslatable("Create::run uses the linter in a way the translator does not know")
    checks, threshold = [], None
    for cm in re.finditer(r"if ([^{}]*?) \{ return Err\(Error::(\w+)(?: \{[^{}]*\})?\); \}", run):
        cond, err = cm.group(1), cm.group(2)
        guard = None
        gm = re.match(r"linter\.is_denied\(Lint::(\w+)\) && ", cond)
        if gm:
            guard, cond = gm.group(1), cond[gm.end():]
        for pat, tag in COND_TAGS:
            tm = re.fullmatch(pat, cond)
            if tm:
                if tag == "piece-length-lt-threshold":
                    threshold = int(tm.group(1)) * int(tm.group(2))
                checks.append((err, guard, tag, cm.start()))
                break
        else:
            raise Untranslatable("Create::run: unknown early-return condition %r for Error::%s" % (cond, err))
    if len(re.findall(r"return Err\(", run)) != len(checks):
        raise Untranslatable("Create::run has an early return the translator did not parse")
    if len(re.findall(r"linter\.is_denied\(", run)) != sum(1 for c in checks if c[1]):
        raise Untranslatable("a linter.is_denied call outside a parsed check")
    if threshold is None:
        raise Untranslatable("small-piece-length threshold not found")
    hp = [h.start() for h in re.finditer(r"content\.piece_length\.as_piece_length\(\)\?", run)]
    if len(hp) != 1:
        raise Untranslatable("expected exactly one `content.piece_length.as_piece_length()?` in Create::run")
    writes = [w.start() for w in re.finditer(r"open_options|write_all\(", run)]
    if not writes:
        raise Untranslatable("no write site found in Create::run")
    as_pl_after_checks = all(c[3] < hp[0] for c in checks) and hp[0] < min(writes)
    if len(re.findall(r"\bpiece_length: content\.piece_length,", run)) != 1:
        raise Untranslatable("Info literal does not take piece_length from content.piece_length")
    # the piece length that is checked is the one given on the command line
    ccsrc = strip_comments(strip_tests(read(repo, "src/subcommand/torrent/create/create_content.rs")))
    given = (len(re.findall(r"create\s*\.piece_length\s*\.unwrap_or_else\(\|\| PieceLengthPicker::from_content_size\(files\.total_size\(\)\)\)", ccsrc)) == 1
             and len(re.findall(r"create\.piece_length\.unwrap_or\(Bytes::kib\(\) \* 256\)", ccsrc)) == 1)
    if not given:
        raise Untranslatable("CreateContent does not take --piece-length verbatim when it is given")

    # ---- src/bytes.rs  as_piece_length
    bsrc = strip_comments(strip_tests(read(repo, "src/bytes.rs")))
    bm = re.search(r"pub\(crate\) fn as_piece_length\(self\) -> Result<u(\d+)> \{", bsrc)
    if not bm:
        raise Untranslatable("Bytes::as_piece_length signature")
    bits = int(bm.group(1))
    bbody = norm(fn_body(bsrc, r"pub\(crate\) fn as_piece_length\(self\) -> Result<u\d+> \{", "as_piece_length"))
    bb = re.fullmatch(r"self \.count\(\) \.try_into\(\) \.context\(error::(\w+) \{ bytes: self \}\)", bbody)
    if not bb:
        raise Untranslatable("as_piece_length body %r" % bbody)
    too_large = bb.group(1)

    # ---- src/env.rs  Env::status
    vsrc = strip_comments(strip_tests(read(repo, "src/env.rs")))
    st = norm(fn_body(vsrc, r"pub\(crate\) fn status\(&mut self\) -> Result<\(\), i32> \{", "Env::status"))
    nm = re.search(r"if let Some\(lint\) = error\.lint\(\) \{ writeln!\( &mut self\.err, \"(.*?)\", "
                   r"style\.message\(\)\.paint\(\"(\w+)\"\), lint\.name\(\) \) \.ok\(\); \} Err\(EXIT_FAILURE\) \}", st)
    if not nm:
        raise Untranslatable("Env::status: note line / exit code not in the expected shape")
    if not re.search(r"pub\(crate\) use libc::EXIT_FAILURE;", read(repo, "src/common.rs")):
        raise Untranslatable("EXIT_FAILURE is not libc's")
    fmt, label = nm.group(1), nm.group(2)
    fm = re.fullmatch(r"\{\}(.*)\{\}(.*)", fmt)
    if not fm:
        raise Untranslatable("note format %r" % fmt)

    def opt(s):
        return "None" if s is None else "Some " + coq_string(s)

    out = "Definition translated : bool := true.\n"
    out += "(* enum Lint: (variant, kebab-case name), declaration order *)\n"
    out += "Definition lint_names : list (string * string) :=\n  [ " + ";\n    ".join(
        "(%s, %s)" % (coq_string(v), coq_string(k)) for v, k in names) + " ].\n"
    out += "(* Error::lint: (error variant, lint variant); every other error maps to None *)\n"
    out += "Definition error_lint : list (string * string) :=\n  [ " + ";\n    ".join(
        "(%s, %s)" % (coq_string(e), coq_string(l)) for e, l in emap) + " ].\n"
    out += "(* Create::run early returns in source order: (error, guarding lint, condition tag) *)\n"
    out += "Definition create_checks : list (string * option string * string) :=\n  [ " + ";\n    ".join(
        "(%s, %s, %s)" % (coq_string(e), opt(g), coq_string(t)) for e, g, t, _ in checks) + " ].\n"
    out += "Definition small_threshold : N := %d.\n" % threshold
    out += "Definition as_piece_length_bits : N := %d.\n" % bits
    out += "Definition as_piece_length_error : string := %s.\n" % coq_string(too_large)
    out += "(* as_piece_length()? sits after every early return above and before the first write *)\n"
    out += "Definition as_piece_length_after_checks : bool := %s.\n" % ("true" if as_pl_after_checks else "false")
    out += "Definition exit_failure : N := 1.\n"
    out += "Definition note_label : string := %s.\n" % coq_string(label)
    out += "Definition note_middle : string := %s.\n" % coq_string(fm.group(1))
    out += "Definition note_end : string := %s.\n" % coq_string(fm.group(2))
    return out


def gen_lint_fallback():
    return ("Definition translated : bool := false.\n"
            "Definition lint_names : list (string * string) := [].\n"
            "Definition error_lint : list (string * string) := [].\n"
            "Definition create_checks : list (string * option string * string) := [].\n"
            "Definition small_threshold : N := 0.\nDefinition as_piece_length_bits : N := 0.\n"
            "Definition as_piece_length_error : string := \"\"%string.\n"
            "Definition as_piece_length_after_checks : bool := false.\n"
            "Definition exit_failure : N := 0.\nDefinition note_label : string := \"\"%string.\n"
            "Definition note_middle : string := \"\"%string.\nDefinition note_end : string := \"\"%string.\n")


GENERATORS = {
    "GenLint": (gen_lint, gen_lint_fallback,
                "src/lint.rs, src/error.rs, src/linter.rs, src/subcommand/torrent/create.rs, src/bytes.rs, src/env.rs"),
}
