"""rs2v plug-in for C12: src/tracker/{connect,announce,action,client}.rs -> coq/Generated/GenTracker.v

Narrow grammar (anything else is Untranslatable, which makes `GenTracker.translated = true` fail):
  * `pub(crate) struct Request|Response { pub(crate) NAME: u64|u32|u16|[u8; K], ... }`
  * `impl Request|Response { const NAME: T = <int literal>; ... }`
  * `fn new(..) -> Self { [let mut rng = ..;] Self { FIELD: <init>, .. } }` where <init> is an integer literal,
    `u64::MAX`/`u32::MAX`/`u16::MAX`, `Self::CONST`, `tracker::Action::X.into()`, `rng.gen()` /
    `rand::thread_rng().gen()`, a parameter (`name` shorthand, `name`, `name.into()`)
  * `serialize` bodies that are `let mut msg = Vec::new();` then a sequence of
    `msg.extend_from_slice(&self.F.to_be_bytes());` | `msg.extend_from_slice(&self.F);` then `msg`
  * `deserialize` bodies: `if buf.len() <|!=|<= <X>::LENGTH { return Err(..); }` then
    `Ok(( <Struct> { F: uN::from_be_bytes(buf[a..b] .try_into() .invariant_unwrap(..)), | F: buf[a..b]..., }, &buf[Self::LENGTH..], ))`
  * trait getters `fn transaction_id(&self) -> u32 { self.transaction_id }`, `fn action(&self) -> u32 { self.action }`
  * action.rs: `Action::X => <int>,` arms of `impl From<Action> for u32`
  * client.rs: `const RX_BUF_LEN: usize = N;`, the single `for _ in 0..N {` of `exchange`, the two receive buffers,
    `let stride = if is_ipv6 { A } else { B };`, the `len_read == 0` test and the transaction-id/action comparison.
"""
import re
from rs2v import Untranslatable, read, strip_tests, strip_comments

WIDTH = {"u64": 8, "u32": 4, "u16": 2, "u8": 1}
MAXV = {"u64::MAX": (1 << 64) - 1, "u32::MAX": (1 << 32) - 1, "u16::MAX": (1 << 16) - 1}


def intlit(t):
    t = t.strip().replace("_", "")
    if re.fullmatch(r"0x[0-9a-fA-F]+", t):
        return int(t, 16)
    if re.fullmatch(r"[0-9]+", t):
        return int(t)
    return None


def block_after(src, start):
    """text of the brace block whose '{' is the first one at/after index `start` (without the braces)"""
    i = src.find("{", start)
    if i < 0:
        raise Untranslatable("no block")
    depth, j = 0, i
    while j < len(src):
        if src[j] == "{":
            depth += 1
        elif src[j] == "}":
            depth -= 1
            if depth == 0:
                return src[i + 1:j]
        j += 1
    raise Untranslatable("unbalanced braces")


def find_block(src, header_re, what):
    m = re.search(header_re, src)
    if not m:
        raise Untranslatable("%s not found" % what)
    return block_after(src, m.start())


def struct_fields(src, name):
    body = find_block(src, r"pub\(crate\) struct %s\s*\{" % name, "struct " + name)
    out = []
    for part in body.split(","):
        part = " ".join(part.split())
        if not part:
            continue
        m = re.fullmatch(r"pub\(crate\) (\w+): (u64|u32|u16|u8|\[u8; (\d+)\])", part)
        if not m:
            raise Untranslatable("struct %s field %r" % (name, part))
        if m.group(3):
            out.append((m.group(1), int(m.group(3)), False))
        else:
            out.append((m.group(1), WIDTH[m.group(2)], True))
    return out


def impl_consts(src, name):
    body = find_block(src, r"\nimpl %s\s*\{" % name, "impl " + name)
    out = {}
    for m in re.finditer(r"const (\w+): \w+ = ([^;]+);", body):
        v = intlit(m.group(2))
        if v is None:
            raise Untranslatable("constant %s = %r" % (m.group(1), m.group(2)))
        out[m.group(1)] = v
    return out, body


def new_inits(impl_body, consts, fields, params_expected):
    m = re.search(r"fn new\(([^)]*)\) -> Self", impl_body)
    if not m:
        raise Untranslatable("fn new")
    params = [p.split(":")[0].strip() for p in m.group(1).split(",") if p.strip()]
    body = block_after(impl_body, m.end())
    rng_names = set()
    for lm in re.finditer(r"let (?:mut )?(\w+) = rand::thread_rng\(\);", body):
        rng_names.add(lm.group(1))
    sm = re.search(r"\bSelf\s*\{", body)
    if not sm:
        raise Untranslatable("fn new: no Self { .. }")
    lit = block_after(body, sm.start())
    rest = (body[:sm.start()] + body[sm.start() + len("Self") :].replace("{" + lit + "}", "", 1)).strip()
    rest = re.sub(r"let (?:mut )?\w+ = rand::thread_rng\(\);", "", rest).strip()
    if rest:
        raise Untranslatable("fn new has statements I cannot translate: %r" % rest)
    out = []
    for part in lit.split(","):
        part = " ".join(part.split())
        if not part:
            continue
        if ":" in part.replace("::", "  "):
            k = part.replace("::", "\0\0").index(":")
            name, e = part[:k].strip(), part[k + 1:].strip()
        else:
            name, e = part, part
        if e in MAXV:
            out.append((name, "lit", "", MAXV[e]))
        elif intlit(e) is not None:
            out.append((name, "lit", "", intlit(e)))
        elif re.fullmatch(r"Self::(\w+)", e):
            c = e[6:]
            if c not in consts:
                raise Untranslatable("unknown constant " + c)
            out.append((name, "lit", "", consts[c]))
        elif re.fullmatch(r"tracker::Action::(\w+)\.into\(\)", e):
            out.append((name, "action", re.fullmatch(r"tracker::Action::(\w+)\.into\(\)", e).group(1), 0))
        elif e == "rand::thread_rng().gen()" or (re.fullmatch(r"(\w+)\.gen\(\)", e) and e.split(".")[0] in rng_names):
            out.append((name, "random", "", 0))
        elif re.fullmatch(r"\*?(\w+)(\.into\(\))?", e) and re.fullmatch(r"\*?(\w+)(\.into\(\))?", e).group(1) in params:
            out.append((name, "param", re.fullmatch(r"\*?(\w+)(\.into\(\))?", e).group(1), 0))
        else:
            raise Untranslatable("initialiser %s: %r" % (name, e))
    if [n for n, *_ in out] != [n for n, _, _ in fields]:
        raise Untranslatable("fn new does not initialise the struct's fields in order")
    if sorted(params) != sorted(params_expected):
        raise Untranslatable("fn new parameters %r (expected %r)" % (params, params_expected))
    return out


def serialize_layout(src, struct, fields):
    body = find_block(src, r"impl super::Request for %s\s*\{" % struct, "impl Request for " + struct)
    m = re.search(r"fn serialize\(&self\) -> Vec<u8>", body)
    if not m:
        raise Untranslatable("serialize of " + struct)
    sb = block_after(body, m.end())
    stmts = [" ".join(s.split()) for s in sb.split(";")]
    stmts = [s for s in stmts if s]
    if not stmts or stmts[0] != "let mut msg = Vec::new()" or stmts[-1] != "msg":
        raise Untranslatable("serialize of %s: unexpected frame %r" % (struct, stmts[:1] + stmts[-1:]))
    fd = {n: (w, k) for n, w, k in fields}
    lay = []
    for s in stmts[1:-1]:
        a = re.fullmatch(r"msg\.extend_from_slice\(&self\.(\w+)\.to_be_bytes\(\)\)", s)
        b = re.fullmatch(r"msg\.extend_from_slice\(&self\.(\w+)\)", s)
        if a and a.group(1) in fd and fd[a.group(1)][1]:
            lay.append((a.group(1), fd[a.group(1)][0], True))
        elif b and b.group(1) in fd and not fd[b.group(1)][1]:
            lay.append((b.group(1), fd[b.group(1)][0], False))
        else:
            raise Untranslatable("serialize of %s: statement %r" % (struct, s))
    getters(body, "Request for " + struct)
    return lay


def getters(body, what):
    for g in ("transaction_id", "action"):
        m = re.search(r"fn %s\(&self\) -> u32\s*\{\s*self\.(\w+)\s*\}" % g, body)
        if not m or m.group(1) != g:
            raise Untranslatable("%s: getter %s does not return self.%s" % (what, g, g))


def deserialize_table(src, struct, fields, length_of):
    body = find_block(src, r"impl super::Response for %s\s*\{" % struct, "impl Response for " + struct)
    m = re.search(r"fn deserialize\(buf: &\[u8\]\) -> Result<\(Self, &\[u8\]\)>", body)
    if not m:
        raise Untranslatable("deserialize of " + struct)
    db = " ".join(block_after(body, m.end()).split())
    g = re.match(r"if buf\.len\(\) (<|!=|<=) (\w+)::LENGTH \{ return Err\(.*?\); \} Ok\(\( (\w+) \{ (.*) \}, &buf\[(\w+)::LENGTH\.\.\], \)\)$", db)
    if not g:
        raise Untranslatable("deserialize of %s: unexpected shape" % struct)
    op = {"<": "lt", "!=": "ne", "<=": "le"}[g.group(1)]
    for who in (g.group(2), g.group(3), g.group(5)):
        if who not in ("Self", struct):
            raise Untranslatable("deserialize of %s refers to %s" % (struct, who))
    fd = {n: (w, k) for n, w, k in fields}
    tbl = []
    items = re.findall(r"(\w+): (?:(u64|u32|u16)::from_be_bytes\( )?buf\[(\d+)\.\.(\d+)\] \.try_into\(\) \.invariant_unwrap\(\"[^\"]*\"\),?(?: \),)?", g.group(4))
    consumed = re.sub(r"(\w+): (?:(u64|u32|u16)::from_be_bytes\( )?buf\[(\d+)\.\.(\d+)\] \.try_into\(\) \.invariant_unwrap\(\"[^\"]*\"\),?(?: \),)?", "", g.group(4)).strip()
    if consumed:
        raise Untranslatable("deserialize of %s: leftover %r" % (struct, consumed[:80]))
    for name, ty, a, b in items:
        a, b = int(a), int(b)
        if name not in fd:
            raise Untranslatable("deserialize of %s: unknown field %s" % (struct, name))
        w, isint = fd[name]
        if isint != bool(ty) or (ty and WIDTH[ty] != w) or b - a != w:
            raise Untranslatable("deserialize of %s: field %s width/type mismatch" % (struct, name))
        tbl.append((name, a, b))
    if [n for n, _, _ in tbl] != [n for n, _, _ in fields]:
        raise Untranslatable("deserialize of %s does not fill the fields in order" % struct)
    getters(body, "Response for " + struct)
    return op, tbl


def cs(s):
    return '"%s"' % s


def gen_tracker(repo):
    con = strip_comments(strip_tests(read(repo, "src/tracker/connect.rs")))
    ann = strip_comments(strip_tests(read(repo, "src/tracker/announce.rs")))
    act = strip_comments(strip_tests(read(repo, "src/tracker/action.rs")))
    cli = strip_comments(strip_tests(read(repo, "src/tracker/client.rs")))

    # action codes
    ab = find_block(act, r"impl From<Action> for u32\s*\{", "impl From<Action> for u32")
    actions = [(m.group(1), intlit(m.group(2))) for m in re.finditer(r"Action::(\w+) => ([0-9a-fA-Fx_]+),", ab)]
    if len(actions) < 2 or any(v is None for _, v in actions):
        raise Untranslatable("action table")

    out = "From Imdl Require Import Base.Key.\nLocal Open Scope key_scope.\nDefinition translated : bool := true.\n\n"
    out += "(* Action -> u32 (src/tracker/action.rs) *)\nDefinition action_codes : list (key * N) :=\n  [%s].\n\n" % "; ".join(
        "(%s, %d%%N)" % (cs(n), v) for n, v in actions)

    def one(src, prefix, params):
        nonlocal out
        rf = struct_fields(src, "Request")
        sf = struct_fields(src, "Response")
        rc, rbody = impl_consts(src, "Request")
        sc, _ = impl_consts(src, "Response")
        if "LENGTH" not in rc or "LENGTH" not in sc:
            raise Untranslatable(prefix + ": LENGTH constants")
        lay = serialize_layout(src, "Request", rf)
        inits = new_inits(rbody, rc, rf, params)
        op, tbl = deserialize_table(src, "Response", sf, sc["LENGTH"])
        out += "(* %s::Request: serialize order (name, width in bytes, true = to_be_bytes integer / false = raw byte array) *)\n" % prefix
        out += "Definition %s_request_layout : list (key * nat * bool) :=\n  [%s].\n" % (
            prefix, "; ".join("(%s, %d%%nat, %s)" % (cs(n), w, "true" if k else "false") for n, w, k in lay))
        out += "Definition %s_request_length : N := %d%%N.\n" % (prefix, rc["LENGTH"])
        out += "(* %s::Request::new: field -> (kind, argument, literal); kinds lit | param | random | action *)\n" % prefix
        out += "Definition %s_request_new : list (key * (key * key * N)) :=\n  [%s].\n" % (
            prefix, ";\n   ".join("(%s, (%s, %s, %d%%N))" % (cs(n), cs(k), cs(a), v) for n, k, a, v in inits))
        out += "(* %s::Response::deserialize: length guard and fixed-offset big-endian fields (name, from, to) *)\n" % prefix
        out += "Definition %s_response_guard : key := %s.\n" % (prefix, cs(op))
        out += "Definition %s_response_length : N := %d%%N.\n" % (prefix, sc["LENGTH"])
        out += "Definition %s_response_fields : list (key * nat * nat) :=\n  [%s].\n\n" % (
            prefix, "; ".join("(%s, %d%%nat, %d%%nat)" % (cs(n), a, b) for n, a, b in tbl))
        return rc

    rc = one(con, "connect", [])
    if "UDP_TRACKER_MAGIC" not in rc:
        raise Untranslatable("UDP_TRACKER_MAGIC")
    out += "Definition udp_tracker_magic : N := %d%%N.\n\n" % rc["UDP_TRACKER_MAGIC"]
    one(ann, "announce", ["connection_id", "btinh", "peer_id", "port"])

    # client.rs
    cc, cbody = impl_consts(cli, "Client")
    if "RX_BUF_LEN" not in cc:
        raise Untranslatable("RX_BUF_LEN")
    ex = find_block(cbody, r"fn exchange<'a, T: Request>\(", "Client::exchange")
    ex1 = " ".join(ex.split())
    loops = re.findall(r"for _ in 0\.\.(\d+) \{", ex1)
    if len(loops) != 1:
        raise Untranslatable("exchange: expected exactly one `for _ in 0..N` loop")
    shape = (r"let msg = req\.serialize\(\); let mut len_read: usize = 0; for _ in 0\.\.\d+ \{ "
             r"self\.sock\.send\(&msg\)\.context\(error::TrackerSend\)\?; "
             r"if let Ok\(len\) = self\.sock\.recv\(buf\) \{ len_read = len; break; \} \} "
             r"if len_read == 0 \{ return Err\(Error::TrackerExchange \{ tracker_addr: self\.tracker_addr, \}\); \} "
             r"let \(resp, payload\) = T::Response::deserialize\(&buf\[\.\.len_read\]\)\?; "
             r"if resp\.transaction_id\(\) != req\.transaction_id\(\) \|\| resp\.action\(\) != req\.action\(\) \{ "
             r"return Err\(Error::TrackerResponse\); \} Ok\(\(resp, payload\)\)")
    if not re.fullmatch(shape, ex1):
        raise Untranslatable("Client::exchange is not the send/recv loop + transaction-id/action comparison the model mirrors")
    ce = " ".join(find_block(cbody, r"fn connect_exchange\(&mut self\)", "connect_exchange").split())
    if not re.fullmatch(r"let req = connect::Request::new\(\); let mut buf = \[0u8; connect::Response::LENGTH\]; "
                        r"let \(resp, _\) = self\.exchange\(&req, &mut buf\)\?; "
                        r"self\.connection_id\.replace\(resp\.connection_id\); Ok\(\(\)\)", ce):
        raise Untranslatable("connect_exchange shape")
    ae = " ".join(find_block(cbody, r"pub fn announce_exchange\(&self, btinh: &Infohash\)", "announce_exchange").split())
    if not re.fullmatch(r"let Some\(connection_id\) = self\.connection_id else \{ return Err\(Error::TrackerNoConnectionId\); \}; "
                        r"let local_addr = self \.sock \.local_addr\(\) \.context\(error::UdpSocketLocalAddress\)\?; "
                        r"let req = announce::Request::new\(connection_id, \*btinh, self\.peer_id, local_addr\.port\(\)\); "
                        r"let mut buf = \[0u8; Self::RX_BUF_LEN\]; "
                        r"let \(_, payload\) = self\.exchange\(&req, &mut buf\)\?; "
                        r"Client::parse_compact_peer_list\(payload, local_addr\.is_ipv6\(\)\)", ae):
        raise Untranslatable("announce_exchange shape")
    pl = " ".join(find_block(cbody, r"fn parse_compact_peer_list\(buf: &\[u8\], is_ipv6: bool\)", "parse_compact_peer_list").split())
    sm = re.search(r"let stride = if is_ipv6 \{ (\d+) \} else \{ (\d+) \};", pl)
    if not sm:
        raise Untranslatable("stride")
    if not re.search(r"let chunks = buf\.chunks_exact\(stride\); if !chunks\.remainder\(\)\.is_empty\(\) \{ "
                     r"return Err\(Error::TrackerCompactPeerList\); \} for hostpost in chunks \{ "
                     r"let \(ip, port\) = hostpost\.split_at\(stride - 2\);", pl):
        raise Untranslatable("parse_compact_peer_list shape (chunks_exact / remainder check / split_at(stride - 2))")
    if not re.search(r"let port = u16::from_be_bytes\( port \.try_into\(\)", pl):
        raise Untranslatable("parse_compact_peer_list: port is not u16::from_be_bytes")
    fu = " ".join(find_block(cbody, r"pub fn from_url\(tracker_url: &Url\)", "from_url").split())
    um = re.fullmatch(r'if tracker_url\.scheme\(\) != "(\w+)" \{ return Err\(Error::TrackerUdpOnly \{ tracker_url: tracker_url\.clone\(\), \}\); \} '
                      r'Self::connect\( HostPort::try_from\(tracker_url\)\.context\(error::TrackerHostPort \{ tracker_url: tracker_url\.clone\(\), \}\)\?, \)', fu)
    if not um:
        raise Untranslatable("from_url shape")
    hp = strip_comments(strip_tests(read(repo, "src/host_port.rs")))
    tf = " ".join(find_block(hp, r"impl TryFrom<&Url> for HostPort\s*\{", "TryFrom<&Url> for HostPort").split())
    if not re.search(r"match \(url\.host\(\), url\.port\(\)\) \{ \(Some\(host\), Some\(port\)\) => Ok\(HostPort \{ host: host\.to_owned\(\), port, \}\), "
                     r"\(Some\(_\), None\) => Err\(.*?\), \(None, Some\(_\)\) => Err\(.*?\), \(None, None\) => Err\(.*?\), \}", tf):
        raise Untranslatable("HostPort::try_from(&Url) shape")
    out += "(* src/tracker/client.rs *)\n"
    out += "Definition udp_scheme : key := %s.\n" % cs(um.group(1))
    out += "Definition retry_count : N := %s%%N.\n" % loops[0]
    out += "Definition rx_buf_len : N := %d%%N.\n" % cc["RX_BUF_LEN"]
    out += "Definition connect_rx_buf_len : N := connect_response_length.\n"
    out += "Definition stride_v6 : N := %s%%N.\nDefinition stride_v4 : N := %s%%N.\n" % (sm.group(1), sm.group(2))
    return out


def gen_tracker_fallback():
    e = "From Imdl Require Import Base.Key.\nLocal Open Scope key_scope.\nDefinition translated : bool := false.\nDefinition action_codes : list (key * N) := [].\n"
    for p in ("connect", "announce"):
        e += ("Definition %s_request_layout : list (key * nat * bool) := [].\nDefinition %s_request_length : N := 0%%N.\n"
              "Definition %s_request_new : list (key * (key * key * N)) := [].\n"
              "Definition %s_response_guard : key := \"none\".\nDefinition %s_response_length : N := 0%%N.\n"
              "Definition %s_response_fields : list (key * nat * nat) := [].\n") % ((p,) * 6)
    e += ("Definition udp_tracker_magic : N := 0%N.\nDefinition retry_count : N := 0%N.\nDefinition rx_buf_len : N := 0%N.\n"
          "Definition udp_scheme : key := \"\".\nDefinition connect_rx_buf_len : N := 0%N.\nDefinition stride_v6 : N := 0%N.\nDefinition stride_v4 : N := 0%N.\n")
    return e


GENERATORS = {
    "GenTracker": (gen_tracker, gen_tracker_fallback,
                   "src/tracker/connect.rs, src/tracker/announce.rs, src/tracker/action.rs, src/tracker/client.rs"),
}
