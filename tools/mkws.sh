#!/bin/sh
# mkws.sh <name> — isolated workspace for building one property check:
#   /tmp/ws/<name>/verif  (git worktree of /verif HEAD)   /tmp/ws/<name>/repo (git worktree of /repo HEAD)
#   /tmp/ws/<name>/cache  (seeded from /verif/.cache so the first cargo build is incremental)
set -e
n="$1"; d="/tmp/ws/$n"
mkdir -p "$d"
git -C /verif worktree add --detach "$d/verif" HEAD >/dev/null 2>&1
git -C /repo worktree add --detach "$d/repo" HEAD >/dev/null 2>&1
mkdir -p "$d/cache"
cp -a /verif/.cache/target "$d/cache/target"
# carry the compiled Coq files over (same sources, original mtimes), so that the first make in the workspace is incremental
rsync -a /verif/coq/ "$d/verif/coq/" 2>/dev/null || true
echo "export VERIF_REPO=$d/repo VERIF_CACHE=$d/cache; cd $d/verif"
