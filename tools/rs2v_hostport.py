"""rs2v plug-in for C17: the table-like facts of src/host_port.rs that Model/HostPort.v mirrors.

GenHostPort.v records, as strings read from the current source: the regex (flags and tokens), the
port type, the `Display` format string and its arguments, the `Tuple` field types and the three
host renderings of `Tuple::from`, the re-bracketing test and format of `Deserialize`, and the order
of the two fallible calls in `from_str`. `Properties/C17.v` compares them with what the model
mirrors; a source that no longer has this shape yields `translated = false`."""
import re
from rs2v import Untranslatable, read, strip_tests, strip_comments, coq_string


def strlist(xs):
    return "[" + "; ".join(coq_string(x) for x in xs) + "]"


def one(pat, src, what, flags=re.S):
    ms = re.findall(pat, src, flags)
    if len(ms) != 1:
        raise Untranslatable("%s: expected exactly one match, found %d" % (what, len(ms)))
    return ms[0]


def gen_hostport(repo):
    src = strip_tests(read(repo, "src/host_port.rs"))
    raw = one(r'Regex::new\(\s*r"(.*?)"\s*,?\s*\)', src, "Regex::new(r\"...\")")
    src = strip_comments(src)
    m = re.match(r"\s*\(\?([a-zA-Z]+)\)(.*)\Z", raw, re.S)
    flags, body = (m.group(1), m.group(2)) if m else ("", raw)
    tokens = body.split() if "x" in flags else [body]
    fields = one(r"pub\(crate\) struct HostPort \{(.*?)\}", src, "struct HostPort")
    fm = re.fullmatch(r"\s*host:\s*Host,\s*port:\s*(\w+),?\s*", fields)
    if not fm:
        raise Untranslatable("HostPort fields %r" % fields)
    disp = one(r"impl Display for HostPort \{.*?\n\}", src, "impl Display for HostPort")
    dm = re.search(r'write!\(f,\s*"([^"]*)",\s*self\.host,\s*self\.port\s*\)', disp)
    if not dm or len(re.findall(r"write!|f\.write", disp)) != 1:
        raise Untranslatable("Display body is not one write!(f, FORMAT, self.host, self.port)")
    tup = one(r"struct Tuple\((.*?)\);", src, "struct Tuple")
    conv = one(r"impl From<&HostPort> for Tuple \{.*?\n\}", src, "impl From<&HostPort> for Tuple")
    arms = re.findall(r"Host::(Domain|Ipv4|Ipv6)\((\w+)\)\s*=>\s*([^,\n]+),", conv)
    if [a[0] for a in arms] != ["Domain", "Ipv4", "Ipv6"] or not re.search(r"Self\(host,\s*node\.port\)", conv):
        raise Untranslatable("Tuple::from arms %r" % (arms,))
    de = one(r"impl<'de> Deserialize<'de> for HostPort \{.*?\n\}", src, "impl Deserialize for HostPort")
    de1 = " ".join(de.split())
    rm = re.search(r"let host = if (.*?) \{ Host::parse\(&format!\(\"([^\"]*)\", tuple\.0\)\) \} else \{ Host::parse\(&tuple\.0\) \}", de1)
    if not rm or not re.search(r"port: tuple\.1,?\s*\}", de1):
        raise Untranslatable("Deserialize body is not the expected if/else around Host::parse")
    fs = one(r"impl FromStr for HostPort \{.*?\n\}", src, "impl FromStr for HostPort")
    calls = [(mm.start(), mm.group(0)) for mm in re.finditer(r"Host::parse\(\w+\)|\w+\s*\.parse::<\w+>\(\)", " ".join(fs.split()))]
    names = dict(re.findall(r'let (\w+) = captures \.name\("(\w+)"\)', " ".join(fs.split())))
    if names != {"host_text": "host", "port_text": "port"}:
        raise Untranslatable("capture group bindings %r" % names)
    order = [re.sub(r"\s+", "", c) for _, c in sorted(calls)]
    out = "Definition translated : bool := true.\n"
    out += "Definition regex_flags : string := %s.\n" % coq_string(flags)
    out += "Definition regex_tokens : list string := %s.\n" % strlist(tokens)
    out += "Definition port_type : string := %s.\n" % coq_string(fm.group(1))
    out += "Definition display_format : string := %s.\n" % coq_string(dm.group(1))
    out += "Definition tuple_fields : list string := %s.\n" % strlist([x.strip() for x in tup.split(",")])
    out += "Definition tuple_hosts : list string := %s.\n" % strlist([a[2].strip() for a in arms])
    out += "Definition rebracket_test : string := %s.\n" % coq_string(rm.group(1))
    out += "Definition rebracket_format : string := %s.\n" % coq_string(rm.group(2))
    out += "Definition parse_order : list string := %s.\n" % strlist(order)
    return out


def gen_hostport_fallback():
    return ("Definition translated : bool := false.\nDefinition regex_flags : string := \"\"%string.\n"
            "Definition regex_tokens : list string := [].\nDefinition port_type : string := \"\"%string.\n"
            "Definition display_format : string := \"\"%string.\nDefinition tuple_fields : list string := [].\n"
            "Definition tuple_hosts : list string := [].\nDefinition rebracket_test : string := \"\"%string.\n"
            "Definition rebracket_format : string := \"\"%string.\nDefinition parse_order : list string := [].\n")


GENERATORS = {"GenHostPort": (gen_hostport, gen_hostport_fallback, "src/host_port.rs")}
