#!/usr/bin/env python3
"""Dispatcher: ./check <ID> [--tier quick|thorough] [--replay FILE]

Exit 0 = property held on everything explored (KNOWN-FINDING lines allowed);
exit 1 + `VIOLATION property=<id> replay=<path>` otherwise."""
import argparse, importlib, os, sys, traceback
sys.path.insert(0, os.path.dirname(os.path.abspath(__file__)))
import lib


def main():
    ap = argparse.ArgumentParser()
    ap.add_argument("pid")
    ap.add_argument("--tier", default=os.environ.get("VERIF_TIER", "quick"), choices=["quick", "thorough"])
    ap.add_argument("--replay")
    a = ap.parse_args()
    seed = int(os.environ.get("VERIF_SEED", "20260926"))
    pid = a.pid.upper()
    ctx = lib.Ctx(pid, a.tier, seed)
    try:
        mod = importlib.import_module("props." + pid.lower())
    except ModuleNotFoundError:
        print("no check for property %s" % pid)
        return 2
    try:
        if a.replay:
            return mod.replay(ctx, a.replay)
        return mod.run(ctx)
    except Exception:
        tb = traceback.format_exc()
        lib.log(tb)
        ctx.violation("infrastructure", "the check itself failed: " + tb.strip().splitlines()[-1], {"traceback": tb})
        try:
            return ctx.finish("(check crashed)", ["see DESIGN.md section 8"])
        except Exception:
            print("VIOLATION property=%s replay=%s no-failing-input-found" % (pid, "/dev/null"))
            return 1


if __name__ == "__main__":
    sys.exit(main())
