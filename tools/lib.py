#!/usr/bin/env python3
"""Common machinery for the imdl verification checks (see DESIGN.md section 3/4).

Everything a property module needs: building the Coq development, the extracted
model runner, the real binary and the hook harness from the *current* /repo tree;
process pools speaking the two line protocols; evidence and replay writers; the
known-findings file; a seeded PRNG.
"""
import fcntl, hashlib, json, os, random, re, shutil, subprocess, sys, tempfile, time
from concurrent.futures import ThreadPoolExecutor

VERIF = os.path.dirname(os.path.dirname(os.path.abspath(__file__)))
REPO = os.environ.get("VERIF_REPO", "/repo")
CACHE = os.environ.get("VERIF_CACHE", os.path.join(VERIF, ".cache"))
# The Coq development is built in place (VERIF/coq) by the registered commands. When VERIF_CACHE points somewhere else
# (development in scratch workspaces, confirm_seed / confirm_benign against other checkouts of the repository) the sources
# are mirrored into that cache and built there, so that concurrent runs against different trees never share generated
# tables, .vo files or extracted OCaml.
ISOLATED = os.path.abspath(CACHE) != os.path.join(VERIF, ".cache")
COQ = os.path.join(CACHE, "coq") if ISOLATED else os.path.join(VERIF, "coq")
COQ_SRC = os.path.join(VERIF, "coq")
GEN_ML = os.path.join(os.path.dirname(COQ), "runner", "gen")
TARGET = os.path.join(CACHE, "target")
EVID = os.environ.get("VERIF_EVIDENCE", os.path.join(VERIF, "evidence"))
REPLAY = os.path.join(EVID, "replay")
NCPU = min(16, os.cpu_count() or 4)
GUARD = "--cfg imdl_verif"
ESCALATE = 5   # factor applied to the quick correspondence sample when the translator tie is unavailable

FORBIDDEN = re.compile(
    r"\b(Admitted|admit|Axiom|Axioms|Parameter|Parameters|Conjecture|Conjectures|Admit Obligations|"
    r"Unset Guard Checking|Unset Positivity Checking|Unset Universe Checking|bypass_check|"
    r"type-in-type|impredicative-set)\b")

os.makedirs(CACHE, exist_ok=True)
os.makedirs(REPLAY, exist_ok=True)


def _mirror_coq():
    """isolated mode: VERIF/coq -> CACHE/coq (sources and whatever is already compiled, mtimes kept); the generated tables
    of this cache's repository are left alone once they exist"""
    lock = open(os.path.join(CACHE, "mirror.lock"), "w")
    fcntl.flock(lock, fcntl.LOCK_EX)
    try:
        os.makedirs(COQ, exist_ok=True)
        subprocess.run(["rsync", "-a", "--delete", "--exclude=/Generated/", "--exclude=/Makefile*", "--exclude=/.Makefile.d",
                        "--exclude=/_CoqProject", "--exclude=/Extract.v", "--exclude=/Extract.vo", "--exclude=/Extract.glob",
                        "--exclude=/Extract.vos", "--exclude=/Extract.vok", "--exclude=.*.aux", "--exclude=.lia.cache",
                        "--exclude=.nia.cache", COQ_SRC + "/", COQ + "/"], check=True)
        subprocess.run(["rsync", "-a", "--ignore-existing", os.path.join(COQ_SRC, "Generated") + "/",
                        os.path.join(COQ, "Generated") + "/"], check=True)
    finally:
        fcntl.flock(lock, fcntl.LOCK_UN); lock.close()


if ISOLATED:
    _mirror_coq()


def log(*a):
    print(*a, file=sys.stderr, flush=True)


class Lock:
    """One global flock so concurrent checks serialise their builds."""

    def __init__(self, name="build"):
        self.path = os.path.join(CACHE, name + ".lock")

    def __enter__(self):
        self.f = open(self.path, "w")
        fcntl.flock(self.f, fcntl.LOCK_EX)
        return self

    def __exit__(self, *a):
        fcntl.flock(self.f, fcntl.LOCK_UN)
        self.f.close()


def sh(cmd, timeout=1800, cwd=None, env=None, input=None):
    e = dict(os.environ)
    if env:
        e.update(env)
    try:
        p = subprocess.run(cmd, shell=isinstance(cmd, str), cwd=cwd, env=e, input=input,
                           stdout=subprocess.PIPE, stderr=subprocess.STDOUT, timeout=timeout)
        return p.returncode, p.stdout.decode("utf-8", "replace")
    except subprocess.TimeoutExpired as ex:
        return 124, (ex.stdout or b"").decode("utf-8", "replace") + "\n[timeout after %ss]" % timeout


# ---------------------------------------------------------------- Coq side

def coq_strip_comments(src):
    out, depth, i = [], 0, 0
    while i < len(src):
        if src.startswith("(*", i):
            depth += 1; i += 2
        elif src.startswith("*)", i) and depth:
            depth -= 1; i += 2
        else:
            if not depth:
                out.append(src[i])
            i += 1
    return "".join(out)


def grep_gate():
    """Forbidden constructs anywhere in the development (outside comments)."""
    hits = []
    for root, _, files in os.walk(COQ):
        for fn in files:
            if fn.endswith(".v"):
                p = os.path.join(root, fn)
                src = coq_strip_comments(open(p).read())
                for n, line in enumerate(src.splitlines(), 1):
                    if FORBIDDEN.search(line):
                        hits.append("%s:%d: %s" % (os.path.relpath(p, VERIF), n, line.strip()))
    gen_extract_v()
    gen_coqproject()
    proj = open(os.path.join(COQ, "_CoqProject")).read()
    if "-type-in-type" in proj or "-impredicative-set" in proj:
        hits.append("_CoqProject passes a forbidden flag")
    return hits


def run_translator():
    """Regenerate coq/Generated/*.v from the current /repo tree (only rewrites changed files)."""
    rc, out = sh([sys.executable, os.path.join(VERIF, "tools", "rs2v.py"), REPO,
                  os.path.join(COQ, "Generated")], timeout=120)
    return rc == 0, out


def translator_status():
    """{generator: {"status": "ok" | "kept-reference" | "fallback", "reason": ..., "origin": ...}} of the last translator run"""
    try:
        return json.load(open(os.path.join(COQ, "Generated", "rs2v_status.json")))
    except Exception:
        return {}


def transitive_generated(pid):
    """names of the Generated/*.v files the property file depends on, directly or through the models and proofs it requires"""
    pat = re.compile(r"From\s+Imdl\s+Require\s+(?:Import\s+|Export\s+)?((?:[A-Za-z_][A-Za-z0-9_]*(?:\.[A-Za-z_][A-Za-z0-9_]*)*\s*)+)\.")
    seen, todo, gens = set(), [os.path.join(COQ, "Properties", pid + ".v")], set()
    while todo:
        f = todo.pop()
        if f in seen or not os.path.exists(f):
            continue
        seen.add(f)
        for m in pat.finditer(coq_strip_comments(open(f).read())):
            for mod in m.group(1).split():
                parts = mod.split(".")
                if parts[0] == "Generated" and len(parts) == 2:
                    gens.add(parts[1])
                todo.append(os.path.join(COQ, *parts) + ".v")
    return gens


def coq_make(targets, timeout=1500):
    """make the given .vo targets (paths relative to coq/). Returns (ok, log)."""
    with Lock("coq"):
        gen_extract_v()
        gen_coqproject()
        mk = os.path.join(COQ, "Makefile")
        proj = os.path.join(COQ, "_CoqProject")
        if (not os.path.exists(mk)) or os.path.getmtime(mk) < os.path.getmtime(proj):
            rc, out = sh("coq_makefile -f _CoqProject -o Makefile", cwd=COQ, timeout=60)
            if rc:
                return False, out
        rc, out = sh(["make", "-j%d" % NCPU] + list(targets), cwd=COQ, timeout=timeout)
        return rc == 0, out


def write_if_changed(path, text):
    if not os.path.exists(path) or open(path, encoding="utf-8").read() != text:
        os.makedirs(os.path.dirname(path), exist_ok=True)
        with open(path, "w", encoding="utf-8") as f:
            f.write(text)
        return True
    return False


def gen_coqproject():
    """_CoqProject lists every .v under Base/ Model/ Proofs/ Generated/ plus Extract.v
    (Properties/*.v are compiled by each check with a direct coqc; nothing depends on them)."""
    files = []
    for d in ("Base", "Model", "Proofs", "Generated"):
        dd = os.path.join(COQ, d)
        if os.path.isdir(dd):
            files += sorted(os.path.join(d, f) for f in os.listdir(dd) if f.endswith(".v"))
    files.append("Extract.v")
    text = ("-Q . Imdl\n-arg -w -arg -notation-overridden,-deprecated-hint-without-locality,"
            "-deprecated-instance-without-locality,-unknown-option\n" + "\n".join(files) + "\n")
    write_if_changed(os.path.join(COQ, "_CoqProject"), text)


def extract_fragments():
    """coq/Extract.d/<name>.txt -> (name, [required modules], [constants])"""
    d = os.path.join(COQ, "Extract.d")
    out = []
    for fn in sorted(os.listdir(d)) if os.path.isdir(d) else []:
        if not fn.endswith(".txt"):
            continue
        reqs, names = [], []
        for line in open(os.path.join(d, fn)):
            line = line.strip()
            if line.startswith("Require:"):
                reqs += [x for x in line[8:].split() if x not in reqs]
            elif line.startswith("Extract:"):
                names += [x for x in line[8:].split() if x not in names]
        out.append((fn[:-4], reqs, names))
    return out


BASE_EXTRACT = "N.add N.mul N.div_eucl N.of_nat N.to_nat Z.of_N Z.to_N Z.opp Z.of_nat Z.to_nat"


def gen_extract_v():
    """coq/Extract.v is assembled from the fragments coq/Extract.d/<name>.txt. Fragment syntax:
         Require: Model.Picker Model.Float53       (modules under Imdl)
         Extract: Picker.pick Float53.round53      (constants to extract)
    Each fragment is extracted on its own into runner/gen/m_<name>.ml (self-contained, so names
    of different models can never clash); runner/driver.d/<name>.ml is compiled against it.
    Only ExtrOcamlBasic is loaded; there is no Extract Constant / Extract Inductive of ours."""
    frags = extract_fragments()
    reqs = []
    for _, r, _ in frags:
        reqs += [x for x in r if x not in reqs]
    os.makedirs(GEN_ML, exist_ok=True)
    text = ("(** GENERATED by tools/lib.py from coq/Extract.d/*.txt - do not edit.\n"
            "    Extraction of the executable models for the correspondence runs. ExtrOcamlBasic only:\n"
            "    bool, option, unit, list, prod, sumbool, sumor map to OCaml's; no Extract Constant;\n"
            "    N / Z / positive / nat stay Coq inductives. One self-contained OCaml file per fragment. *)\n"
            "From Coq Require Import NArith ZArith List.\nFrom Coq Require Extraction ExtrOcamlBasic.\n"
            "From Imdl Require %s.\n\nExtraction Language OCaml.\n" % " ".join(reqs))
    for name, _, names in frags:
        text += "Extraction \"../runner/gen/m_%s.ml\"\n  %s\n  %s.\n" % (name, BASE_EXTRACT, "\n  ".join(names))
    write_if_changed(os.path.join(COQ, "Extract.v"), text)


THM_RE = re.compile(r"^\s*(Theorem|Lemma|Example|Corollary|Fact)\s+([A-Za-z0-9_']+)", re.M)


def check_property_file(pid):
    """Compile coq/Properties/<pid>.v by a direct coqc (nothing depends on its .vo), and
    return the list of obligations with their status and assumptions.

    An obligation = one Theorem/Example in the file. It is discharged when coqc accepts
    the file up to and including it and its `Print Assumptions` says it is closed."""
    path = os.path.join(COQ, "Properties", pid + ".v")
    src = open(path).read()
    stripped = coq_strip_comments(src)
    names = [(m.group(2), src[: m.start()].count("\n") + 1) for m in THM_RE.finditer(src)
             if m.group(0).strip() in stripped]
    outdir = os.path.join(CACHE, "props")
    os.makedirs(outdir, exist_ok=True)
    t0 = time.time()
    rc, out = sh(["coqc", "-noglob", "-Q", ".", "Imdl", "-o", os.path.join(outdir, pid + ".vo"),
                  os.path.join("Properties", pid + ".v")], cwd=COQ, timeout=900)
    fail_line = None
    if rc != 0:
        m = re.search(r'line (\d+), characters', out)
        fail_line = int(m.group(1)) if m else 0
    # Print Assumptions output, in order
    asm = []
    for m in re.finditer(r"(Closed under the global context|Axioms:\n(?:.+\n?)+?(?=\n\S|\Z))", out):
        asm.append(m.group(1).strip())
    pa_names = re.findall(r"Print Assumptions\s+([A-Za-z0-9_'.]+)\s*\.", stripped)
    asm_of = dict(zip(pa_names, asm))
    obligations = []
    for name, line in names:
        ok = rc == 0 or (fail_line is not None and fail_line > 0 and _end_line(src, name) < fail_line)
        a = asm_of.get(name)
        closed = a == "Closed under the global context"
        obligations.append({"name": name, "compiled": bool(ok), "assumptions": a,
                            "discharged": bool(ok and closed)})
    return {"ok": rc == 0 and all(o["discharged"] for o in obligations) and len(obligations) > 0,
            "obligations": obligations, "log": out[-4000:], "wall_s": round(time.time() - t0, 2),
            "checker_cmd": "make -C coq <deps>; coqc -Q . Imdl Properties/%s.v (Coq 8.16.1, full .vo)" % pid}


def coqchk_property(pid, timeout=1500):
    """Independent re-check of the compiled property file and everything it depends on
    (thorough tier). Returns (ok, axioms_text, log)."""
    rc, out = sh(["coqchk", "-o", "-silent", "-Q", COQ, "Imdl", "-Q", os.path.join(CACHE, "props"), "", pid],
                 cwd=VERIF, timeout=timeout)
    m = re.search(r"\* Axioms:(.*?)\n\s*\n\* Constants/Inductives relying on type-in-type:(.*?)\n\s*\n"
                  r"\* Constants/Inductives relying on unsafe \(co\)fixpoints:(.*?)\n\s*\n"
                  r"\* Inductives whose positivity is assumed:(.*?)\n", out, re.S)
    if rc != 0 or not m:
        return False, None, out[-3000:]
    parts = [x.strip() for x in m.groups()]
    ok = all(x == "<none>" for x in parts)
    return ok, {"axioms": parts[0], "type_in_type": parts[1], "unsafe_fix": parts[2], "positivity_assumed": parts[3]}, out[-1500:]


def _end_line(src, name):
    m = re.search(r"(Theorem|Lemma|Example|Corollary|Fact)\s+" + re.escape(name) + r"\b", src)
    if not m:
        return 10 ** 9
    q = re.search(r"\b(Qed|Defined)\.", src[m.end():])
    end = m.end() + (q.end() if q else 0)
    return src[:end].count("\n") + 1


def ensure_runner():
    """Extract the models (coq/Extract.v -> runner/gen/m_<name>.ml) and build .cache/runner/modelrun.
    Each driver fragment runner/driver.d/<name>.ml is compiled as its own unit
    `open M_<name>` + runner/driver_base.ml + the fragment, and registers its handlers in Registry."""
    ok, out = coq_make(["Extract.vo"])
    if not ok:
        return None, out
    with Lock("ocaml"):
        rdir = os.path.join(VERIF, "runner")
        gdir = GEN_ML
        bdir = os.path.join(CACHE, "runner")
        os.makedirs(bdir, exist_ok=True)
        exe = os.path.join(bdir, "modelrun")
        base = open(os.path.join(rdir, "driver_base.ml")).read()
        names = [n for n, _, _ in extract_fragments() if os.path.exists(os.path.join(rdir, "driver.d", n + ".ml"))]
        units = {"registry.ml": open(os.path.join(rdir, "registry.ml")).read()}
        order = ["registry.ml"]
        for n in names:
            units["m_%s.mli" % n] = open(os.path.join(gdir, "m_%s.mli" % n)).read()
            units["m_%s.ml" % n] = open(os.path.join(gdir, "m_%s.ml" % n)).read()
            units["drv_%s.ml" % n] = ("open M_%s\n" % n) + base + ("\n(* ---- driver.d/%s.ml ---- *)\n" % n) + \
                open(os.path.join(rdir, "driver.d", n + ".ml")).read()
            order += ["m_%s.mli" % n, "m_%s.ml" % n, "drv_%s.ml" % n]
        units["main.ml"] = open(os.path.join(rdir, "driver_main.ml")).read()
        order.append("main.ml")
        stamp = hashlib.sha1("".join(k + units[k] for k in order).encode()).hexdigest()
        sf = os.path.join(bdir, "stamp")
        if os.path.exists(exe) and os.path.exists(sf) and open(sf).read() == stamp:
            return exe, ""
        for k in order:
            write_if_changed(os.path.join(bdir, k), units[k])
        rc, out2 = sh("ocamlfind ocamlopt -O2 -w -a -package str %s -linkpkg -o modelrun 2>/dev/null || "
                      "ocamlfind ocamlopt -w -a -package str %s -linkpkg -o modelrun" % (" ".join(order), " ".join(order)),
                      cwd=bdir, timeout=1500)
        if rc:
            return None, out2
        open(sf, "w").write(stamp)
        return exe, ""


# ---------------------------------------------------------------- Rust side

def repo_fingerprint():
    h = hashlib.sha1()
    for root, dirs, files in os.walk(REPO):
        dirs[:] = sorted(d for d in dirs if d not in ("target", ".git", "tmp", "www", "book") or
                         (d == "book" and root == REPO and False))
        for fn in sorted(files):
            if fn.endswith((".rs", ".toml", ".lock")):
                p = os.path.join(root, fn)
                h.update(p.encode()); h.update(open(p, "rb").read())
    return h.hexdigest()


def ensure_rust():
    """Build the real binary and the hook harness from /repo's working tree (debug profile,
    hooks on). Returns ({'imdl': path, 'harness': path}, log) or (None, log)."""
    with Lock("cargo"):
        env = {"RUSTFLAGS": GUARD, "CARGO_NET_OFFLINE": "true", "CARGO_TARGET_DIR": TARGET,
               "CARGO_TERM_COLOR": "never"}
        fp = repo_fingerprint()
        sf = os.path.join(CACHE, "rust.stamp")
        bins = {"imdl": os.path.join(TARGET, "debug", "imdl"),
                "harness": os.path.join(TARGET, "debug", "imdl-verif-harness")}
        hdir = os.path.join(VERIF, "harness")
        hand = os.path.join(hdir, "src", "handlers")
        mods = sorted(f[:-3] for f in os.listdir(hand) if f.endswith(".rs")) if os.path.isdir(hand) else []
        gen = "// GENERATED by tools/lib.py from harness/src/handlers/*.rs - do not edit\n"
        for m in mods:
            gen += '#[path = "handlers/%s.rs"]\nmod %s;\n' % (m, m)
        gen += "pub fn dispatch_all(f: &[&str]) -> Option<String> {\n"
        for m in mods:
            gen += "  if let Some(r) = %s::dispatch(f) {\n    return Some(r);\n  }\n" % m
        gen += "  None\n}\n"
        write_if_changed(os.path.join(hdir, "src", "handlers_gen.rs"), gen)
        hbuild = os.path.join(CACHE, "harness")
        os.makedirs(hbuild, exist_ok=True)
        write_if_changed(os.path.join(hbuild, "Cargo.toml"),
                         '[package]\nname = "imdl-verif-harness"\nversion = "0.0.0"\nedition = "2021"\npublish = false\n\n'
                         '[dependencies]\nimdl = { path = "%s" }\n\n[[bin]]\nname = "imdl-verif-harness"\npath = "%s"\n\n[workspace]\n'
                         % (REPO, os.path.join(hdir, "src", "main.rs")))
        h = hashlib.sha1()
        for root, _, files in os.walk(os.path.join(hdir, "src")):
            for fn in sorted(files):
                h.update(open(os.path.join(root, fn), "rb").read())
        stamp = fp + h.hexdigest()
        if all(os.path.exists(b) for b in bins.values()) and os.path.exists(sf) and open(sf).read() == stamp:
            return bins, "cached"
        rc, out = sh(["cargo", "build", "--offline", "--bin", "imdl"], cwd=REPO, env=env, timeout=1500)
        if rc:
            return None, out[-6000:]
        shutil.copy(os.path.join(REPO, "Cargo.lock"), os.path.join(hbuild, "Cargo.lock"))
        rc, out2 = sh(["cargo", "build", "--offline"], cwd=hbuild, env=env, timeout=1500)
        if rc:
            return None, out2[-6000:]
        open(sf, "w").write(stamp)
        return bins, out[-500:] + out2[-500:]


# ---------------------------------------------------------------- line-protocol pools

def hexs(b):
    if isinstance(b, str):
        b = b.encode()
    return b.hex() if b else "-"


def unhex(s):
    return b"" if s in ("-", "~") else bytes.fromhex(s)


def hexlist(items):
    return ",".join(hexs(i) for i in items) if items else "~"


def unhexlist(s):
    return [] if s == "~" else [unhex(x) for x in s.split(",")]


def _big_stack():
    """the extracted models recurse structurally over byte lists (Coq's list functions are not tail recursive): give the
    model runner the largest stack the system allows; never used for the implementation side"""
    import resource
    try:
        soft, hard = resource.getrlimit(resource.RLIMIT_STACK)
        resource.setrlimit(resource.RLIMIT_STACK, (hard, hard))
    except Exception:
        pass


def run_lines(exe, lines, nproc=NCPU, timeout=1200, env=None, big_stack=False):
    """Feed request lines to `nproc` copies of `exe` (sharded round-robin), return replies in order."""
    if not lines:
        return []
    nproc = max(1, min(nproc, len(lines)))
    shards = [lines[i::nproc] for i in range(nproc)]

    def work(shard):
        e = dict(os.environ)
        if env:
            e.update(env)
        p = subprocess.run([exe], input=("\n".join(shard) + "\n").encode(), stdout=subprocess.PIPE,
                           stderr=subprocess.PIPE, timeout=timeout, env=e, preexec_fn=_big_stack if big_stack else None)
        out = p.stdout.decode().split("\n")
        if out and out[-1] == "":
            out.pop()
        if len(out) != len(shard):
            # the process died mid-way (abort / stack overflow): mark the rest
            out += ["DIED rc=%s %s" % (p.returncode, p.stderr.decode("utf-8", "replace")[-200:].replace("\n", " "))] * (len(shard) - len(out))
        return out

    with ThreadPoolExecutor(nproc) as ex:
        outs = list(ex.map(work, shards))
    res = [None] * len(lines)
    for i, o in enumerate(outs):
        res[i::nproc] = o
    return res


def noise_home():
    """a HOME whose git configuration ignores every file: imdl must not consult it (its walker switches the `ignore` crate's
    standard filters off unless --ignore is given)"""
    h = os.path.join(CACHE, "home")
    if not os.path.exists(os.path.join(h, ".gitconfig")):
        os.makedirs(os.path.join(h, ".config", "git"), exist_ok=True)
        with open(os.path.join(h, ".config", "git", "ignore"), "w") as f:
            f.write("*\n")
        with open(os.path.join(h, ".gitignore_global"), "w") as f:
            f.write("*\n")
        with open(os.path.join(h, ".gitconfig"), "w") as f:
            f.write("[core]\n\texcludesFile = %s\n" % os.path.join(h, ".gitignore_global"))
    return h


_SDE_COUNTER = __import__("itertools").count()
KNOWN_ENV = {"NO_COLOR", "TERM", "IMDL_TERM_WIDTH"}
_ENV_INVENTORY = {}


def env_inventory(repo=None):
    """Names of the environment variables the sources of the repository under check consult: `env::var("X")`, `var_os("X")`,
    clap's `env = "X"` / `.env("X")` (src/verif.rs aside). Read again on every run (it is a table like the translator's).
    Any name outside KNOWN_ENV is a new input of the program: every run of the real binary then sets it (to the path of an
    empty scratch directory - a value that is present, is a path and is not a number), so that a command whose documented
    behaviour silently depends on it shows the difference in the checks' ordinary oracles. (Added after seeded change C19-15:
    `--dir` of `imdl completions` could also come from IMDL_COMPLETIONS_DIR.)"""
    repo = repo or REPO
    if repo in _ENV_INVENTORY:
        return _ENV_INVENTORY[repo]
    names = set()
    pat = re.compile(r'(?:\bvar|\bvar_os)\(\s*"([A-Za-z_][A-Za-z0-9_]*)"\s*\)|\benv\s*=\s*"([A-Za-z_][A-Za-z0-9_]*)"|\.env\(\s*"([A-Za-z_][A-Za-z0-9_]*)"\s*\)')
    for dp, dn, fn in os.walk(os.path.join(repo, "src")):
        for f in fn:
            if f.endswith(".rs") and f != "verif.rs":
                try:
                    txt = open(os.path.join(dp, f), encoding="utf-8", errors="replace").read()
                except OSError:
                    continue
                for m in pat.finditer(txt):
                    names.add(next(g for g in m.groups() if g))
    _ENV_INVENTORY[repo] = names
    return names


_OPTION_CACHE = {}


def unknown_options(exe, sub):
    """Options of `imdl <sub...>` that are not in tools/known_options.json (the options of the last validated tree; rewritten
    only deliberately), read from the binary's own --help: [(flag, value or None)] with a plausible value made from the
    placeholder. A new option is a new input of the command: the checks give it in part of their runs of that command, so that
    what it does is seen by their ordinary oracles. (Seeded changes C04-15 `create --info-entry`, C11-16 `from-link --show`.)"""
    key = (exe, tuple(sub))
    if key in _OPTION_CACHE:
        return _OPTION_CACHE[key]
    try:
        known = set(json.load(open(os.path.join(VERIF, "tools", "known_options.json"))).get(" ".join(sub), []))
    except Exception:
        known = None
    found = []
    if known is not None:
        try:
            p = subprocess.run([exe, "--unstable"] + list(sub) + ["--help"], stdout=subprocess.PIPE, stderr=subprocess.PIPE, timeout=30,
                               env={"NO_COLOR": "1", "TERM": "dumb", "IMDL_TERM_WIDTH": "400", "PATH": os.environ.get("PATH", "")})
            out = p.stdout
        except Exception:
            out = b""
        for m in re.finditer(rb"^\s+(?:-\w, )?--([a-z][a-z0-9-]*)(?:\s+<([^>\n]+)>)?", out, re.M):
            name, ph = m.group(1).decode(), (m.group(2) or b"").decode()
            if name in known or any(name == f[0][2:] for f in found):
                continue
            if not ph:
                val = None
            elif "=" in ph:
                val = "x_custom=value"
            elif "URL" in ph.upper():
                val = "http://new.example/x"
            elif "DIR" in ph.upper() or "PATH" in ph.upper() or "FILE" in ph.upper():
                val = os.path.join(CACHE, "envdir")
            elif ph.upper() in ("N", "NUM", "NUMBER", "COUNT", "BYTES", "SIZE", "LIMIT", "SECONDS"):
                val = "1"
            else:
                val = "x-value"
            found.append(("--" + name, val))
    _OPTION_CACHE[key] = found
    return found


def unknown_env():
    """variables of env_inventory() the checks do not know, with the value every run sets them to"""
    extra = sorted(env_inventory() - KNOWN_ENV)
    if not extra:
        return {}
    d = os.path.join(CACHE, "envdir")
    os.makedirs(d, exist_ok=True)
    return {k: d for k in extra}


def noise_env():
    """Environment every run of the real binary gets unless the case sets the variable itself: variables imdl does not read
    (it reads NO_COLOR, TERM, IMDL_TERM_WIDTH and the logger's RUST_LOG) and therefore must not react to - a build
    environment's SOURCE_DATE_EPOCH, a Turkish locale, a tiny COLUMNS, colour-forcing conventions of other tools, a git
    configuration that ignores everything. (Added after seeded changes C05-8 and C06-7, which made the result depend on
    SOURCE_DATE_EPOCH and on the user's global gitignore.)"""
    h = noise_home()
    # SOURCE_DATE_EPOCH names another day in every run (1970-01-02 ... 2024): imdl does not consult it, so two runs whose results are
    # compared must not be told apart by it (added after seeded change C19-14: a date stamp in the completion scripts)
    e = {"SOURCE_DATE_EPOCH": str(86400 * (1 + next(_SDE_COUNTER) % 19999)), "LANG": "tr_TR.UTF-8", "LC_ALL": "tr_TR.UTF-8", "COLUMNS": "37", "LINES": "9",
         "CLICOLOR_FORCE": "1", "FORCE_COLOR": "1", "COLORTERM": "truecolor", "XDG_CONFIG_HOME": os.path.join(h, ".config"),
         "HOME": h, "USER": "nobody", "TMPDIR": tempfile.gettempdir(), "GIT_DIR": os.path.join(h, "no-such-git-dir")}
    # variables the sources consult and the checks do not know; the deliberate values above win where a name is in both
    return dict(unknown_env(), **e)


def limited(argv, nofile=None, as_nobody=False, one_cpu=False):
    """argv wrapped so that it runs under a lowered open-file limit and/or as an unprivileged user that owns nothing
    (uid/gid 65534; only when this process is root and setpriv exists, otherwise unchanged). Platform limits are part of
    "every input": a command that keeps one descriptor per listed file or per tracker, or that opens content in a way only
    its owner may, works in every test and fails on a large torrent or a shared download directory (seeded changes C02-10,
    C02-11, C03-11, C12-11)."""
    argv = list(argv)
    if one_cpu and shutil.which("taskset"):
        # the process may run on one CPU only (a 1-vCPU container, a cpuset): std::thread::available_parallelism() answers 1
        # (added after seeded change C01-15: a pool of `cores - 1` hashing threads, i.e. none)
        cpu = sorted(os.sched_getaffinity(0))[-1] if hasattr(os, "sched_getaffinity") else 0
        argv = ["taskset", "-c", str(cpu)] + argv
    if as_nobody and can_drop_privileges():
        argv = ["setpriv", "--reuid=65534", "--regid=65534", "--clear-groups"] + argv
    if nofile:
        argv = ["sh", "-c", 'ulimit -n %d && exec "$@"' % int(nofile), "sh"] + argv
    return argv


_LINKS = {"dir": None, "n": 0}
_LINKS_LOCK = __import__("threading").Lock()


def logical_cwd(cwd):
    """The working directory spelled through a fresh symbolic link that lives in another directory, as after `cd link` in a
    shell: the kernel's working directory is the same physical one, only $PWD (set by run_cmd) carries the logical spelling.
    A program that asks the operating system where it is (imdl: env::current_dir) cannot tell the difference; one that trusts
    $PWD and cleans `..` lexically resolves `../x` against the link's parent (seeded changes C09-10, C19-10). Applied to every
    run of the real binary that names a working directory, so every relative argument with `..` in any check is such a probe."""
    try:
        with _LINKS_LOCK:
            if _LINKS["dir"] is None:
                _LINKS["dir"] = tempfile.mkdtemp(prefix="verif-cwd-")
                os.chmod(_LINKS["dir"], 0o755)
                import atexit
                atexit.register(shutil.rmtree, _LINKS["dir"], True)
            _LINKS["n"] += 1
            link = os.path.join(_LINKS["dir"], "l%d" % _LINKS["n"])
        os.symlink(os.path.abspath(os.fsdecode(cwd)), link)
        return link
    except OSError:
        return cwd


def can_drop_privileges():
    return os.geteuid() == 0 and shutil.which("setpriv") is not None


def run_cmd(argv, cwd=None, stdin=b"", env=None, timeout=60, nofile=None, as_nobody=False, one_cpu=False):
    """Run the real binary (or anything): (returncode, stdout bytes, stderr bytes). A negative
    returncode is a terminating signal."""
    e = {"PATH": os.environ.get("PATH", ""), "RUST_BACKTRACE": "0"}
    e.update(noise_env())
    if env:
        e.update(env)
    argv = limited(argv, nofile, as_nobody, one_cpu)
    if cwd is not None and "PWD" not in e:
        cwd = logical_cwd(cwd)
        e["PWD"] = os.fsdecode(cwd)
    try:
        p = subprocess.run(argv, cwd=cwd, input=stdin, stdout=subprocess.PIPE, stderr=subprocess.PIPE,
                           env=e, timeout=timeout)
        return p.returncode, p.stdout, p.stderr
    except subprocess.TimeoutExpired as ex:
        return 124, ex.stdout or b"", (ex.stderr or b"") + b"[timeout]"


def pmap(fn, items, nproc=NCPU):
    with ThreadPoolExecutor(nproc) as ex:
        return list(ex.map(fn, items))


# ---------------------------------------------------------------- independent bencode reader (oracle side)

class BencodeError(Exception):
    pass


def bdecode_strict(b, i=0, depth=0):
    """Strict canonical bencode reader, written independently of imdl and of the Coq model.
    Returns (value, next_index); dicts are lists of (key, value) pairs in file order."""
    if depth > 5000:
        raise BencodeError("too deep")
    if i >= len(b):
        raise BencodeError("eof")
    c = b[i:i + 1]
    if c == b"i":
        j = b.index(b"e", i)
        t = b[i + 1:j]
        if not re.fullmatch(rb"(0|-?[1-9][0-9]*)", t):
            raise BencodeError("bad int %r" % t)
        return int(t), j + 1
    if c == b"l":
        i += 1; out = []
        while b[i:i + 1] != b"e":
            v, i = bdecode_strict(b, i, depth + 1); out.append(v)
        return out, i + 1
    if c == b"d":
        i += 1; out = []; last = None
        while b[i:i + 1] != b"e":
            if i >= len(b):
                raise BencodeError("eof")
            k, i = bdecode_strict(b, i, depth + 1)
            if not isinstance(k, bytes):
                raise BencodeError("non-string key")
            if last is not None and not (last < k):
                raise BencodeError("unsorted keys")
            last = k
            v, i = bdecode_strict(b, i, depth + 1); out.append((k, v))
        return ("d", out), i + 1
    if c.isdigit():
        j = b.index(b":", i)
        t = b[i:j]
        if not re.fullmatch(rb"(0|[1-9][0-9]*)", t):
            raise BencodeError("bad len")
        n = int(t)
        if j + 1 + n > len(b):
            raise BencodeError("short string")
        return b[j + 1:j + 1 + n], j + 1 + n
    raise BencodeError("bad token %r" % c)


def bencode(v):
    if isinstance(v, bool):
        v = int(v)
    if isinstance(v, int):
        return b"i%de" % v
    if isinstance(v, str):
        v = v.encode()
    if isinstance(v, (bytes, bytearray)):
        return b"%d:%s" % (len(v), bytes(v))
    if isinstance(v, list):
        return b"l" + b"".join(bencode(x) for x in v) + b"e"
    if isinstance(v, tuple) and v[0] == "d":
        return b"d" + b"".join(bencode(k) + bencode(x) for k, x in v[1]) + b"e"
    if isinstance(v, dict):
        items = sorted((k.encode() if isinstance(k, str) else k, x) for k, x in v.items())
        return b"d" + b"".join(bencode(k) + bencode(x) for k, x in items) + b"e"
    raise TypeError(v)


def dget(d, key):
    """lookup in a ('d', pairs) value"""
    if isinstance(key, str):
        key = key.encode()
    if not (isinstance(d, tuple) and d[0] == "d"):
        return None
    for k, v in d[1]:
        if k == key:
            return v
    return None


def info_span(b):
    """Byte span of the top-level `info` value, found by the independent reader."""
    if b[:1] != b"d":
        raise BencodeError("not a dict")
    i = 1
    while b[i:i + 1] != b"e":
        k, i = bdecode_strict(b, i)
        _, j = bdecode_strict(b, i)
        if k == b"info":
            return b[i:j]
        i = j
    raise BencodeError("no info")


# ---------------------------------------------------------------- results, evidence, violations

class Known:
    """known_findings.txt: `open: property=<id> key=<key> <text>` suppress matching violations;
    `fixed: ...` lines suppress nothing."""

    def __init__(self):
        self.open = []
        p = os.path.join(VERIF, "known_findings.txt")
        if os.path.exists(p):
            for line in open(p):
                line = line.strip()
                m = re.match(r"open:\s+property=(\S+)\s+key=(\S+)\s+(.*)", line)
                if m:
                    self.open.append({"property": m.group(1), "key": m.group(2), "text": m.group(3)})

    def match(self, pid, key):
        for k in self.open:
            if k["property"] == pid and k["key"] == key:
                return k
        return None


class Ctx:
    def __init__(self, pid, tier, seed):
        self.pid, self.tier, self.seed = pid, tier, seed
        self.rng = random.Random(seed * 1000003 + int(pid[1:]))
        self.t0 = time.time()
        self.violations = []      # dicts: kind, key, summary, case
        self.known_hits = {}      # key -> count
        self.known = Known()
        self.cov = {"evaluations": 0, "samples": [], "distribution": {}, "traces_validated_against_impl": 0,
                    "disagreements_checked": 0}
        self.nontrivial = set()
        self.assumptions = []
        self.obl = None
        self.bins = None
        self.modelrun = None
        self.notes = []
        self.soft = {}            # generators whose source the translator could not read (reference tables kept)

    @property
    def thorough(self):
        return self.tier == "thorough"

    def n(self, quick, thorough):
        """case count by tier. When a table-like source file of this property has changed shape so that the translator tie is
        not available (self.soft), the quick tier enlarges its correspondence sample: that run is then the only tie."""
        if self.thorough:
            return thorough
        if self.soft and thorough > quick:
            return min(thorough, quick * ESCALATE)
        return quick

    def count(self, key, k=1):
        d = self.cov["distribution"]
        d[key] = d.get(key, 0) + k

    def sample(self, s, cap=6):
        if len(self.cov["samples"]) < cap:
            self.cov["samples"].append(s)

    def distinct(self, key):
        self.nontrivial.add(key if isinstance(key, (str, bytes, int, tuple)) else repr(key))

    def violation(self, kind, summary, case, key=None):
        """kind: oracle-failure | model-impl-disagreement | obligation-broken | assumption-broken | infrastructure"""
        if key is not None:
            k = self.known.match(self.pid, key)
            if k:
                self.known_hits.setdefault(key, [0, k["text"]])[0] += 1
                return
        self.violations.append({"kind": kind, "summary": summary, "case": case, "key": key})

    # -- builds ------------------------------------------------------------
    def need_coq(self, pid=None, extra_targets=()):
        """translator + dependencies + the property file; records obligations."""
        pid = pid or self.pid
        gate = grep_gate()
        ok_t, tlog = run_translator()
        deps = property_deps(pid)
        ok_m, mlog = coq_make(list(deps) + list(extra_targets))
        res = check_property_file(pid) if ok_m else {
            "ok": False, "obligations": [{"name": n, "compiled": False, "assumptions": None, "discharged": False}
                                         for n in property_theorems(pid)],
            "log": mlog[-4000:], "wall_s": 0, "checker_cmd": "make (failed)"}
        res["translator_ok"] = ok_t
        res["translator_log"] = tlog[-2000:]
        st = translator_status()
        mine = transitive_generated(pid)
        self.soft = {g: v for g, v in st.items() if g in mine and v.get("status") == "kept-reference"}
        res["translator_status"] = {g: v for g, v in st.items() if g in mine}
        for g, v in sorted(self.soft.items()):
            log("%s: the translator can no longer read %s (%s); the tables of the last validated tree are kept and the "
                "correspondence run is enlarged" % (pid, v.get("origin"), v.get("reason")))
        res["grep_gate"] = gate
        if gate:
            res["ok"] = False
        if not ok_t:
            res["ok"] = False
        if self.thorough and res["ok"]:
            ok_c, summary, clog = coqchk_property(pid)
            res["coqchk"] = {"ok": ok_c, "summary": summary}
            if not ok_c:
                res["ok"] = False
                res["log"] = "coqchk -o did not report an axiom-free, check-respecting context:\n" + clog
        self.obl = res
        return res

    def need_rust(self):
        bins, blog = ensure_rust()
        if bins is None:
            self.violation("infrastructure", "/repo does not build with hooks on (RUSTFLAGS=%s)" % GUARD,
                           {"cargo_log": blog})
        self.bins = bins
        return bins

    def need_runner(self):
        exe, rlog = ensure_runner()
        if exe is None:
            self.violation("infrastructure", "model runner does not build", {"log": rlog[-4000:]})
        self.modelrun = exe
        return exe

    def harness(self, lines, nproc=NCPU, timeout=1200):
        return run_lines(self.bins["harness"], lines, nproc, timeout)

    def model(self, lines, nproc=NCPU, timeout=1200):
        return run_lines(self.modelrun, lines, nproc, timeout, big_stack=True)

    def imdl(self, args, cwd=None, stdin=b"", env=None, timeout=60, nofile=None, as_nobody=False, one_cpu=False):
        return run_cmd([self.bins["imdl"]] + list(args), cwd=cwd, stdin=stdin, env=env, timeout=timeout,
                       nofile=nofile, as_nobody=as_nobody, one_cpu=one_cpu)

    # -- finish ------------------------------------------------------------
    def finish(self, rule, trusted_base, level="proof", exhaustive=False, extra=None):
        obl = self.obl or {"obligations": [], "ok": False, "checker_cmd": "", "log": "no Coq step ran"}
        if unknown_env():
            msg = ("the sources consult environment variables the checks do not know (%s); every run of the real binary set them to "
                   "the path of an empty directory" % ", ".join(sorted(unknown_env())))
            self.notes.append(msg)
            print("NOTE property=%s %s" % (self.pid, msg))
        n_obl = len(obl["obligations"])
        n_dis = sum(1 for o in obl["obligations"] if o["discharged"])
        oracle_fail = [v for v in self.violations if v["kind"] in ("oracle-failure",)]
        if not obl["ok"]:
            broken = [o["name"] for o in obl["obligations"] if not o["discharged"]]
            self.violations.append({"kind": "obligation-broken", "key": None,
                                    "summary": "proof obligations no longer check: %s" % ", ".join(broken or ["<build>"]),
                                    "case": {"theorems": broken, "coq_log": obl.get("log", ""),
                                             "translator_ok": obl.get("translator_ok"),
                                             "translator_log": obl.get("translator_log"),
                                             "grep_gate": obl.get("grep_gate")}})
        for g, v in sorted(self.soft.items()):
            self.notes.append("translator tie unavailable for %s (%s): %s; the theorems were checked against the tables of the last "
                              "validated tree (coq/GeneratedRef/%s.v) and the model was tied to this tree by the correspondence run "
                              "alone, with the quick sample enlarged %dx" % (g, v.get("origin"), v.get("reason"), g, ESCALATE))
        cov = dict(self.cov)
        cov.update({
            "obligations": n_obl, "discharged": n_dis,
            "obligation_list": [{"name": o["name"], "discharged": o["discharged"], "assumptions": o["assumptions"]}
                                for o in obl["obligations"]],
            "checker_cmd": obl.get("checker_cmd", "") + ("; coqchk -o -silent (independent checker): %s" % json.dumps(obl["coqchk"]) if obl.get("coqchk") else ""),
            "trusted_base": trusted_base,
            "distinct_nontrivial": len(self.nontrivial),
            "rule": rule,
            "exhaustive": bool(exhaustive),
        })
        if extra:
            cov.update(extra)
        if not cov["samples"]:
            cov["samples"] = [o["name"] for o in obl["obligations"][:5]] or ["<none>"]
        ev = {"property_id": self.pid, "tier": self.tier, "seed": self.seed, "level": level,
              "coverage": cov, "assumptions": self.assumptions, "wall_s": round(time.time() - self.t0, 2),
              "violations": len(self.violations),
              "known_findings_hit": {k: v[0] for k, v in self.known_hits.items()}, "notes": self.notes,
              "translator": (self.obl or {}).get("translator_status", {})}
        os.makedirs(EVID, exist_ok=True)
        with open(os.path.join(EVID, self.pid + ".json"), "w") as f:
            json.dump(ev, f, indent=1, default=_js)
        for key, (cnt, text) in sorted(self.known_hits.items()):
            print("KNOWN-FINDING: property=%s %s (key=%s, %d case(s) this run)" % (self.pid, text, key, cnt))
        if not self.violations:
            for g, v in sorted(self.soft.items()):
                print("NOTE property=%s source of %s not readable by the translator (%s); reference tables kept, tie by "
                      "correspondence only (enlarged sample)" % (self.pid, g, v.get("reason")))
            print("OK property=%s tier=%s obligations=%d/%d evaluations=%d wall=%.0fs" %
                  (self.pid, self.tier, n_dis, n_obl, cov["evaluations"], time.time() - self.t0))
            return 0
        # one replay file per violation kind (first of each), primary = oracle failure when there is one
        order = {"oracle-failure": 0, "model-impl-disagreement": 1, "assumption-broken": 2,
                 "obligation-broken": 3, "infrastructure": 4}
        self.violations.sort(key=lambda v: order.get(v["kind"], 9))
        have_input = any(v["kind"] == "oracle-failure" for v in self.violations)
        written = []
        seen_kinds = set()
        for i, v in enumerate(self.violations):
            if v["kind"] in seen_kinds and i > 0:
                continue
            seen_kinds.add(v["kind"])
            path = os.path.join(REPLAY, "%s-%d-%d.json" % (self.pid, self.seed, len(written)))
            with open(path, "w") as f:
                json.dump({"property": self.pid, "tier": self.tier, "seed": self.seed, "kind": v["kind"],
                           "summary": v["summary"], "case": v["case"],
                           "all_violation_summaries": [x["summary"] for x in self.violations][:50]},
                          f, indent=1, default=_js)
            written.append((v, path))
        for v, path in written:
            tail = "" if (v["kind"] == "oracle-failure") else " no-failing-input-found"
            if have_input and v["kind"] != "oracle-failure":
                continue
            print("VIOLATION property=%s replay=%s%s" % (self.pid, path, tail))
            log("  [%s] %s" % (v["kind"], v["summary"]))
        return 1


def _js(o):
    if isinstance(o, (bytes, bytearray)):
        return {"hex": bytes(o).hex()}
    if isinstance(o, set):
        return sorted(o)
    return repr(o)


def property_theorems(pid):
    p = os.path.join(COQ, "Properties", pid + ".v")
    if not os.path.exists(p):
        return []
    return [m.group(2) for m in THM_RE.finditer(open(p).read())]


def property_deps(pid):
    """The .vo files Properties/<pid>.v requires (parsed from its Require lines)."""
    p = os.path.join(COQ, "Properties", pid + ".v")
    deps = []
    pat = r"From\s+Imdl\s+Require\s+(?:Import\s+|Export\s+)?((?:[A-Za-z_][A-Za-z0-9_]*(?:\.[A-Za-z_][A-Za-z0-9_]*)*\s*)+)\."
    for m in re.finditer(pat, coq_strip_comments(open(p).read())):
        for mod in m.group(1).split():
            deps.append(mod.replace(".", "/") + ".vo")
    return deps
