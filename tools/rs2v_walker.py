"""rs2v plug-in for C06: tables read from src/walker.rs, src/sort_key.rs, src/sort_order.rs, src/sort_spec.rs.

GenWalker.v:
  junk              the JUNK list (file names as byte lists)
  sort_keys         SortKey variants, kebab-case (strum serialize_all) in declaration order
  sort_orders       SortOrder variants, kebab-case, in declaration order
  default_key / default_order   SortSpec::default() (the key appended to every --sort-by list)
  key_arms          what each `match self.key` arm of compare_file_info compares
  order_arms        what each `match self.order` arm does with the ordering
  walkbuilder_calls the WalkBuilder configuration of Walker::files, call by call
Narrow grammar; anything else -> Untranslatable -> `translated = false`.
"""
import re
from rs2v import Untranslatable, read, strip_tests, strip_comments, coq_string


def kebab(s):
    return re.sub(r"(?<!^)(?=[A-Z])", "-", s).lower()


def blist(s):
    return "[" + "; ".join(str(b) for b in s.encode("utf-8")) + "]"


def enum_variants(src, name):
    m = re.search(r"#\[strum\(serialize_all = \"kebab-case\"\)\]\s*pub\(crate\) enum %s \{(.*?)\}" % name, src, re.S)
    if not m:
        raise Untranslatable("enum %s with strum kebab-case not found" % name)
    vs = [v.strip() for v in m.group(1).split(",") if v.strip()]
    for v in vs:
        if not re.fullmatch(r"[A-Z][A-Za-z0-9]*", v):
            raise Untranslatable("enum %s variant %r" % (name, v))
    return vs


def gen_walker(repo):
    w = strip_comments(strip_tests(read(repo, "src/walker.rs")))
    m = re.search(r"const JUNK: &\[&str\] = &\[(.*?)\];", w, re.S)
    if not m:
        raise Untranslatable("JUNK list not found")
    body = m.group(1).strip()
    junk = re.findall(r'"((?:[^"\\])*)"', body)
    if re.sub(r'"(?:[^"\\])*"', "", body).replace(",", "").strip():
        raise Untranslatable("JUNK list has something other than plain string literals: %r" % body)
    # the junk test itself: which component, under which flag
    jt = re.search(r"if ([^{};]*?) && JUNK\.contains\(&([^{};]*?)\) \{\s*continue;", w, re.S)
    if not jt:
        raise Untranslatable("junk test not found")
    junk_test = (" ".join(jt.group(1).split()), " ".join(jt.group(2).split()))
    # WalkBuilder configuration
    wb = re.search(r"walk_builder\s*((?:\.\w+\([^()]*\)\s*)+);", w)
    if not wb:
        raise Untranslatable("WalkBuilder configuration not found")
    calls = re.findall(r"\.(\w+)\(([^()]*)\)", wb.group(1))
    # name of a FilePath = last component
    fp = strip_comments(strip_tests(read(repo, "src/file_path.rs")))
    nm = re.search(r"pub\(crate\) fn name\(&self\) -> &str \{\s*(.*?)\s*\}", fp, re.S)
    if not nm:
        raise Untranslatable("FilePath::name not found")
    name_body = " ".join(nm.group(1).split())
    der = re.search(r"#\[derive\(([^)]*)\)\]\s*#\[serde\(transparent\)\]\s*pub\(crate\) struct FilePath \{\s*components: Vec<String>,\s*\}", fp)
    if not der:
        raise Untranslatable("FilePath is not a transparent struct over `components: Vec<String>`")
    derived_ord = all(t in [x.strip() for x in der.group(1).split(",")] for t in ("Ord", "PartialOrd", "Eq", "PartialEq"))

    keys = enum_variants(strip_comments(read(repo, "src/sort_key.rs")), "SortKey")
    so_src = strip_comments(read(repo, "src/sort_order.rs"))
    orders = enum_variants(so_src, "SortOrder")
    d = re.search(r"impl Default for SortOrder \{\s*fn default\(\) -> Self \{\s*Self::(\w+)\s*\}\s*\}", so_src)
    if not d:
        raise Untranslatable("SortOrder::default")
    default_order = d.group(1)
    ss = strip_comments(strip_tests(read(repo, "src/sort_spec.rs")))
    d = re.search(r"impl Default for SortSpec \{\s*fn default\(\) -> Self \{\s*Self \{\s*key: SortKey::(\w+),\s*order: (.*?),\s*\}\s*\}\s*\}", ss, re.S)
    if not d:
        raise Untranslatable("SortSpec::default")
    default_key = d.group(1)
    o = d.group(2).strip()
    if o == "SortOrder::default()":
        pass
    elif re.fullmatch(r"SortOrder::(\w+)", o):
        default_order = o.split("::")[1]
    else:
        raise Untranslatable("SortSpec::default order %r" % o)
    km = re.search(r"let ordering = match self\.key \{(.*?)\};", ss, re.S)
    om = re.search(r"match self\.order \{(.*?)\}\s*\}", ss, re.S)
    if not km or not om:
        raise Untranslatable("compare_file_info matches")
    key_arms = [(a, " ".join(b.split())) for a, b in re.findall(r"SortKey::(\w+) => (.*?),", km.group(1), re.S)]
    order_arms = [(a, " ".join(b.split())) for a, b in re.findall(r"SortOrder::(\w+) => (.*?),", om.group(1), re.S)]
    sort_call = re.search(r"file_infos\.(sort\w*)\((.*?)\);", w, re.S)
    if not sort_call:
        raise Untranslatable("sort call")

    def pairs(ps):
        return "[" + "; ".join("(%s, %s)" % (coq_string(a), coq_string(b)) for a, b in ps) + "]"

    out = "Definition translated : bool := true.\n"
    out += "(* const JUNK: file names, as UTF-8 bytes *)\n"
    out += "Definition junk : list (list N) :=\n  [ " + ";\n    ".join("%s (* %s *)" % (blist(j), j.replace("*)", "* )")) for j in junk) + " ].\n"
    out += "Definition junk_text : list string := [" + "; ".join(coq_string(j) for j in junk) + "].\n"
    out += "(* `if <flag test> && JUNK.contains(&<what>) { continue; }` *)\n"
    out += "Definition junk_test : string * string := (%s, %s).\n" % (coq_string(junk_test[0]), coq_string(junk_test[1]))
    out += "Definition filepath_name_body : string := %s.\n" % coq_string(name_body)
    out += "Definition filepath_derives_ord_on_components : bool := %s.\n" % ("true" if derived_ord else "false")
    out += "Definition walkbuilder_calls : list (string * string) := %s.\n" % pairs([(a, " ".join(b.split())) for a, b in calls])
    out += "Definition sort_keys : list string := [" + "; ".join(coq_string(kebab(k)) for k in keys) + "].\n"
    out += "Definition sort_orders : list string := [" + "; ".join(coq_string(kebab(k)) for k in orders) + "].\n"
    out += "Definition default_key : string := %s.\nDefinition default_order : string := %s.\n" % (
        coq_string(kebab(default_key)), coq_string(kebab(default_order)))
    out += "Definition key_arms : list (string * string) := %s.\n" % pairs([(kebab(a), b) for a, b in key_arms])
    out += "Definition order_arms : list (string * string) := %s.\n" % pairs([(kebab(a), b) for a, b in order_arms])
    out += "Definition sort_call : string * string := (%s, %s).\n" % (coq_string(sort_call.group(1)), coq_string(" ".join(sort_call.group(2).split())))
    return out


def gen_walker_fallback():
    return ("Definition translated : bool := false.\nDefinition junk : list (list N) := [].\n"
            "Definition junk_text : list string := [].\nDefinition junk_test : string * string := (\"\"%string, \"\"%string).\n"
            "Definition filepath_name_body : string := \"\"%string.\nDefinition filepath_derives_ord_on_components : bool := false.\n"
            "Definition walkbuilder_calls : list (string * string) := [].\n"
            "Definition sort_keys : list string := [].\nDefinition sort_orders : list string := [].\n"
            "Definition default_key : string := \"\"%string.\nDefinition default_order : string := \"\"%string.\n"
            "Definition key_arms : list (string * string) := [].\nDefinition order_arms : list (string * string) := [].\n"
            "Definition sort_call : string * string := (\"\"%string, \"\"%string).\n")


GENERATORS = {
    "GenWalker": (gen_walker, gen_walker_fallback,
                  "src/walker.rs, src/sort_key.rs, src/sort_order.rs, src/sort_spec.rs, src/file_path.rs"),
}
