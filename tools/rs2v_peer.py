"""rs2v plug-in for C11: the table-like parts of src/peer/** -> coq/Generated/GenPeer.v.

Read on every run (narrow grammar; anything else => `translated := false`):
  * peer/handshake.rs           HEADER byte string, SUPPORTS_EXTENSION_PROTOCOL, IMDL_RESERVED_BYTES, LENGTH and
                                the four `msg[a..b].copy_from_slice` / `buf[a..b]` field offsets, the reserved-byte index
  * peer/message/flavour.rs     `impl From<u8> for Flavour` arms and `impl From<Flavour> for u8` arms
  * peer/message/extended/id.rs `impl From<u8> for Id` arms
  * peer/message/extended/ut_metadata.rs  NAME, PIECE_LENGTH, struct field names, MsgType <-> u8 arms
  * peer/message/extended/handshake.rs    serde field names (after `rename`) of extended::Handshake, default id in `Default`
  * peer/connection.rs          size of the length prefix read by `recv`, `length > 1` payload rule, handshake compare
  * peer/client.rs              `msg.flavour != message::Flavour::Extended` filter; Ordering arms of handle_ut_metadata
"""
import re
from rs2v import Untranslatable, read, strip_tests, strip_comments, nlist, coq_string


def const_int(expr):
    expr = expr.strip().replace("_", "")
    m = re.fullmatch(r"0b([01]+)", expr)
    if m:
        return int(m.group(1), 2)
    m = re.fullmatch(r"0x([0-9a-fA-F]+)", expr)
    if m:
        return int(m.group(1), 16)
    m = re.fullmatch(r"(\d+)", expr)
    if m:
        return int(m.group(1))
    m = re.fullmatch(r"(\d+)\s*\*\s*\(\s*1\s*<<\s*(\d+)\s*\)", expr)
    if m:
        return int(m.group(1)) << int(m.group(2))
    raise Untranslatable("integer expression %r" % expr)


def rust_bytes_literal(s):
    out, i = [], 0
    while i < len(s):
        if s[i] == "\\":
            if s[i + 1] == "x":
                out.append(int(s[i + 2:i + 4], 16)); i += 4
            else:
                raise Untranslatable("escape in byte string %r" % s)
        else:
            out.append(ord(s[i])); i += 1
    return out


def arms(body, pat_l, pat_r):
    """`L => R,` arms; returns list of (L, R) strings"""
    res = []
    for m in re.finditer(r"^\s*(%s)\s*=>\s*(%s)\s*,?\s*$" % (pat_l, pat_r), body, re.M):
        res.append((m.group(1), m.group(2)))
    return res


def impl_body(src, header_re):
    m = re.search(header_re + r"\s*\{", src)
    if not m:
        raise Untranslatable("impl %s not found" % header_re)
    i = m.end(); depth = 1
    while depth and i < len(src):
        depth += {"{": 1, "}": -1}.get(src[i], 0); i += 1
    return src[m.end():i - 1]


def gen_peer(repo):
    # ---- handshake.rs
    hs = strip_comments(strip_tests(read(repo, "src/peer/handshake.rs")))
    m = re.search(r'const HEADER: &\[u8; (\d+)\] = b"((?:[^"\\]|\\.)*)";', hs)
    if not m:
        raise Untranslatable("HEADER")
    header = rust_bytes_literal(m.group(2))
    if len(header) != int(m.group(1)):
        raise Untranslatable("HEADER length")
    m = re.search(r"const SUPPORTS_EXTENSION_PROTOCOL: u8 = ([^;]+);", hs)
    if not m:
        raise Untranslatable("SUPPORTS_EXTENSION_PROTOCOL")
    ext_bit = const_int(m.group(1))
    m = re.search(r"const IMDL_RESERVED_BYTES: \[u8; 8\] = \[([^\]]+)\];", hs)
    if not m:
        raise Untranslatable("IMDL_RESERVED_BYTES")
    reserved = [ext_bit if x.strip() == "SUPPORTS_EXTENSION_PROTOCOL" else const_int(x) for x in m.group(1).split(",")]
    m = re.search(r"const LENGTH: usize = (\d+);", hs)
    if not m:
        raise Untranslatable("Handshake::LENGTH")
    hs_len = int(m.group(1))
    ser = dict((f, (int(a), int(b))) for a, b, f in
               re.findall(r"msg\[(\d+)\.\.(\d+)\]\.copy_from_slice\(&?(?:self\.)?(\w+)\)", hs))
    de = dict((f, (int(a), int(b))) for f, a, b in
              re.findall(r"(\w+)\.clone_from_slice\(&buf\[(\d+)\.\.(\d+)\]\)", hs))
    mh = re.search(r"if &buf\[(\d+)\.\.(\d+)\] != HEADER \{\s*return Err", hs)
    if not mh:
        raise Untranslatable("header check in try_from")
    de["HEADER"] = (int(mh.group(1)), int(mh.group(2)))
    for f in ("HEADER", "reserved", "infohash", "peer_id"):
        if ser.get(f) != de.get(f):
            raise Untranslatable("handshake field %s: serialize %r vs try_from %r" % (f, ser.get(f), de.get(f)))
    m = re.search(r"fn supports_extension_protocol\(&self\) -> bool \{\s*self\.reserved\[(\d+)\] & SUPPORTS_EXTENSION_PROTOCOL > 0\s*\}", hs)
    if not m:
        raise Untranslatable("supports_extension_protocol")
    ext_index = int(m.group(1))

    # ---- flavour.rs
    fl = strip_comments(read(repo, "src/peer/message/flavour.rs"))
    b_from = impl_body(fl, r"impl From<u8> for Flavour")
    b_into = impl_body(fl, r"impl From<Flavour> for u8")
    from_arms = arms(b_from, r"0x[0-9a-fA-F]+|\d+", r"Flavour::\w+")
    m = re.search(r"^\s*_\s*=>\s*Flavour::(\w+)", b_from, re.M)
    if not from_arms or not m:
        raise Untranslatable("Flavour::from(u8)")
    default_flavour = m.group(1)
    into = dict((l.split("::")[1], const_int(r)) for l, r in arms(b_into, r"Flavour::\w+", r"0x[0-9a-fA-F]+|\d+"))
    ftab = [(const_int(l), r.split("::")[1]) for l, r in from_arms]
    for code, name in ftab:
        if into.get(name) != code:
            raise Untranslatable("Flavour %s: from(u8) %d vs into u8 %r" % (name, code, into.get(name)))
    if "Extended" not in into or default_flavour not in into:
        raise Untranslatable("Flavour::Extended / default")

    # ---- id.rs
    idsrc = strip_comments(read(repo, "src/peer/message/extended/id.rs"))
    b_id = impl_body(idsrc, r"impl From<u8> for Id")
    id_arms = dict((r.split("::")[1], const_int(l)) for l, r in arms(b_id, r"0x[0-9a-fA-F]+|\d+", r"Id::\w+"))
    if set(id_arms) != {"Handshake", "UtMetadata"} or not re.search(r"_\s*=>\s*Id::NotImplemented\(ins\)", b_id):
        raise Untranslatable("extended::Id::from(u8) arms %r" % id_arms)

    # ---- ut_metadata.rs
    um = strip_comments(strip_tests(read(repo, "src/peer/message/extended/ut_metadata.rs")))
    m = re.search(r'const NAME: &\'static str = "([^"]+)";', um)
    m2 = re.search(r"const PIECE_LENGTH: usize = ([^;]+);", um)
    if not m or not m2:
        raise Untranslatable("UtMetadata consts")
    ut_name, piece_len = m.group(1), const_int(m2.group(1))
    sb = impl_body(um, r"pub\(crate\) struct UtMetadata")
    fields = re.findall(r"pub\(crate\) (\w+): ([\w<>]+),", sb)
    if fields != [("msg_type", "u8"), ("piece", "usize"), ("total_size", "Option<usize>")]:
        raise Untranslatable("UtMetadata fields %r" % fields)
    b_mt = impl_body(um, r"impl From<u8> for MsgType")
    mt = dict((r.split("::")[1], const_int(l)) for l, r in arms(b_mt, r"\d+", r"(?:Self|MsgType)::\w+"))
    md = re.search(r"_\s*=>\s*(?:Self|MsgType)::(\w+)", b_mt)
    if set(mt) != {"Request", "Data"} or not md or md.group(1) != "Reject":
        raise Untranslatable("MsgType::from(u8)")
    b_mt2 = impl_body(um, r"impl From<MsgType> for u8")
    mt2 = dict((l.split("::")[1], const_int(r)) for l, r in arms(b_mt2, r"MsgType::\w+", r"\d+"))
    if mt2.get("Request") != mt["Request"] or mt2.get("Data") != mt["Data"] or "Reject" not in mt2:
        raise Untranslatable("MsgType <-> u8 disagree")

    # ---- extended/handshake.rs
    eh = strip_comments(strip_tests(read(repo, "src/peer/message/extended/handshake.rs")))
    sb = impl_body(eh, r"pub\(crate\) struct Handshake")
    keys = []
    for attr, name, ty in re.findall(r"((?:#\[serde\((?:[^\]]*)\)\]\s*)*)pub\(crate\) (\w+): ([\w<>, ]+),", sb):
        r = re.search(r'rename = "([^"]+)"', attr)
        keys.append((r.group(1) if r else name, ty.strip()))
    want = [("m", "HashMap<String, u8>"), ("metadata_size", "Option<usize>"), ("p", "Option<u16>"),
            ("v", "Option<String>"), ("yourip", "Vec<u8>"), ("ipv6", "Vec<u8>"), ("ipv4", "Vec<u8>"),
            ("reqq", "Option<u64>")]
    if keys != want:
        raise Untranslatable("extended::Handshake schema %r" % keys)
    m = re.search(r"handshake\.with_message\(String::from\(ut_metadata::UtMetadata::NAME\), (\d+)\);", eh)
    if not m:
        raise Untranslatable("default ut_metadata id")
    own_ut_id = int(m.group(1))
    if own_ut_id != id_arms["UtMetadata"]:
        raise Untranslatable("imdl announces ut_metadata=%d but dispatches id %d" % (own_ut_id, id_arms["UtMetadata"]))

    # ---- connection.rs: the reader
    cn = strip_comments(strip_tests(read(repo, "src/peer/connection.rs")))
    body = " ".join(impl_body(cn, r"pub\(crate\) fn recv\(&mut self\) -> Result<Message>").split())
    repaired = re.search(r"let mut header = \[0u8; 5\]; loop \{ self \.stream \.read_exact\(&mut header\[\.\.4\]\) "
                         r"\.context\(error::Network\)\?; if header\[\.\.4\] != \[0; 4\] \{ break; \} \} self \.stream "
                         r"\.read_exact\(&mut header\[4\.\.\]\) \.context\(error::Network\)\?;", body)
    original = re.search(r"let mut header = \[0u8; 5\]; self \.stream \.read_exact\(&mut header\) \.context\(error::Network\)\?;", body)
    if repaired:
        first_read, skips = 4, 1
    elif original:
        first_read, skips = 5, 0
    else:
        raise Untranslatable("Connection::recv header read")
    if not re.search(r"let length = u32::from_be_bytes\( header\[\.\.4\]", body):
        raise Untranslatable("Connection::recv length")
    if not re.search(r"let payload = if length > 1 \{ let mut payload = Vec::new\(\); \(&self\.stream\) \.take\(\(length - 1\)\.into\(\)\) "
                     r"\.read_to_end\(&mut payload\) \.context\(error::Network\)\?; Some\(payload\) \} else \{ None \};", body):
        raise Untranslatable("Connection::recv payload rule")
    if not re.search(r"flavour: message::Flavour::from\(header\[4\]\)", body):
        raise Untranslatable("Connection::recv flavour byte")
    rh = " ".join(impl_body(cn, r"fn recv_handshake\(stream: &mut TcpStream, infohash: Infohash\) -> Result<Handshake>").split())
    if not re.search(r"let mut buf = \[0u8; Handshake::LENGTH\]; stream\.read_exact\(&mut buf\)\.context\(error::Network\)\?; "
                     r"let handshake = Handshake::try_from\(buf\)\?; if Infohash::from\(handshake\.infohash\) != infohash \{ "
                     r"return Err\(error::Error::PeerHandshakeInfohash\); \} Ok\(handshake\)", rh):
        raise Untranslatable("recv_handshake")

    # ---- client.rs: shape of the decisions the model mirrors
    cl = " ".join(strip_comments(strip_tests(read(repo, "src/peer/client.rs"))).split())
    checks = {
        "extension bit": r"if !conn\.supports_extension_protocol\(\) \{ return Err\(Error::PeerUtMetadataNotSupported\); \}",
        "fetch loop": r"loop \{ if let Some\(info\) = self\.info \{ return Ok\(info\); \} let msg = self\.conn\.recv\(\)\?; "
                      r"if msg\.flavour != message::Flavour::Extended \{ continue; \} self\.handle_msg\(&msg\)\?; \}",
        "dispatch": r"extended::Id::Handshake => self\.handle_extension_handshake\(payload\), extended::Id::UtMetadata => "
                    r"self\.handle_ut_metadata\(payload\), extended::Id::NotImplemented\(_\) => Ok\(\(\)\),",
        "piece index": r"let piece = info_buf\.len\(\) / extended::UtMetadata::PIECE_LENGTH; if msg\.piece != piece \{ return Err",
        "piece bound": r"if payload\[piece_offset\.\.\]\.len\(\) > extended::UtMetadata::PIECE_LENGTH \{ return Err",
        "size compare": r"return match info_buf\.len\(\)\.cmp\(&metadata_size\) \{ Ordering::Equal => \{ let info = "
                        r"Self::verify_info_dict\(info_buf, self\.infohash\)\?; self\.info = Some\(info\); self\.state = State::Idle; "
                        r"Ok\(\(\)\) \} Ordering::Less => self\.send_ut_metadata_request\(piece \+ 1\), Ordering::Greater => Err",
        "verify": r"let infohash = Infohash::from_bencoded_info_dict\( &bendy::serde::ser::to_bytes\(&info\)\.context\(error::InfoSerialize\)\?, \); "
                  r"if infohash == target \{ Ok\(info\) \} else \{ Err\(Error::PeerUtMetadataWrongInfohash\) \}",
    }
    for what, pat in checks.items():
        if not re.search(pat, cl):
            raise Untranslatable("peer/client.rs: %s no longer has the modelled shape" % what)

    out = "Definition translated : bool := true.\n"
    out += "(* peer/handshake.rs *)\n"
    out += "Definition hs_header : list N := %s.\n" % nlist(header)
    out += "Definition hs_length : N := %d.\n" % hs_len
    out += "Definition hs_ext_bit : N := %d.\nDefinition hs_ext_index : N := %d.\n" % (ext_bit, ext_index)
    out += "Definition hs_imdl_reserved : list N := %s.\n" % nlist(reserved)
    out += "(* (field, from, to) as used by both serialize and try_from *)\n"
    out += "Definition hs_layout : list (string * N * N) :=\n  [ " + ";\n    ".join(
        "(%s, %d, %d)" % (coq_string(f), ser[f][0], ser[f][1]) for f in ("HEADER", "reserved", "infohash", "peer_id")) + " ].\n"
    out += "(* peer/message/flavour.rs *)\n"
    out += "Definition flavour_codes : list (N * string) :=\n  [ " + "; ".join("(%d, %s)" % (c, coq_string(n)) for c, n in ftab) + " ].\n"
    out += "Definition flavour_extended : N := %d.\n" % into["Extended"]
    out += "(* peer/message/extended/id.rs *)\n"
    out += "Definition ext_id_handshake : N := %d.\nDefinition ext_id_ut_metadata : N := %d.\n" % (id_arms["Handshake"], id_arms["UtMetadata"])
    out += "(* peer/message/extended/ut_metadata.rs *)\n"
    out += "Definition ut_name : list N := %s.\n" % nlist(list(ut_name.encode()))
    out += "Definition ut_piece_length : N := %d.\n" % piece_len
    out += "Definition ut_fields : list (list N) := %s.\n" % nlist(nlist(list(f.encode())) for f, _ in fields)
    out += "Definition msg_type_request : N := %d.\nDefinition msg_type_data : N := %d.\n" % (mt["Request"], mt["Data"])
    out += "(* peer/message/extended/handshake.rs: serde keys of extended::Handshake, declaration order *)\n"
    out += "Definition ext_hs_keys : list (list N) := %s.\n" % nlist(nlist(list(k.encode())) for k, _ in keys)
    out += "Definition own_ut_metadata_id : N := %d.\n" % own_ut_id
    out += "(* peer/connection.rs: bytes read before the length is looked at; 1 = zero lengths are skipped *)\n"
    out += "Definition recv_first_read : N := %d.\nDefinition recv_skips_keepalive : N := %d.\n" % (first_read, skips)
    return out


def gen_peer_fallback():
    return ("Definition translated : bool := false.\n"
            "Definition hs_header : list N := [].\nDefinition hs_length : N := 0.\nDefinition hs_ext_bit : N := 0.\n"
            "Definition hs_ext_index : N := 0.\nDefinition hs_imdl_reserved : list N := [].\n"
            "Definition hs_layout : list (string * N * N) := [].\nDefinition flavour_codes : list (N * string) := [].\n"
            "Definition flavour_extended : N := 0.\nDefinition ext_id_handshake : N := 0.\nDefinition ext_id_ut_metadata : N := 0.\n"
            "Definition ut_name : list N := [].\nDefinition ut_piece_length : N := 0.\nDefinition ut_fields : list (list N) := [].\n"
            "Definition msg_type_request : N := 0.\nDefinition msg_type_data : N := 0.\nDefinition ext_hs_keys : list (list N) := [].\n"
            "Definition own_ut_metadata_id : N := 0.\nDefinition recv_first_read : N := 0.\nDefinition recv_skips_keepalive : N := 0.\n")


GENERATORS = {
    "GenPeer": (gen_peer, gen_peer_fallback,
                "src/peer/{handshake,connection,client}.rs, src/peer/message/{flavour.rs,extended/{id,ut_metadata,handshake}.rs}"),
}
