"""rs2v plug-in for C16: the tables of src/bytes.rs -> coq/Generated/GenBytes.v.

Reads, with a narrow grammar and nothing else:
  * `const NAME: u64 = 1 << k;` / `const NAME: u64 = OTHER << k;`  (multipliers as shift counts)
  * the digit class of `is_digit`:  matches!(c, '0'..='9' | '.')
  * the suffix match of `FromStr for Bytes`: arms `"lit" (| "lit")* => 1 | NAME,` and one `_ =>` error arm,
    matched on `suffix.to_lowercase().as_str()`
  * the final expression `Ok(Bytes(float_to_int(value * int_to_float(multiple))))`
  * `DISPLAY_SUFFIXES`, the `while value >= T { value /= D; i += 1; }` loop, the singular/plural
    words chosen by `value == 1.0`, the `{value:.P}` precision and the two `trim_end_matches` calls.
Anything else -> Untranslatable -> `translated = false` -> the obligation c16_sources_translated fails.
"""
import re
from rs2v import Untranslatable, read, strip_tests, strip_comments


def cps(s):
    return "[" + "; ".join(str(ord(c)) for c in s) + "]"


def lit_float_int(t):
    m = re.fullmatch(r"(\d+)\.0", t)
    if not m:
        raise Untranslatable("float literal %r is not an integer-valued literal" % t)
    return int(m.group(1))


def gen_bytes(repo):
    src = strip_comments(strip_tests(read(repo, "src/bytes.rs")))
    # --- multipliers
    shifts = {}
    for m in re.finditer(r"const\s+([A-Z]+)\s*:\s*u64\s*=\s*([^;]+);", src):
        name, e = m.group(1), m.group(2).strip()
        mm = re.fullmatch(r"(1|[A-Z]+)\s*<<\s*(\d+)", e)
        if not mm:
            raise Untranslatable("multiplier %s = %r is not a shift" % (name, e))
        base = 0 if mm.group(1) == "1" else shifts.get(mm.group(1))
        if base is None:
            raise Untranslatable("multiplier %s refers to unknown %s" % (name, mm.group(1)))
        shifts[name] = base + int(mm.group(2))
    # --- FromStr
    m = re.search(r"impl FromStr for Bytes \{(.*?)\n\}\n", src, re.S)
    if not m:
        raise Untranslatable("impl FromStr for Bytes not found")
    body = " ".join(re.sub(r"#\[allow\(.*?\)\]", "", m.group(1), flags=re.S).split())
    dm = re.search(r"fn is_digit\(c: &char\) -> bool \{ matches!\(c, '(.)'\.\.='(.)' \| '(.)'\) \}", body)
    if not dm:
        raise Untranslatable("is_digit is not matches!(c, 'a'..='b' | 'c')")
    for need in ("let digits = text.chars().take_while(is_digit).collect::<String>();",
                 "let suffix = text.chars().skip_while(is_digit).collect::<String>();",
                 "let value = digits.parse::<f64>().map_err(",
                 "let multiple = match suffix.to_lowercase().as_str() {",
                 "Ok(Bytes(float_to_int(value * int_to_float(multiple))))"):
        if need not in body:
            raise Untranslatable("FromStr for Bytes: expected %r" % need)
    if not (body.index("let digits") < body.index("let suffix") < body.index("let value") < body.index("let multiple")
            < body.index("Ok(Bytes(float_to_int")):
        raise Untranslatable("FromStr for Bytes: statements out of the expected order")
    mt = re.search(r"let multiple = match suffix\.to_lowercase\(\)\.as_str\(\) \{(.*?)_ => \{ return Err\(Error::ByteSuffix", body)
    if not mt:
        raise Untranslatable("suffix match: arms / error arm not recognised")
    units = []
    arms = mt.group(1).strip()
    pos = 0
    arm_re = re.compile(r'\s*((?:"[^"\\]*"\s*\|\s*)*"[^"\\]*")\s*=>\s*(1|[A-Z]+)\s*,')
    while pos < len(arms):
        am = arm_re.match(arms, pos)
        if not am:
            raise Untranslatable("suffix match arm %r" % arms[pos:pos + 40])
        sh = 0 if am.group(2) == "1" else shifts.get(am.group(2))
        if sh is None:
            raise Untranslatable("suffix arm uses unknown multiplier %s" % am.group(2))
        for lit in re.findall(r'"([^"\\]*)"', am.group(1)):
            units.append((lit, sh))
        pos = am.end()
    # the helpers are plain `as` casts
    for fn, ex in (("float_to_int", r"fn float_to_int\(x: f64\) -> u64 \{\s*(?:#!\[allow\(.*?\)\]\s*)?x as u64\s*\}"),
                   ("int_to_float", r"fn int_to_float\(x: u64\) -> f64 \{\s*(?:#!\[allow\(.*?\)\]\s*)?x as f64\s*\}")):
        if not re.search(ex, src, re.S):
            raise Untranslatable("%s is not a plain cast" % fn)
    # --- Display
    m = re.search(r"impl Display for Bytes \{(.*?)\n\}\n", src, re.S)
    if not m:
        raise Untranslatable("impl Display for Bytes not found")
    d = " ".join(m.group(1).split())
    sm = re.search(r"const DISPLAY_SUFFIXES: &\[&str\] = &\[(.*?)\];", d)
    if not sm or not re.fullmatch(r'\s*(?:"[^"\\]*"\s*,\s*)*"[^"\\]*"\s*,?\s*', sm.group(1)):
        raise Untranslatable("DISPLAY_SUFFIXES")
    suffixes = re.findall(r'"([^"\\]*)"', sm.group(1))
    pat = (r"let mut value = int_to_float\(self\.0\); let mut i = 0; "
           r"while value >= ([0-9.]+) \{ value /= ([0-9.]+); i \+= 1; \} "
           r'let suffix = if i == 0 \{ if value == 1\.0 \{ "([^"\\]*)" \} else \{ "([^"\\]*)" \} \} else \{ DISPLAY_SUFFIXES\[i - 1\] \}; '
           r'let formatted = format!\("\{value:\.(\d+)\}"\); '
           r"let trimmed = formatted\.trim_end_matches\('(.)'\)\.trim_end_matches\('(.)'\); "
           r'write!\(f, "\{trimmed\} \{suffix\}"\)')
    dm2 = re.search(pat, d)
    if not dm2:
        raise Untranslatable("Display for Bytes body is not the expected loop/format/trim sequence")
    thr, div = lit_float_int(dm2.group(1)), lit_float_int(dm2.group(2))
    out = "Definition translated : bool := true.\n"
    out += "(* digit class of FromStr: lo..=hi | extra *)\n"
    out += "Definition digit_lo : N := %d.\nDefinition digit_hi : N := %d.\nDefinition digit_extra : N := %d.\n" % (
        ord(dm.group(1)), ord(dm.group(2)), ord(dm.group(3)))
    out += "(* suffix table after lower-casing: (code points of the spelling, shift count of the multiplier) *)\n"
    out += "Definition units : list (list N * N) :=\n  [ " + ";\n    ".join(
        "(%s, %d) (* %r *)" % (cps(s), sh, s) for s, sh in units) + " ].\n"
    out += "Definition display_suffixes : list (list N) :=\n  [ " + ";\n    ".join(
        "%s (* %s *)" % (cps(s), s) for s in suffixes) + " ].\n"
    out += "Definition disp_threshold : N := %d.\nDefinition disp_divisor : N := %d.\nDefinition disp_precision : N := %s.\n" % (
        thr, div, dm2.group(5))
    out += "Definition word_one : list N := %s.\nDefinition word_many : list N := %s.\n" % (cps(dm2.group(3)), cps(dm2.group(4)))
    out += "Definition trim_first : N := %d.\nDefinition trim_second : N := %d.\n" % (ord(dm2.group(6)), ord(dm2.group(7)))
    return out


def gen_bytes_fallback():
    return ("Definition translated : bool := false.\n"
            "Definition digit_lo : N := 0.\nDefinition digit_hi : N := 0.\nDefinition digit_extra : N := 0.\n"
            "Definition units : list (list N * N) := [].\nDefinition display_suffixes : list (list N) := [].\n"
            "Definition disp_threshold : N := 0.\nDefinition disp_divisor : N := 0.\nDefinition disp_precision : N := 0.\n"
            "Definition word_one : list N := [].\nDefinition word_many : list N := [].\n"
            "Definition trim_first : N := 0.\nDefinition trim_second : N := 0.\n")


GENERATORS = {"GenBytes": (gen_bytes, gen_bytes_fallback, "src/bytes.rs")}
