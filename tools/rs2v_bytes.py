"""rs2v plug-in for C16: the tables and constants of src/bytes.rs -> coq/Generated/GenBytes.v.

Reads, with a narrow grammar and nothing else (a fact is emitted only when it was read):
  * `const NAME: u64 = 1 << k;` / `const NAME: u64 = OTHER << k;`  (multipliers as shift counts)
  * the digit class of `is_digit`:  matches!(c, '0'..='9' | '.')
  * the suffix match of `FromStr for Bytes`: arms `"lit" (| "lit")* => 1 | NAME,` and one `_ =>` error arm,
    matched on `suffix.to_lowercase().as_str()`
  * the well-formedness test `digits.parse::<f64>().map_err(..)?;` (its value unused) and the integer evaluation:
    `digits.split_once('C')`, the whole-part loop `integer.saturating_mul(B).saturating_add(u128::from(digit))` over
    `to_digit(B)`, the fraction loop over `.chars().rev()` with `(u128::from(digit) * multiple + partial) / B`, the
    saturating combination and `u64::try_from(count).unwrap_or(u64::MAX)`  (one base B everywhere)
  * `DISPLAY_SUFFIXES`, the `while value >= T { value /= D; unit = unit.saturating_mul(U); i += 1; }` loop, the
    singular/plural words chosen by `value == 1.0`, the decimals computed from the integer
    (`S * u128::from(self.0)`, quotient / remainder by `unit`, the three-way half-even match), the
    `"{}.{:0W}"` format of `hundredths / S`, `hundredths % S` and the two `trim_end_matches` calls.
Anything else -> Untranslatable (rs2v keeps the reference tables and the check says so).
"""
import re
from rs2v import Untranslatable, read, strip_tests, strip_comments


def cps(s):
    return "[" + "; ".join(str(ord(c)) for c in s) + "]"


def lit_float_int(t):
    m = re.fullmatch(r"(\d+)\.0", t)
    if not m:
        raise Untranslatable("float literal %r is not an integer-valued literal" % t)
    return int(m.group(1))


def gen_bytes(repo):
    src = strip_comments(strip_tests(read(repo, "src/bytes.rs")))
    # --- multipliers
    shifts = {}
    for m in re.finditer(r"const\s+([A-Z]+)\s*:\s*u64\s*=\s*([^;]+);", src):
        name, e = m.group(1), m.group(2).strip()
        mm = re.fullmatch(r"(1|[A-Z]+)\s*<<\s*(\d+)", e)
        if not mm:
            raise Untranslatable("multiplier %s = %r is not a shift" % (name, e))
        base = 0 if mm.group(1) == "1" else shifts.get(mm.group(1))
        if base is None:
            raise Untranslatable("multiplier %s refers to unknown %s" % (name, mm.group(1)))
        shifts[name] = base + int(mm.group(2))
    # --- FromStr
    m = re.search(r"impl FromStr for Bytes \{(.*?)\n\}\n", src, re.S)
    if not m:
        raise Untranslatable("impl FromStr for Bytes not found")
    body = " ".join(re.sub(r"#\[allow\(.*?\)\]", "", m.group(1), flags=re.S).split())
    dm = re.search(r"fn is_digit\(c: &char\) -> bool \{ matches!\(c, '(.)'\.\.='(.)' \| '(.)'\) \}", body)
    if not dm:
        raise Untranslatable("is_digit is not matches!(c, 'a'..='b' | 'c')")
    for need in ("let digits = text.chars().take_while(is_digit).collect::<String>();",
                 "let suffix = text.chars().skip_while(is_digit).collect::<String>();",
                 "; digits.parse::<f64>().map_err(|source| Error::ByteParse { text: text.to_owned(), source, })?; let multiple = match",
                 "let multiple = match suffix.to_lowercase().as_str() {"):
        if need not in body:
            raise Untranslatable("FromStr for Bytes: expected %r" % need)
    ev = re.search(
        r"\}; let multiple = u128::from\(multiple\); "
        r"let \(whole, fraction\) = digits\.split_once\('(.)'\)\.unwrap_or\(\(&digits, \"\"\)\); "
        r"let mut integer: u128 = 0; "
        r"for digit in whole\.chars\(\)\.filter_map\(\|c\| c\.to_digit\((\d+)\)\) \{ "
        r"integer = integer\.saturating_mul\((\d+)\)\.saturating_add\(u128::from\(digit\)\); \} "
        r"let mut partial: u128 = 0; "
        r"for digit in fraction\.chars\(\)\.rev\(\)\.filter_map\(\|c\| c\.to_digit\((\d+)\)\) \{ "
        r"partial = \(u128::from\(digit\) \* multiple \+ partial\) / (\d+); \} "
        r"let count = integer\.saturating_mul\(multiple\)\.saturating_add\(partial\); "
        r"Ok\(Bytes\(u64::try_from\(count\)\.unwrap_or\(u64::MAX\)\)\) \}$", body)
    if not ev:
        raise Untranslatable("FromStr for Bytes: the integer evaluation after the unit table is not the expected "
                             "split / whole loop / reversed fraction loop / saturating sum")
    bases = {int(ev.group(k)) for k in (2, 3, 4, 5)}
    if len(bases) != 1:
        raise Untranslatable("FromStr for Bytes: the number base differs between to_digit, the whole loop and the fraction loop: %r" % sorted(bases))
    parse_base = bases.pop()
    split_char = ev.group(1)
    if not (body.index("let digits") < body.index("let suffix") < body.index("digits.parse::<f64>") < body.index("let multiple = match")
            < body.index("let multiple = u128::from")):
        raise Untranslatable("FromStr for Bytes: statements out of the expected order")
    mt = re.search(r"let multiple = match suffix\.to_lowercase\(\)\.as_str\(\) \{(.*?)_ => \{ return Err\(Error::ByteSuffix", body)
    if not mt:
        raise Untranslatable("suffix match: arms / error arm not recognised")
    units = []
    arms = mt.group(1).strip()
    pos = 0
    arm_re = re.compile(r'\s*((?:"[^"\\]*"\s*\|\s*)*"[^"\\]*")\s*=>\s*(1|[A-Z]+)\s*,')
    while pos < len(arms):
        am = arm_re.match(arms, pos)
        if not am:
            raise Untranslatable("suffix match arm %r" % arms[pos:pos + 40])
        sh = 0 if am.group(2) == "1" else shifts.get(am.group(2))
        if sh is None:
            raise Untranslatable("suffix arm uses unknown multiplier %s" % am.group(2))
        for lit in re.findall(r'"([^"\\]*)"', am.group(1)):
            units.append((lit, sh))
        pos = am.end()
    # the helper is a plain `as` cast
    if not re.search(r"fn int_to_float\(x: u64\) -> f64 \{\s*(?:#!\[allow\(.*?\)\]\s*)?x as f64\s*\}", src, re.S):
        raise Untranslatable("int_to_float is not a plain cast")
    # --- Display
    m = re.search(r"impl Display for Bytes \{(.*?)\n\}\n", src, re.S)
    if not m:
        raise Untranslatable("impl Display for Bytes not found")
    d = " ".join(m.group(1).split())
    sm = re.search(r"const DISPLAY_SUFFIXES: &\[&str\] = &\[(.*?)\];", d)
    if not sm or not re.fullmatch(r'\s*(?:"[^"\\]*"\s*,\s*)*"[^"\\]*"\s*,?\s*', sm.group(1)):
        raise Untranslatable("DISPLAY_SUFFIXES")
    suffixes = re.findall(r'"([^"\\]*)"', sm.group(1))
    pat = (r"let mut value = int_to_float\(self\.0\); let mut i = 0; let mut unit: u128 = 1; "
           r"while value >= ([0-9.]+) \{ value /= ([0-9.]+); unit = unit\.saturating_mul\((\d+)\); i \+= 1; \} "
           r'let suffix = if i == 0 \{ if value == 1\.0 \{ "([^"\\]*)" \} else \{ "([^"\\]*)" \} \} else \{ DISPLAY_SUFFIXES\[i - 1\] \}; '
           r"let scaled = (\d+) \* u128::from\(self\.0\); "
           r"let quotient = scaled / unit; "
           r"let hundredths = match \(2 \* \(scaled % unit\)\)\.cmp\(&unit\) \{ "
           r"Ordering::Less => quotient, Ordering::Equal => quotient \+ quotient % 2, Ordering::Greater => quotient \+ 1, \}; "
           r'let formatted = format!\("\{\}(.)\{:0(\d+)\}", hundredths / (\d+), hundredths % (\d+)\); '
           r"let trimmed = formatted\.trim_end_matches\('(.)'\)\.trim_end_matches\('(.)'\); "
           r'write!\(f, "\{trimmed\} \{suffix\}"\)')
    dm2 = re.search(pat, d)
    if not dm2:
        raise Untranslatable("Display for Bytes body is not the expected unit loop / exact hundredths / format / trim sequence")
    thr, div = lit_float_int(dm2.group(1)), lit_float_int(dm2.group(2))
    unit_factor = int(dm2.group(3))
    scales = {int(dm2.group(6)), int(dm2.group(9)), int(dm2.group(10))}
    if len(scales) != 1:
        raise Untranslatable("Display for Bytes: the scale of the decimals differs between its uses: %r" % sorted(scales))
    disp_scale = scales.pop()
    width = int(dm2.group(8))
    if 10 ** width != disp_scale:
        raise Untranslatable("Display for Bytes: %d decimals printed for a scale of %d" % (width, disp_scale))
    point = dm2.group(7)
    out = "Definition translated : bool := true.\n"
    out += "(* digit class of FromStr: lo..=hi | extra *)\n"
    out += "Definition digit_lo : N := %d.\nDefinition digit_hi : N := %d.\nDefinition digit_extra : N := %d.\n" % (
        ord(dm.group(1)), ord(dm.group(2)), ord(dm.group(3)))
    out += "(* suffix table after lower-casing: (code points of the spelling, shift count of the multiplier) *)\n"
    out += "Definition units : list (list N * N) :=\n  [ " + ";\n    ".join(
        "(%s, %d) (* %r *)" % (cps(s), sh, s) for s, sh in units) + " ].\n"
    out += "Definition display_suffixes : list (list N) :=\n  [ " + ";\n    ".join(
        "%s (* %s *)" % (cps(s), s) for s in suffixes) + " ].\n"
    out += "Definition disp_threshold : N := %d.\nDefinition disp_divisor : N := %d.\nDefinition disp_unit_factor : N := %d.\n" % (
        thr, div, unit_factor)
    out += "(* the two decimals are computed from the integer itself: scale * n / unit, ties to even *)\n"
    out += "Definition decimals_from_integer : bool := true.\n"
    out += "Definition disp_scale : N := %d.\nDefinition disp_precision : N := %d.\nDefinition disp_point : N := %d.\n" % (
        disp_scale, width, ord(point))
    out += "Definition word_one : list N := %s.\nDefinition word_many : list N := %s.\n" % (cps(dm2.group(4)), cps(dm2.group(5)))
    out += "Definition trim_first : N := %d.\nDefinition trim_second : N := %d.\n" % (ord(dm2.group(11)), ord(dm2.group(12)))
    out += "(* FromStr evaluates the accepted digits in integer arithmetic *)\n"
    out += "Definition parse_base : N := %d.\nDefinition split_char : N := %d.\n" % (parse_base, ord(split_char))
    return out


def gen_bytes_fallback():
    return ("Definition translated : bool := false.\n"
            "Definition digit_lo : N := 0.\nDefinition digit_hi : N := 0.\nDefinition digit_extra : N := 0.\n"
            "Definition units : list (list N * N) := [].\nDefinition display_suffixes : list (list N) := [].\n"
            "Definition disp_threshold : N := 0.\nDefinition disp_divisor : N := 0.\nDefinition disp_unit_factor : N := 0.\n"
            "Definition decimals_from_integer : bool := false.\n"
            "Definition disp_scale : N := 0.\nDefinition disp_precision : N := 0.\nDefinition disp_point : N := 0.\n"
            "Definition word_one : list N := [].\nDefinition word_many : list N := [].\n"
            "Definition trim_first : N := 0.\nDefinition trim_second : N := 0.\n"
            "Definition parse_base : N := 0.\nDefinition split_char : N := 0.\n")


GENERATORS = {"GenBytes": (gen_bytes, gen_bytes_fallback, "src/bytes.rs")}
