"""rs2v plug-in for C07: what `torrent show` prints and which bencode keys it reads.

GenSummary.v, regenerated from the Rust source on every run:
  json_fields   TorrentSummaryJson's fields in declaration order (serde_json prints them in that order)
  text_rows     the calls table.row/size/tiers/list/directory in TorrentSummary::table, in source order:
                (label, kind)
  private_yes / private_no   the two spellings of the Private row
  schema        (struct, bencode key, optional) for every serde field of Metainfo / Info / Mode / FileInfo
                (rename attributes applied; `default` = optional; the flattened `mode` is expanded by variant)
Text is emitted as lists of byte values so that the file depends on nothing but the standard library."""
import re
from rs2v import Untranslatable, read, strip_tests, strip_comments


def blist(s):
    return "[" + "; ".join(str(b) for b in s.encode("utf-8")) + "]"


def struct_body(src, header_re, what):
    m = re.search(header_re + r"\s*\{", src)
    if not m:
        raise Untranslatable(what + " not found")
    i = m.end(); depth = 1
    while i < len(src) and depth:
        depth += {"{": 1, "}": -1}.get(src[i], 0); i += 1
    if depth:
        raise Untranslatable(what + ": unbalanced braces")
    return src[m.end():i - 1]


def serde_fields(body, what):
    """[(key, optional, flatten, rust_type)] of a struct / struct-variant body: `#[serde(...)] pub(crate) name: Type,`"""
    out = []
    pos = 0
    pat = re.compile(r"\s*((?:#\[[^\]]*\]\s*)*)(?:pub\(crate\)\s+|pub\s+)?([a-z_][a-z0-9_]*)\s*:\s*([^,\n]+?)\s*,", re.S)
    while True:
        m = pat.match(body, pos)
        if not m:
            break
        attrs, name, ty = m.group(1), m.group(2), m.group(3)
        serde = " ".join(re.findall(r"#\[serde\((.*?)\)\]", attrs, re.S))
        for word in re.findall(r"[a-z_]+(?=\s*(?:=|,|$))", re.sub(r'"[^"]*"', '""', serde)):
            if word not in ("rename", "default", "with", "skip_serializing_if", "flatten"):
                raise Untranslatable("%s.%s: serde attribute %r is outside the grammar" % (what, name, word))
        rn = re.search(r'rename\s*=\s*"([^"]*)"', serde)
        out.append((rn.group(1) if rn else name, bool(re.search(r"\bdefault\b", serde)), bool(re.search(r"\bflatten\b", serde)), ty))
        pos = m.end()
    if body[pos:].strip():
        raise Untranslatable("%s: cannot read field list near %r" % (what, body[pos:].strip()[:60]))
    if not out:
        raise Untranslatable(what + ": no fields")
    return out


def gen_summary(repo):
    ts = strip_comments(strip_tests(read(repo, "src/torrent_summary.rs")))
    # --- JSON struct
    jb = struct_body(ts, r"#\[derive\(Serialize\)\]\s*pub\(crate\) struct TorrentSummaryJson", "TorrentSummaryJson")
    jfields = serde_fields(jb, "TorrentSummaryJson")
    if any(k != k.strip() for k, *_ in jfields):
        raise Untranslatable("TorrentSummaryJson field names")
    # the initialiser must name each field once, in any order (serde prints in declaration order)
    init = struct_body(ts, r"\n\s*TorrentSummaryJson", "TorrentSummaryJson initialiser")
    # --- text table
    tb = struct_body(ts, r"fn table\(&self\) -> Table", "TorrentSummary::table")
    rows = re.findall(r"table\s*\.\s*(row|size|tiers|list|directory)\(\s*\"([^\"]*)\"", tb)
    if len(rows) != len(re.findall(r"table\s*\.\s*[a-z_]+\(", tb)):
        raise Untranslatable("a table.* call in TorrentSummary::table is outside the grammar")
    if not rows:
        raise Untranslatable("no rows in TorrentSummary::table")
    pm = re.search(r'"Private",\s*if self\.metainfo\.info\.private\.unwrap_or\(false\)\s*\{\s*"([^"]*)"\s*\}\s*else\s*\{\s*"([^"]*)"\s*\}', tb)
    if not pm:
        raise Untranslatable("Private row is not the expected if/else of two literals")
    # --- serde schema
    schema = []
    for struct, rel, hdr in (("Metainfo", "src/metainfo.rs", r"pub\(crate\) struct Metainfo"),
                             ("Info", "src/info.rs", r"pub\(crate\) struct Info"),
                             ("FileInfo", "src/file_info.rs", r"pub\(crate\) struct FileInfo")):
        src = strip_comments(strip_tests(read(repo, rel)))
        for key, optional, flatten, ty in serde_fields(struct_body(src, hdr, struct), struct):
            if flatten:
                if not (struct == "Info" and ty == "Mode"):
                    raise Untranslatable("unexpected flatten on %s.%s" % (struct, key))
                ms = strip_comments(strip_tests(read(repo, "src/mode.rs")))
                if not re.search(r"#\[serde\(untagged\)\]\s*pub\(crate\) enum Mode", ms):
                    raise Untranslatable("Mode is not an untagged enum")
                eb = struct_body(ms, r"pub\(crate\) enum Mode", "Mode")
                variants = re.findall(r"([A-Z][A-Za-z]*)\s*\{", eb)
                if variants != ["Single", "Multiple"]:
                    raise Untranslatable("Mode variants %r" % variants)
                for vn in variants:
                    for k2, o2, f2, _ in serde_fields(struct_body(eb, vn, "Mode::" + vn), "Mode::" + vn):
                        if f2:
                            raise Untranslatable("flatten inside Mode")
                        schema.append(("Mode::" + vn, k2, o2))
            else:
                schema.append((struct, key, optional))
    # Info's own fields first, then the flattened variants (the order model_schema uses)
    order = {"Metainfo": 0, "Info": 1, "Mode::Single": 2, "Mode::Multiple": 3, "FileInfo": 4}
    schema = sorted(schema, key=lambda t: order[t[0]])   # stable: keeps declaration order within a struct
    out = "Definition translated : bool := true.\n\n"
    out += "(* %s *)\n" % ", ".join(k for k, *_ in jfields)
    out += "Definition json_fields : list (list N) :=\n  [ " + ";\n    ".join(blist(k) for k, *_ in jfields) + " ].\n\n"
    out += "Definition text_rows : list (list N * string) :=\n  [ " + ";\n    ".join(
        "(%s, \"%s\"%%string) (* %s *)" % (blist(label), kind, label) for kind, label in rows) + " ].\n\n"
    out += "Definition private_yes : list N := %s. (* %s *)\nDefinition private_no : list N := %s. (* %s *)\n\n" % (
        blist(pm.group(1)), pm.group(1), blist(pm.group(2)), pm.group(2))
    out += "Definition schema : list (string * list N * bool) :=\n  [ " + ";\n    ".join(
        "(\"%s\"%%string, %s, %s) (* %s *)" % (s, blist(k), "true" if o else "false", k) for s, k, o in schema) + " ].\n"
    return out


def gen_summary_fallback():
    return ("Definition translated : bool := false.\nDefinition json_fields : list (list N) := [].\n"
            "Definition text_rows : list (list N * string) := [].\nDefinition private_yes : list N := [].\n"
            "Definition private_no : list N := [].\nDefinition schema : list (string * list N * bool) := [].\n")


GENERATORS = {
    "GenSummary": (gen_summary, gen_summary_fallback,
                   "src/torrent_summary.rs, src/metainfo.rs, src/info.rs, src/mode.rs, src/file_info.rs"),
}
