#!/bin/sh
# seedtest.sh <patch.diff> <ID> [<ID>...] — apply a seeded breaking change to /repo, run the
# quick checks named, undo the change straight afterwards. Prints each check's verdict.
# (development aid; not registered in MANIFEST.json)
patch="$1"; shift
cd /verif || exit 2
if [ -n "$(git -C /repo status --porcelain --untracked-files=no)" ]; then echo "/repo is dirty; refusing"; exit 2; fi
git -C /repo apply "$patch" || { echo "patch does not apply"; exit 2; }
rc_all=0
export VERIF_EVIDENCE=/tmp/seedtest-evidence
for id in "$@"; do
  out=$(./check "$id" --tier quick 2>&1); rc=$?
  echo "== $id rc=$rc"; echo "$out" | grep -E "^(VIOLATION|KNOWN-FINDING|OK)|^  \[" | head -8
  [ $rc -eq 0 ] && rc_all=1   # a check that passes on a breaking change = missed
done
git -C /repo checkout -- . ; git -C /repo clean -fdq src 2>/dev/null
exit $rc_all
