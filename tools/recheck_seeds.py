#!/usr/bin/env python3
"""recheck_seeds.py [--kind seeded|benign] [--only C14,C12-3,...] [--jobs N] [--checks C02,C03]

Re-runs the quick checks against every filed change (seeded/: breaking, must be reported; benign/: harmless, must not be),
each in an isolated scratch worktree + cache under /tmp/recheck/<worker>/ (removed at the end), and records the verdict
in the change's meta.json ("recheck"). The check run for a change is the one of its property unless --checks is given.
Development aid; not registered in MANIFEST.json."""
import argparse, json, os, re, shutil, subprocess, sys, time
from concurrent.futures import ThreadPoolExecutor
from queue import Queue

ROOT = "/tmp/recheck"


def sh(cmd, cwd=None, env=None, timeout=3600):
    e = dict(os.environ); e.update({"CARGO_NET_OFFLINE": "true", "CARGO_TERM_COLOR": "never"})
    if env:
        e.update(env)
    p = subprocess.run(cmd, shell=isinstance(cmd, str), cwd=cwd, env=e, stdout=subprocess.PIPE, stderr=subprocess.STDOUT, timeout=timeout)
    return p.returncode, p.stdout.decode("utf-8", "replace")


def main():
    ap = argparse.ArgumentParser()
    ap.add_argument("--kind", default="seeded")
    ap.add_argument("--only", default="")
    ap.add_argument("--jobs", type=int, default=3)
    ap.add_argument("--checks", default="")
    a = ap.parse_args()
    base = os.path.join("/verif", a.kind)
    only = [x for x in a.only.split(",") if x]
    ids = sorted(d for d in os.listdir(base) if os.path.exists(os.path.join(base, d, "patch.diff")))
    if only:
        ids = [d for d in ids if d in only or d.split("-")[0] in only]

    def obsolete(d):
        try:
            return bool(json.load(open(os.path.join(base, d, "meta.json"))).get("obsolete"))
        except Exception:
            return False
    ids = [d for d in ids if not obsolete(d)]      # written against an older /repo HEAD and overtaken by a fix
    head = subprocess.run(["git", "-C", "/repo", "rev-parse", "HEAD"], stdout=subprocess.PIPE).stdout.decode().strip()
    workers = Queue()
    for w in range(a.jobs):
        wd = os.path.join(ROOT, "w%d" % w)
        os.makedirs(wd, exist_ok=True)
        if not os.path.isdir(wd + "/repo"):
            sh(["git", "-C", "/repo", "worktree", "add", "--detach", wd + "/repo", head])
        if not os.path.isdir(wd + "/cache/target") and os.path.isdir("/verif/.cache/target"):
            os.makedirs(wd + "/cache", exist_ok=True)
            sh(["cp", "-a", "/verif/.cache/target", wd + "/cache/target"])
        workers.put(wd)

    def one(sid):
        wd = workers.get()
        try:
            wt = wd + "/repo"
            sh("git checkout -q --detach %s && git checkout -- . && git clean -fdq" % head, cwd=wt)
            patch = os.path.join(base, sid, "patch.diff")
            rc, out = sh(["git", "apply", patch], cwd=wt)
            if rc != 0:
                return sid, {"error": "patch does not apply: " + out[-300:]}
            checks = a.checks.split(",") if a.checks else [sid.split("-")[0]]
            res = {}
            for cid in checks:
                t0 = time.time()
                rc, out = sh(["./check", cid, "--tier", "quick"], cwd="/verif",
                             env={"VERIF_REPO": wt, "VERIF_CACHE": wd + "/cache", "VERIF_EVIDENCE": wd + "/evidence"})
                lines = [l for l in out.splitlines() if l.startswith(("VIOLATION", "OK ", "KNOWN-FINDING", "NOTE", "  ["))]
                res[cid] = {"rc": rc, "wall_s": round(time.time() - t0), "lines": [l[:400] for l in lines[:8]]}
            sh("git checkout -- . && git clean -fdq", cwd=wt)
            return sid, res
        finally:
            workers.put(wd)

    bad = 0
    with ThreadPoolExecutor(a.jobs) as ex:
        for sid, res in ex.map(one, ids):
            mp = os.path.join(base, sid, "meta.json")
            meta = json.load(open(mp)) if os.path.exists(mp) else {}
            meta["recheck"] = {"at": time.strftime("%Y-%m-%dT%H:%M:%S"), "repo_head": head, "checks": res}
            alarms = sorted(c for c, v in res.items() if isinstance(v, dict) and v.get("rc") == 1 and
                            any(l.startswith("VIOLATION") for l in v.get("lines", [])))
            if a.kind == "seeded":
                old = set(meta.get("caught_by") or [])
                meta["caught_by"] = sorted((old - set(res)) | set(alarms))
                good = bool(alarms)
            else:
                meta["alarms"] = alarms
                good = not alarms
            json.dump(meta, open(mp, "w"), indent=1)
            bad += 0 if good else 1
            first = "; ".join((v.get("lines") or ["?"])[0][:150] if isinstance(v, dict) and "lines" in v else str(v)[:150] for v in res.values()) if isinstance(res, dict) else str(res)
            print("%s %-8s %s  %s" % ("ok  " if good else "BAD ", sid, ",".join(alarms) or "-", first), flush=True)
    for w in range(a.jobs):
        wd = os.path.join(ROOT, "w%d" % w)
        sh(["git", "-C", "/repo", "worktree", "remove", "--force", wd + "/repo"])
    shutil.rmtree(ROOT, ignore_errors=True)
    print("done; %d not as wanted" % bad)
    return 1 if bad else 0


if __name__ == "__main__":
    sys.exit(main())
