"""rs2v plug-in for C09: the order of effects in Create::run and CreateContent::from_create.

Emits coq/Generated/GenCreateOrder.v: the tags of a fixed set of source markers in *source order*
(each marker must occur exactly once in the function body), whether every file-opening / writing
marker lies inside the `if !self.dry_run { … }` block, whether torrent_path is the expression the
model mirrors, that the torrent name is checked (CreateContent::check_name over
FilePath::is_normal_component, the test Model/CreateFs.v [name_ok] mirrors) in both branches of
from_create at the position the model gives it, and the number of filesystem-mutating call sites
in the two files. The obligation
c09_source_order compares these with Model/CreateOrder.v, so a reordering of Create::run breaks
an obligation even when no generated case happens to notice."""
import re
from rs2v import Untranslatable, read, strip_tests, strip_comments, coq_string

RUN_MARKERS = [
    ("tier", r"error::AnnounceUrlParse"),
    ("private", r"Error::PrivateTrackerless"),
    ("content", r"CreateContent::from_create\("),
    ("resolve", r"content\.output\.resolve\(env\)\?"),
    ("zero", r"Error::PieceLengthZero"),
    ("uneven", r"Error::PieceLengthUneven"),
    ("small", r"Error::PieceLengthSmall"),
    ("isdir", r"path\.is_dir\(\)"),
    ("push", r'path\.push\(format!\("\{\}\.torrent", content\.name\)\)'),
    ("exists", r"!self\.force && path\.exists\(\)"),
    ("toolarge", r"as_piece_length\(\)\?"),
    ("hash", r"hasher\.hash_files\("),
    ("serialize", r"metainfo\.serialize\(\)\?"),
    ("dryguard", r"if !self\.dry_run \{"),
    ("forcebranch", r"if self\.force \{"),
    ("trunc", r"open_options\.write\(true\)\.create\(true\)\.truncate\(true\)"),
    ("excl", r"open_options\.write\(true\)\.create_new\(true\)"),
    ("open", r"\.open\(path\)"),
    ("write", r"file\.write_all\(&bytes\)"),
    ("show", r"if self\.show \{"),
    ("link", r"if self\.print_magnet_link \{"),
    ("opener", r"Platform::open_file\("),
]
CONTENT_MARKERS = [
    ("resolve_input", r"Walker::new\(&env\.resolve\(path\)\?\)"),
    ("glob", r"\.globs\(&create\.globs\)\?"),
    ("walk", r"\.files\(\)\?"),
    ("fname", r"\.file_name\(\)"),
    ("decode", r"Error::FilenameDecode"),
    ("namecheck", r"Self::check_name\(&name\)\?"),
    ("default", r"Self::torrent_path\(path, &name\)"),
]
# the `InputTarget::Stdin => { … }` arm of from_create
STDIN_MARKERS = [
    ("stdin_name", r"Expected `--name` to be set"),
    ("stdin_namecheck", r"Self::check_name\(&name\)\?"),
    ("stdin_output", r"Expected `--output` to be set"),
]
# the only shapes of the name test the model's [name_ok] is known to mirror (white space removed)
CHECK_NAME_BODY = "{ifFilePath::is_normal_component(name){Ok(())}else{Err(Error::NameInvalid{name:name.to_owned(),})}}"
IS_NORMAL_BODY = ("{letmutparsed=Path::new(component).components();matches!((parsed.next(),parsed.next()),"
                  "(Some(path::Component::Normal(name)),None)ifname==OsStr::new(component))}")
MUTATORS = r"OpenOptions::new|fs::write|File::create|fs::remove|fs::rename|create_dir|env\.write\(|set_permissions|fs::copy|set_len"


def fn_body(src, header):
    i = src.find(header)
    if i < 0:
        raise Untranslatable("no `%s`" % header)
    j = src.index("{", i)
    depth, k = 0, j
    while k < len(src):
        if src[k] == "{":
            depth += 1
        elif src[k] == "}":
            depth -= 1
            if depth == 0:
                return src[j:k + 1]
        k += 1
    raise Untranslatable("unbalanced braces after `%s`" % header)


def block_end(body, start):
    depth, k = 0, body.index("{", start)
    while k < len(body):
        if body[k] == "{":
            depth += 1
        elif body[k] == "}":
            depth -= 1
            if depth == 0:
                return k
        k += 1
    raise Untranslatable("unbalanced block")


def order(body, markers):
    pos = {}
    for tag, rx in markers:
        hits = [m.start() for m in re.finditer(rx, body)]
        if len(hits) != 1:
            raise Untranslatable("marker %s occurs %d times" % (tag, len(hits)))
        pos[tag] = hits[0]
    return pos, [t for t, _ in sorted(pos.items(), key=lambda kv: kv[1])]


def gen(repo):
    cr = strip_comments(strip_tests(read(repo, "src/subcommand/torrent/create.rs")))
    cc = strip_comments(strip_tests(read(repo, "src/subcommand/torrent/create/create_content.rs")))
    run = fn_body(cr, "pub(crate) fn run(self, env: &mut Env, options: &Options)")
    pos, run_order = order(run, RUN_MARKERS)
    end = block_end(run, pos["dryguard"])
    inside = all(pos["dryguard"] < pos[t] < end for t in ("forcebranch", "trunc", "excl", "open", "write"))
    after = all(pos[t] > end for t in ("show", "link", "opener"))
    fc = fn_body(cc, "pub(crate) fn from_create(")
    arms = fc.split("InputTarget::Stdin =>")
    if len(arms) != 2 or "InputTarget::Path(path) =>" not in arms[0]:
        raise Untranslatable("from_create is not a match over InputTarget::Path / InputTarget::Stdin, in that order")
    _, content_order = order(arms[0], CONTENT_MARKERS)
    _, stdin_order = order(arms[1], STDIN_MARKERS)
    # the name test: a rewritten body is not something this generator can read (reference tables + correspondence
    # decide then); a body that reads as the known test is what [name_ok] models
    cn = re.sub(r"\s+", "", fn_body(cc, "fn check_name(name: &str) -> Result<()>"))
    fp = strip_comments(strip_tests(read(repo, "src/file_path.rs")))
    inc = re.sub(r"\s+", "", fn_body(fp, "pub(crate) fn is_normal_component(component: &str) -> bool"))
    if cn != CHECK_NAME_BODY:
        raise Untranslatable("CreateContent::check_name has an unknown shape")
    if inc != IS_NORMAL_BODY:
        raise Untranslatable("FilePath::is_normal_component has an unknown shape")
    tp = re.sub(r"\s+", "", fn_body(cc, "fn torrent_path(input: &Path, name: &str) -> PathBuf"))
    tp_ok = tp == '{input.join("..").lexiclean().join(format!("{name}.torrent"))}'
    nmut = len(re.findall(MUTATORS, cr)) + len(re.findall(MUTATORS, cc))
    lst = lambda xs: "[" + "; ".join(coq_string(x) for x in xs) + "]"
    return ("Definition translated : bool := true.\n"
            "Definition run_order : list string := %s.\n"
            "Definition content_order : list string := %s.\n"
            "Definition stdin_order : list string := %s.\n"
            "Definition name_check_is_model : bool := true.\n"
            "Definition write_inside_dry_guard : bool := %s.\n"
            "Definition post_steps_after_guard : bool := %s.\n"
            "Definition torrent_path_is_model : bool := %s.\n"
            "Definition mutating_call_sites : N := %d.\n"
            % (lst(run_order), lst(content_order), lst(stdin_order), str(inside).lower(), str(after).lower(), str(tp_ok).lower(), nmut))


def fallback():
    return ("Definition translated : bool := false.\nDefinition run_order : list string := [].\n"
            "Definition content_order : list string := [].\nDefinition stdin_order : list string := [].\n"
            "Definition name_check_is_model : bool := false.\nDefinition write_inside_dry_guard : bool := false.\n"
            "Definition post_steps_after_guard : bool := false.\nDefinition torrent_path_is_model : bool := false.\n"
            "Definition mutating_call_sites : N := 0.\n")


GENERATORS = {"GenCreateOrder": (gen, fallback, "src/subcommand/torrent/create.rs, src/subcommand/torrent/create/create_content.rs, "
                                                "src/file_path.rs")}
