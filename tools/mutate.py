#!/usr/bin/env python3
"""mutate.py — systematic small mutations of the code the properties are anchored in, as a complement to the
seeded breaking changes written by sub-agents (DESIGN.md section 10c).   Development aid; not registered in MANIFEST.json.

  mutate.py gen  [--files f1,f2,…] > mutants.jsonl      one mutant per line (file, line, col, old, new, kind)
  mutate.py run  mutants.jsonl OUT.jsonl [--workers N] [--sample K] [--seed S]

For every mutant a worker (own scratch worktree of /repo, own cargo target directory, own VERIF_CACHE — all outside
/repo and /verif, removed at the end) does:
  1. cargo test --offline --lib: does not compile -> `nocompile`; anything but the baseline result (276 passed and the
     two always-failing tests) -> `killed-by-tests` (not interesting: the existing suite sees it);
  2. survivors: the quick checks of the properties whose anchors name the file, VERIF_REPO = the scratch worktree;
     the first check that exits non-zero `detects` the mutant; none -> `undetected` (to be triaged by hand: either an
     equivalent mutant — the property still holds — or a miss of the checks).
A mutant changes one token: a comparison, an arithmetic operator, a boolean connective, a numeric literal (±1, 0), a
boolean literal, a `!`, or `.rev()` / `.skip(n)` / `.take(n)` adaptors.  Test modules (`mod tests`), comments,
attributes, `use` lines and string literals are left alone."""
import json, os, random, re, subprocess, sys, threading, time, shutil

VERIF = os.path.dirname(os.path.dirname(os.path.abspath(__file__)))
REPO = "/repo"
ROOT = os.environ.get("MUT_ROOT", "/tmp/mut")
ALWAYS_FAIL = {"subcommand::torrent::verify::tests::output_color", "subcommand::torrent::verify::tests::output_multiple"}

OPS = [
    (r"(?<![<>=!\-])<=(?!=)", ["<"], "rel"), (r"(?<![<>=!\-])>=(?!=)", [">"], "rel"),
    (r"(?<![<>=!\-&|.:])\s<\s(?![<=])", [" <= "], "rel"), (r"(?<![<>=!\-&|])\s>\s(?![>=])", [" >= "], "rel"),
    (r"==", ["!="], "eq"), (r"!=", ["=="], "eq"),
    (r"&&", ["||"], "bool"), (r"\|\|", ["&&"], "bool"),
    (r"(?<=[\w\)\]])\s\+\s(?=[\w\(])", [" - "], "arith"), (r"(?<=[\w\)\]])\s-\s(?=[\w\(])", [" + "], "arith"),
    (r"(?<=[\w\)\]])\s\*\s(?=[\w\(])", [" / "], "arith"), (r"(?<=[\w\)\]])\s/\s(?=[\w\(])", [" * "], "arith"),
    (r"(?<=[\w\)\]])\s%\s(?=[\w\(])", [" / "], "arith"),
    (r"\+=", ["-="], "arith"), (r"-=", ["+="], "arith"),
    (r"\btrue\b", ["false"], "lit"), (r"\bfalse\b", ["true"], "lit"),
    (r"\.rev\(\)", [""], "adaptor"), (r"\.skip\((\d+)\)", [""], "adaptor"),
    (r"(?<![\w.])!(?=[\w(])(?!\[)", [""], "not"),
    (r"\.is_none\(\)", [".is_some()"], "opt"), (r"\.is_some\(\)", [".is_none()"], "opt"),
    (r"\.is_empty\(\)", [".len() == 1"], "opt"),
    (r"\.max\(", [".min("], "minmax"), (r"\.min\(", [".max("], "minmax"),
    (r"\bsaturating_sub\b", ["wrapping_sub"], "arith"), (r"\bchecked_add\b", ["wrapping_add_opt"], "arith"),
]
NUM = re.compile(r"(?<![\w.\"'])(\d[\d_]*)(?![\w.\"'])")


def strip_strings(line):
    """positions inside string / char literals and line comments are masked"""
    mask = [False] * len(line); i = 0; inq = None
    while i < len(line):
        c = line[i]
        if inq:
            mask[i] = True
            if c == "\\":
                if i + 1 < len(line): mask[i + 1] = True
                i += 2; continue
            if c == inq: inq = None
        elif c == '"':
            inq = '"'; mask[i] = True
        elif c == "/" and line[i:i + 2] == "//":
            for j in range(i, len(line)): mask[j] = True
            break
        elif c == "'" and re.match(r"'(\\.|[^\\'])'", line[i:]):
            m = re.match(r"'(\\.|[^\\'])'", line[i:])
            for j in range(i, i + m.end()): mask[j] = True
            i += m.end(); continue
        i += 1
    return mask


def gen_file(rel):
    src = open(os.path.join(REPO, rel)).read().split("\n")
    out = []; in_tests = False; in_macro_doc = 0
    for ln, line in enumerate(src):
        s = line.strip()
        if re.match(r"(#\[cfg\(test\)\]|mod tests\b)", s): in_tests = True
        if in_tests: break
        if not s or s.startswith(("//", "#[", "#![", "use ", "pub(crate) use ", "pub use ", "mod ", "pub mod ")): continue
        if "help =" in s or "long =" in s or "display(" in s or "value_name" in s or "about =" in s: continue
        mask = strip_strings(line)
        for pat, reps, kind in OPS:
            for m in re.finditer(pat, line):
                if any(mask[m.start():m.end()]): continue
                for rep in reps:
                    out.append(dict(file=rel, line=ln + 1, col=m.start(), old=m.group(0), new=rep, kind=kind))
        for m in NUM.finditer(line):
            if any(mask[m.start():m.end()]): continue
            txt = m.group(1).replace("_", "")
            try: v = int(txt)
            except ValueError: continue
            for nv in {v + 1, max(v - 1, 0), 0} - {v}:
                out.append(dict(file=rel, line=ln + 1, col=m.start(), old=m.group(1), new=str(nv), kind="num"))
    return out


def anchors():
    amap = {}
    for l in open(os.path.join(VERIF, "properties.jsonl")):
        p = json.loads(l)
        for f in p["anchors"]["files"]:
            if f.endswith(".rs"): amap.setdefault(f, []).append(p["id"])
    return amap


def sh(cmd, cwd=None, env=None, timeout=1800):
    e = dict(os.environ); e.update({"CARGO_NET_OFFLINE": "true", "CARGO_TERM_COLOR": "never"})
    if env: e.update(env)
    # own session, so that a mutant that loops for ever (a test binary spinning on all cores) can be killed with its whole group
    p = subprocess.Popen(cmd, shell=isinstance(cmd, str), cwd=cwd, env=e, stdout=subprocess.PIPE, stderr=subprocess.STDOUT, start_new_session=True)
    try:
        out, _ = p.communicate(timeout=timeout)
        return p.returncode, out.decode("utf-8", "replace")
    except subprocess.TimeoutExpired:
        try:
            os.killpg(p.pid, 9)
        except OSError:
            pass
        out, _ = p.communicate()
        return 124, (out or b"").decode("utf-8", "replace") + "\nTIMEOUT"


def apply_mut(wt, m):
    path = os.path.join(wt, m["file"]); lines = open(path).read().split("\n")
    l = lines[m["line"] - 1]
    assert l[m["col"]:m["col"] + len(m["old"])] == m["old"], (m, l)
    lines[m["line"] - 1] = l[:m["col"]] + m["new"] + l[m["col"] + len(m["old"]):]
    open(path, "w").write("\n".join(lines))


def worker(i, queue, out_path, lock, amap):
    wt, tgt, cache = f"{ROOT}/w{i}", f"{ROOT}/t{i}", f"{ROOT}/c{i}"
    if not os.path.isdir(wt):
        sh(["git", "-C", REPO, "worktree", "add", "--detach", wt, "HEAD"])
    os.makedirs(cache, exist_ok=True)
    env = {"CARGO_TARGET_DIR": tgt}
    while True:
        with lock:
            if not queue: return
            m = queue.pop()
        sh("git checkout -- . && git clean -fdq src", cwd=wt)
        rec = dict(m); t0 = time.time()
        try:
            apply_mut(wt, m)
        except AssertionError:
            rec["status"] = "stale"; emit(out_path, lock, rec); continue
        rc, out = sh(["cargo", "test", "--offline", "--lib"], cwd=wt, env=env, timeout=240)
        failed = set(re.findall(r"^test (\S+) \.\.\. FAILED", out, re.M))
        mres = re.search(r"test result: \w+\. (\d+) passed; (\d+) failed", out)
        if not mres:
            rec["status"] = "killed-by-tests" if rc == 124 else "nocompile" if "error" in out else "test-run-broken"
        elif failed != ALWAYS_FAIL or int(mres.group(1)) != 276:
            rec["status"] = "killed-by-tests"; rec["failed"] = sorted(failed - ALWAYS_FAIL)[:5]
        else:
            rec["status"] = "undetected"; rec["checks"] = {}
            # the anchored properties first, then four cheap checks of properties that often see a change from another
            # angle (content size -> C15, streams -> C18, create's output -> C05, C01)
            for pid in amap.get(m["file"], []) + [x for x in ("C15", "C18", "C05", "C01") if x not in amap.get(m["file"], [])]:
                crc, cout = sh(["./check", pid, "--tier", "quick"], cwd=VERIF,
                               env={"VERIF_REPO": wt, "VERIF_CACHE": cache, "VERIF_EVIDENCE": cache + "/evidence"}, timeout=1500)
                v = [l for l in cout.split("\n") if l.startswith("VIOLATION")]
                rec["checks"][pid] = dict(rc=crc, line=(v[0] if v else cout.strip().split("\n")[-1])[:300])
                if crc != 0:
                    rec["status"] = "detected"; rec["by"] = pid
                    kind = re.findall(r"\[(oracle-failure|model-impl-disagreement|obligation-broken|assumption-broken)\]", cout)
                    rec["how"] = kind[0] if kind else "?"
                    break
        rec["secs"] = round(time.time() - t0)
        emit(out_path, lock, rec)


def emit(path, lock, rec):
    with lock:
        with open(path, "a") as f: f.write(json.dumps(rec) + "\n")
        print(rec.get("status"), rec["file"], rec["line"], repr(rec["old"]), "->", repr(rec["new"]), rec.get("by", ""), flush=True)


def main():
    if sys.argv[1] == "gen":
        amap = anchors(); files = sorted(amap)
        if "--files" in sys.argv: files = sys.argv[sys.argv.index("--files") + 1].split(",")
        for f in files:
            for m in gen_file(f): print(json.dumps(m))
        return
    if sys.argv[1] == "run":
        muts = [json.loads(l) for l in open(sys.argv[2])]; out = sys.argv[3]
        nw = int(sys.argv[sys.argv.index("--workers") + 1]) if "--workers" in sys.argv else 4
        seed = int(sys.argv[sys.argv.index("--seed") + 1]) if "--seed" in sys.argv else 1
        done = set()
        if os.path.exists(out):
            for l in open(out):
                r = json.loads(l); done.add((r["file"], r["line"], r["col"], r["new"]))
        muts = [m for m in muts if (m["file"], m["line"], m["col"], m["new"]) not in done]
        random.Random(seed).shuffle(muts)
        if "--sample" in sys.argv: muts = muts[:int(sys.argv[sys.argv.index("--sample") + 1])]
        os.makedirs(ROOT, exist_ok=True)
        lock = threading.Lock(); amap = anchors()
        ths = [threading.Thread(target=worker, args=(i, muts, out, lock, amap)) for i in range(nw)]
        for t in ths: t.start()
        for t in ths: t.join()
        for i in range(nw):
            sh(["git", "-C", REPO, "worktree", "remove", "--force", f"{ROOT}/w{i}"])
            shutil.rmtree(f"{ROOT}/t{i}", ignore_errors=True); shutil.rmtree(f"{ROOT}/c{i}", ignore_errors=True)


def summary(path):
    """markdown table of a results file, written between <!-- mutants:begin --> and <!-- mutants:end --> in DESIGN.md"""
    import collections
    total = sum(1 for _ in open(os.path.join(os.path.dirname(path), "mutants.jsonl"))) if os.path.exists(os.path.join(os.path.dirname(path), "mutants.jsonl")) else None
    st, by, how, und = collections.Counter(), collections.Counter(), collections.Counter(), []
    for l in open(path):
        r = json.loads(l); st[r["status"]] += 1
        if r["status"] == "detected":
            by[r["by"]] += 1; how[r.get("how", "?")] += 1
        if r["status"] == "undetected":
            und.append(r)
    n = sum(st.values())
    rows = ["| mutants generated | %s |" % (total if total is not None else "?"), "| evaluated so far | %d |" % n,
            "| do not compile | %d |" % st["nocompile"], "| noticed by the 276 tests (or loop for ever in them) | %d |" % st["killed-by-tests"],
            "| pass the tests and are **reported by a check** | %d (%s) |" % (st["detected"], ", ".join("%s %d" % kv for kv in sorted(by.items()))),
            "| … of which by an oracle failure on a concrete input / a model-implementation disagreement / a broken obligation | %d / %d / %d |"
            % (how["oracle-failure"], how["model-impl-disagreement"], how["obligation-broken"]),
            "| pass the tests and no check run on them reports them | %d |" % st["undetected"]]
    files = collections.Counter(r["file"] for r in und)
    text = "| | |\n|---|---|\n" + "\n".join(rows) + "\n\nSurvivors by file: " + ", ".join("`%s` %d" % kv for kv in files.most_common()) + "."
    dp = os.path.join(VERIF, "DESIGN.md")
    d = open(dp).read()
    b, e = "<!-- mutants:begin -->", "<!-- mutants:end -->"
    if b in d and e in d:
        d = d[: d.index(b) + len(b)] + "\n" + text + "\n" + d[d.index(e):]
        open(dp, "w").write(d)
    print(text)


if __name__ == "__main__":
    if len(sys.argv) > 2 and sys.argv[1] == "summary":
        summary(sys.argv[2])
    else:
        main()
