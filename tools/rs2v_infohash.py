"""rs2v plug-in for C04: what `Infohash::from_input` looks up and how deep it lets bendy nest,
and the serde key under which `Metainfo` stores its `Info` (the lossy path of `create`).

GenInfohash.v
  lookup_key        the byte-string literal `from_input` compares dictionary keys with
  max_depth         None  when the generic value is read by `Value::from_bencode` (bendy: usize::MAX/4,
                          i.e. no effective bound), Some n when it is read through a `Decoder` with
                          `with_max_depth(n)` (the prepared repair for the stack exhaustion of C08)
  hashes_reencoding true when the bytes handed to SHA-1 are `info.to_bencode()` of the located value
  metainfo_info_key serde name of the `Metainfo` field of type `Info`
  info_keys / single_keys / multiple_keys / file_info_keys
                    serde names of the fields of Info, Mode::Single, Mode::Multiple, FileInfo, in
                    declaration order (flattened `mode` excluded from info_keys)
Narrow grammar; anything else -> translated := false."""
import re
from rs2v import Untranslatable, read, strip_tests, strip_comments


def blist(s):
    return "[" + "; ".join(str(c) for c in s.encode()) + "]"


def struct_fields(src, header_re):
    """[(serde_name, rust_type, flatten?)] of the brace block that follows header_re"""
    m = re.search(header_re + r"\s*\{", src)
    if not m:
        raise Untranslatable("block %r not found" % header_re)
    i, depth = m.end(), 1
    while depth and i < len(src):
        depth += {"{": 1, "}": -1}.get(src[i], 0)
        i += 1
    body = src[m.end():i - 1]
    out, attrs = [], ""
    # split on top-level commas
    parts, depth, cur = [], 0, ""
    for ch in body:
        if ch in "([<{":
            depth += 1
        elif ch in ")]>}":
            depth -= 1
        if ch == "," and depth == 0:
            parts.append(cur); cur = ""
        else:
            cur += ch
    parts.append(cur)
    for p in parts:
        p = p.strip()
        if not p:
            continue
        attrs = " ".join(re.findall(r"#\[serde\((.*?)\)\]", p, re.S))
        decl = re.sub(r"#\[.*?\]\s*", "", p, flags=re.S).strip()
        fm = re.fullmatch(r"(?:pub(?:\(crate\))?\s+)?([a-z_][a-z0-9_]*)\s*:\s*(.+)", decl, re.S)
        if not fm:
            raise Untranslatable("field declaration %r" % decl)
        name, ty = fm.group(1), " ".join(fm.group(2).split())
        rn = re.search(r'rename\s*=\s*"([^"]*)"', attrs)
        if re.search(r"\b(rename_all|alias|skip\b|skip_serializing\b|serialize_with|getter)", attrs):
            raise Untranslatable("serde attribute outside the grammar on %s: %s" % (name, attrs))
        out.append((rn.group(1) if rn else name, ty, bool(re.search(r"\bflatten\b", attrs))))
    return out


def gen_infohash(repo):
    src = strip_comments(strip_tests(read(repo, "src/infohash.rs")))
    m = re.search(r"fn from_input\(input: &Input\) -> Result<Infohash, Error> \{(.*?)\n  \}\n", src, re.S)
    if not m:
        raise Untranslatable("Infohash::from_input not found")
    body = " ".join(m.group(1).split())
    # how the generic value is decoded
    if re.search(r"let value = Value::from_bencode\(&input\.data\)", body):
        depth = None
    elif re.search(r"let value = Self::decode_value\(&input\.data\)", body):
        dm = re.search(r"fn decode_value\(.*?\{(.*?)\n  \}\n", src, re.S)
        if not dm:
            raise Untranslatable("decode_value not found")
        db = " ".join(dm.group(1).split())
        cm = re.search(r"const MAX_DEPTH: usize = (\d+);", db)
        if not cm or "Decoder::new(data).with_max_depth(MAX_DEPTH)" not in db or \
                "Value::decode_bencode_object(object)" not in db:
            raise Untranslatable("decode_value is not Decoder::new(data).with_max_depth(MAX_DEPTH) + Value::decode_bencode_object")
        depth = int(cm.group(1))
    else:
        raise Untranslatable("from_input does not decode input.data to a Value in a known way")
    # the lookup
    km = re.search(r"match value \{ Value::Dict\(metainfo\) => \{ let info = metainfo \.iter\(\) "
                   r"\.find\(\|pair: &\(&Cow<\[u8\]>, &Value\)\| pair\.0\.as_ref\(\) == b\"([^\"\\]*)\"\)", body)
    if not km:
        raise Untranslatable("lookup of the info key is not `metainfo.iter().find(|pair| pair.0.as_ref() == b\"...\")`")
    key = km.group(1)
    hm = re.search(r"if let Value::Dict\(_\) = info \{ let encoded = info\.to_bencode\(\)\.map_err\(.*?\)\?; "
                   r"Ok\(Self::from_bencoded_info_dict\(&encoded\)\) \} else \{", body)
    fm = re.search(r"fn from_bencoded_info_dict\(info: &\[u8\]\) -> Infohash \{ Infohash \{ inner: "
                   r"Sha1Digest::from_data\(info\), \} \}", " ".join(src.split()))
    # a fact is emitted only when it is READ: when the expected shape is not there the source is not readable (soft tie,
    # reference tables), never "false" - `false` would claim that something else is hashed
    if not (hm and fm):
        raise Untranslatable("from_input / from_bencoded_info_dict: the bytes handed to SHA-1 are not recognisably "
                             "`info.to_bencode()` of the located value")
    reenc = True
    # typed side
    msrc = strip_comments(strip_tests(read(repo, "src/metainfo.rs")))
    mf = struct_fields(msrc, r"struct Metainfo")
    infos = [n for n, ty, fl in mf if ty == "Info" and not fl]
    if len(infos) != 1:
        raise Untranslatable("Metainfo has no unique field of type Info")
    isrc = strip_comments(strip_tests(read(repo, "src/info.rs")))
    inf = struct_fields(isrc, r"struct Info")
    if [ty for _, ty, fl in inf if fl] != ["Mode"]:
        raise Untranslatable("Info does not flatten exactly one field of type Mode")
    lm = re.search(r"fn infohash_lossy\(&self\) -> Result<Infohash> \{(.*?)\n  \}\n", isrc, re.S)
    lossy_ok = bool(lm and re.fullmatch(
        r"let encoded = bendy::serde::ser::to_bytes\(self\)\.context\(error::InfoSerialize\)\?; "
        r"Ok\(Infohash::from_bencoded_info_dict\(&encoded\)\)", " ".join(lm.group(1).split())))
    if not lossy_ok:
        raise Untranslatable("Info::infohash_lossy is not recognisably the hash of the typed struct's serialisation")
    mosrc = strip_comments(strip_tests(read(repo, "src/mode.rs")))
    if not re.search(r"#\[serde\(untagged\)\]\s*pub\(crate\) enum Mode", mosrc):
        raise Untranslatable("Mode is not an untagged enum")
    single = struct_fields(mosrc, r"\bSingle")
    multiple = struct_fields(mosrc, r"\bMultiple")
    fsrc = strip_comments(strip_tests(read(repo, "src/file_info.rs")))
    fi = struct_fields(fsrc, r"struct FileInfo")
    out = "Definition translated : bool := true.\n"
    out += "Definition lookup_key : list N := %s. (* b\"%s\" *)\n" % (blist(key), key)
    out += "Definition max_depth : option N := %s.\n" % ("None" if depth is None else "Some %d" % depth)
    out += "Definition hashes_reencoding : bool := %s.\n" % ("true" if reenc else "false")
    out += "Definition lossy_hashes_typed_serialisation : bool := %s.\n" % ("true" if lossy_ok else "false")
    out += "Definition metainfo_info_key : list N := %s. (* \"%s\" *)\n" % (blist(infos[0]), infos[0])
    out += "Definition metainfo_keys : list (list N) := [%s].\n" % "; ".join(blist(n) for n, _, _ in mf)
    out += "Definition info_keys : list (list N) := [%s].\n" % "; ".join(blist(n) for n, _, fl in inf if not fl)
    out += "Definition single_keys : list (list N) := [%s].\n" % "; ".join(blist(n) for n, _, _ in single)
    out += "Definition multiple_keys : list (list N) := [%s].\n" % "; ".join(blist(n) for n, _, _ in multiple)
    out += "Definition file_info_keys : list (list N) := [%s].\n" % "; ".join(blist(n) for n, _, _ in fi)
    return out


def gen_infohash_fallback():
    return ("Definition translated : bool := false.\nDefinition lookup_key : list N := [].\n"
            "Definition max_depth : option N := None.\nDefinition hashes_reencoding : bool := false.\n"
            "Definition lossy_hashes_typed_serialisation : bool := false.\n"
            "Definition metainfo_info_key : list N := [].\nDefinition metainfo_keys : list (list N) := [].\n"
            "Definition info_keys : list (list N) := [].\nDefinition single_keys : list (list N) := [].\n"
            "Definition multiple_keys : list (list N) := [].\nDefinition file_info_keys : list (list N) := [].\n")


GENERATORS = {
    "GenInfohash": (gen_infohash, gen_infohash_fallback,
                    "src/infohash.rs, src/info.rs, src/metainfo.rs, src/mode.rs, src/file_info.rs"),
}
