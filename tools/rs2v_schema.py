"""rs2v plug-in: serde schema of the metainfo structs -> coq/Generated/GenSchema.v (C05; reused by C07, C11).

Reads src/metainfo.rs, src/info.rs, src/mode.rs, src/file_info.rs, src/file_path.rs and emits, per struct,
the list of (bencode key bytes, rust field name, optional flag) in declaration order, the rust type of every
field, the flattened fields, and the container attributes `untagged` / `transparent`.

Narrow grammar (anything else makes the whole file untranslatable, never a guess):
  container attribute  #[serde(untagged)] | #[serde(transparent)]           (other #[derive(..)] lines ignored)
  field attribute      #[serde( item, ... )] with item one of
                         rename = "TEXT" | skip_serializing_if = "Option::is_none" | default |
                         with = "unwrap_or_skip" | flatten
  field                pub(crate)? NAME: TYPE,
A field is *optional* exactly when it carries all of skip_serializing_if = "Option::is_none", default and
with = "unwrap_or_skip" and its type is Option<..>; carrying only some of them is rejected (bendy would
write `le` / `l..e` for such a field, which none of the models describe).
"""
import re
from rs2v import Untranslatable, read, strip_tests, strip_comments

FILES = [("Metainfo", "src/metainfo.rs"), ("Info", "src/info.rs"), ("Mode", "src/mode.rs"),
         ("FileInfo", "src/file_info.rs"), ("FilePath", "src/file_path.rs")]
ORIGIN = ", ".join(f for _, f in FILES)

OPT_ITEMS = {"skip_serializing_if": "Option::is_none", "default": True, "with": "unwrap_or_skip"}


def balanced(src, i, open_="{", close="}"):
    """src[i] == open_; return index just after the matching close"""
    assert src[i] == open_
    depth = 0
    for j in range(i, len(src)):
        if src[j] == open_:
            depth += 1
        elif src[j] == close:
            depth -= 1
            if depth == 0:
                return j + 1
    raise Untranslatable("unbalanced %s" % open_)


def parse_attr_items(text):
    """`a = "x", b, c = "y"` -> dict"""
    items = {}
    for part in re.split(r",(?=(?:[^\"]*\"[^\"]*\")*[^\"]*$)", text):
        part = part.strip()
        if not part:
            continue
        m = re.fullmatch(r'([a-z_]+)\s*=\s*"([^"\\]*)"', part)
        if m:
            key, val = m.group(1), m.group(2)
        elif re.fullmatch(r"[a-z_]+", part):
            key, val = part, True
        else:
            raise Untranslatable("serde attribute item %r" % part)
        if key in items:
            raise Untranslatable("serde attribute item %r given twice" % key)
        items[key] = val
    return items


def parse_fields(body, where):
    """body of a struct / struct variant -> list of dict(field, key, optional, flatten, type)"""
    out = []
    i = 0
    pending = {}
    body = body.strip()
    while i < len(body):
        if body[i].isspace():
            i += 1
            continue
        if body.startswith("#[", i):
            j = balanced(body, i + 1, "[", "]")
            attr = " ".join(body[i + 2:j - 1].split())
            m = re.fullmatch(r"serde\s*\((.*)\)", attr)
            if not m:
                raise Untranslatable("%s: field attribute %r" % (where, attr))
            for k, v in parse_attr_items(m.group(1)).items():
                if k in pending:
                    raise Untranslatable("%s: %r given twice" % (where, k))
                pending[k] = v
            i = j
            continue
        m = re.compile(r"(?:pub(?:\([a-z]+\))?\s+)?([a-z_][a-z0-9_]*)\s*:\s*").match(body, i)
        if not m:
            raise Untranslatable("%s: cannot read field at %r" % (where, body[i:i + 40]))
        name = m.group(1)
        # the type runs to the next comma at angle-bracket depth 0
        j, depth = m.end(), 0
        while j < len(body) and not (body[j] == "," and depth == 0):
            depth += body[j] in "<(["
            depth -= body[j] in ">)]"
            j += 1
        ty = "".join(body[m.end():j].split())
        i = j + 1
        unknown = set(pending) - {"rename", "skip_serializing_if", "default", "with", "flatten"}
        if unknown:
            raise Untranslatable("%s.%s: serde attribute(s) %s not in the accepted grammar" % (where, name, sorted(unknown)))
        flatten = pending.pop("flatten", False)
        rename = pending.pop("rename", None)
        if flatten and (pending or rename is not None):
            raise Untranslatable("%s.%s: flatten combined with other attributes" % (where, name))
        have = {k: pending.get(k) for k in OPT_ITEMS if k in pending}
        if have and have != OPT_ITEMS:
            raise Untranslatable("%s.%s: partial / unexpected optional-field attributes %r" % (where, name, have))
        optional = bool(have)
        if optional != ty.startswith("Option<"):
            raise Untranslatable("%s.%s: type %s does not agree with its optional-field attributes" % (where, name, ty))
        key = rename if rename is not None else name
        if rename is True:
            raise Untranslatable("%s.%s: rename without a value" % (where, name))
        out.append(dict(field=name, key=key, optional=optional, flatten=bool(flatten), type=ty))
        pending = {}
    if pending:
        raise Untranslatable("%s: dangling attribute" % where)
    return out


def container(src, kind, name):
    """-> (set of serde container attributes, body text)"""
    m = re.search(r"((?:#\[[^\]]*\]\s*)*)pub(?:\([a-z]+\))?\s+%s\s+%s\s*\{" % (kind, name), src)
    if not m:
        raise Untranslatable("%s %s not found" % (kind, name))
    attrs = set()
    for a in re.findall(r"#\[([^\]]*)\]", m.group(1)):
        a = " ".join(a.split())
        if a.startswith("derive("):
            if not re.search(r"\bSerialize\b", a):
                raise Untranslatable("%s %s does not derive Serialize" % (kind, name))
            if not re.search(r"\bDeserialize\b", a):
                # accepted alternative (FilePath after the path-screening repair): a hand-written Deserialize whose
                # wire form is the derived transparent one - it first deserialises the inner field's own type and
                # only then screens the value - so the *serialised* schema, which is all C05 uses, is unchanged
                im = re.search(r"impl<'de>\s+Deserialize<'de>\s+for\s+%s\s*\{\s*fn deserialize<D>\(deserializer: D\) -> "
                               r"Result<Self, D::Error>\s*where\s*D: Deserializer<'de>,\s*\{\s*let (\w+) = "
                               r"([A-Za-z:<>]+)::deserialize\(deserializer\)\?;" % name, src)
                fm = re.search(r"%s\s+%s\s*\{\s*(\w+):\s*([^,}]+),?\s*\}" % (kind, name), src)
                if not (im and fm and im.group(1) == fm.group(1)
                        and im.group(2).replace("::<", "<") == fm.group(2).strip()
                        and re.search(r"Ok\(%s \{ %s \}\)" % (name, fm.group(1)), src)):
                    raise Untranslatable("%s %s neither derives Deserialize nor has the accepted hand-written impl" % (kind, name))
            attrs.add("derive")
            continue
        sm = re.fullmatch(r"serde\s*\((.*)\)", a)
        if not sm:
            raise Untranslatable("%s %s: container attribute %r" % (kind, name, a))
        for k, v in parse_attr_items(sm.group(1)).items():
            if k not in ("untagged", "transparent") or v is not True:
                raise Untranslatable("%s %s: container attribute %r not in the accepted grammar" % (kind, name, k))
            attrs.add(k)
    if "derive" not in attrs:
        raise Untranslatable("%s %s: serde impls are not derived" % (kind, name))
    attrs.discard("derive")
    start = m.end() - 1
    end = balanced(src, start)
    return attrs, src[start + 1:end - 1]


def key_bytes(k):
    return "[" + "; ".join(str(b) for b in k.encode("utf-8")) + "]"


def fields_def(name, fields):
    rows = ["(* %s *) (%s, \"%s\"%%string, %s)" % (re.sub(r"[^A-Za-z0-9 _.-]", "?", f["key"]), key_bytes(f["key"]), f["field"],
                                                "true" if f["optional"] else "false")
            for f in fields if not f["flatten"]]
    return "[ " + ";\n    ".join(rows) + " ]" if rows else "[]"


def types_def(fields):
    return "[ " + ";\n    ".join('("%s"%%string, "%s"%%string)' % (f["field"], f["type"]) for f in fields) + " ]"


def strlist(xs):
    return "[" + "; ".join('"%s"%%string' % x for x in xs) + "]"


def gen_schema(repo):
    srcs = {n: strip_comments(strip_tests(read(repo, f))) for n, f in FILES}
    out = "Definition translated : bool := true.\n"
    out += ("(* per struct: (bencode key bytes, rust field name, optional) in declaration order. optional = the field is\n"
            "   Option<_> with skip_serializing_if = \"Option::is_none\", default, with = \"unwrap_or_skip\" (absent when None,\n"
            "   the bare inner value when Some). Flattened fields contribute the keys of their own type instead. *)\n")
    T = "list (list N * string * bool)"
    for struct, var in (("Metainfo", "metainfo"), ("Info", "info"), ("FileInfo", "file_info")):
        attrs, body = container(srcs[struct], "struct", struct)
        if attrs:
            raise Untranslatable("struct %s carries container attributes %s" % (struct, sorted(attrs)))
        fs = parse_fields(body, struct)
        out += "Definition %s_fields : %s :=\n  %s.\n" % (var, T, fields_def(var, fs))
        out += "Definition %s_flatten : list string := %s.\n" % (var, strlist(f["field"] for f in fs if f["flatten"]))
        out += "Definition %s_types : list (string * string) :=\n  %s.\n" % (var, types_def(fs))
    # enum Mode
    attrs, body = container(srcs["Mode"], "enum", "Mode")
    if attrs - {"untagged"}:
        raise Untranslatable("enum Mode: container attributes %s" % sorted(attrs))
    out += "Definition mode_untagged : bool := %s.\n" % ("true" if "untagged" in attrs else "false")
    variants, i = [], 0
    body = body.strip()
    while i < len(body):
        if body[i].isspace() or body[i] == ",":
            i += 1
            continue
        m = re.compile(r"([A-Z][A-Za-z0-9]*)\s*\{").match(body, i)
        if not m:
            raise Untranslatable("enum Mode: variant at %r" % body[i:i + 30])
        end = balanced(body, m.end() - 1)
        variants.append((m.group(1), parse_fields(body[m.end():end - 1], "Mode::" + m.group(1))))
        i = end
    for vname, fs in variants:
        if any(f["flatten"] for f in fs):
            raise Untranslatable("Mode::%s: flatten inside a variant" % vname)
        out += "Definition mode_%s_fields : %s :=\n  %s.\n" % (vname.lower(), T, fields_def(vname, fs))
        out += "Definition mode_%s_types : list (string * string) :=\n  %s.\n" % (vname.lower(), types_def(fs))
    out += "Definition mode_variants : list string := %s.\n" % strlist(v for v, _ in variants)
    if [v for v, _ in variants] != ["Single", "Multiple"]:
        raise Untranslatable("enum Mode: variants are %r" % [v for v, _ in variants])
    # FilePath
    attrs, body = container(srcs["FilePath"], "struct", "FilePath")
    fs = parse_fields(body, "FilePath")
    out += "Definition file_path_transparent : bool := %s.\n" % ("true" if attrs == {"transparent"} and len(fs) == 1 else "false")
    out += "Definition file_path_types : list (string * string) :=\n  %s.\n" % types_def(fs)
    return out


def gen_schema_fallback():
    T = "list (list N * string * bool)"
    out = "Definition translated : bool := false.\n"
    for var in ("metainfo", "info", "file_info"):
        out += "Definition %s_fields : %s := [].\nDefinition %s_flatten : list string := [].\n" % (var, T, var)
        out += "Definition %s_types : list (string * string) := [].\n" % var
    out += "Definition mode_untagged : bool := false.\n"
    for v in ("single", "multiple"):
        out += "Definition mode_%s_fields : %s := [].\nDefinition mode_%s_types : list (string * string) := [].\n" % (v, T, v)
    out += "Definition mode_variants : list string := [].\nDefinition file_path_transparent : bool := false.\n"
    out += "Definition file_path_types : list (string * string) := [].\n"
    return out


# ------------------------------------------------------------------ GenCreate (string constants create writes)

def rust_str(lit):
    if "\\" in lit:
        raise Untranslatable("escape sequence in string literal %r" % lit)
    return lit


def gen_create(repo):
    """`encoding` and the fixed prefix of `created by`, from src/consts.rs (+ the package version from Cargo.toml),
    and the two places in Create::run that use them."""
    consts = strip_comments(read(repo, "src/consts.rs"))
    m = re.search(r'pub\(crate\) const ENCODING_UTF8: &str = "([^"]*)";', consts)
    if not m:
        raise Untranslatable("ENCODING_UTF8 is not a plain string constant")
    encoding = rust_str(m.group(1))
    m = re.search(r"pub\(crate\) const CREATED_BY_DEFAULT: &str = concat!\((.*?)\);", consts, re.S)
    if not m:
        raise Untranslatable("CREATED_BY_DEFAULT is not a concat!(..)")
    items = [x.strip() for x in m.group(1).split(",") if x.strip()]
    cargo = read(repo, "Cargo.toml")
    pm = re.search(r'^\[package\]\s*\n(?:[^\[]*?\n)?version\s*=\s*"([^"]+)"', cargo, re.M)
    if not pm:
        raise Untranslatable("package version not found in Cargo.toml")
    prefix, git_last = "", False
    for n, it in enumerate(items):
        lm = re.fullmatch(r'"([^"]*)"', it)
        if lm:
            prefix += rust_str(lm.group(1))
        elif it == 'env!("CARGO_PKG_VERSION")':
            prefix += pm.group(1)
        elif it == 'env!("GIT_HEAD_PARTIAL_HASH")' and n == len(items) - 1:
            git_last = True
        else:
            raise Untranslatable("CREATED_BY_DEFAULT item %r" % it)
    if not git_last:
        raise Untranslatable("CREATED_BY_DEFAULT does not end with the build-time git suffix")
    create = " ".join(strip_comments(strip_tests(read(repo, "src/subcommand/torrent/create.rs"))).split())
    if "encoding: Some(consts::ENCODING_UTF8.to_owned())," not in create:
        raise Untranslatable("Create::run does not set encoding: Some(consts::ENCODING_UTF8.to_owned())")
    if ("let created_by = if self.no_created_by { None } else { Some(String::from(consts::CREATED_BY_DEFAULT)) };"
            not in create):
        raise Untranslatable("Create::run does not compute created_by from no_created_by / CREATED_BY_DEFAULT as expected")
    out = "Definition translated : bool := true.\n"
    out += "(* %s *)\nDefinition encoding_utf8 : list N := %s.\n" % (re.sub(r"[^A-Za-z0-9 _./-]", "?", encoding), key_bytes(encoding))
    out += ("(* %s ; the build appends GIT_HEAD_PARTIAL_HASH (empty, or \" (<12 hex digits>)\") *)\n"
            "Definition created_by_prefix : list N := %s.\n" % (re.sub(r"[^A-Za-z0-9 _./-]", "?", prefix), key_bytes(prefix)))
    return out


def gen_create_fallback():
    return ("Definition translated : bool := false.\nDefinition encoding_utf8 : list N := [].\n"
            "Definition created_by_prefix : list N := [].\n")


GENERATORS = {"GenSchema": (gen_schema, gen_schema_fallback, ORIGIN),
              "GenCreate": (gen_create, gen_create_fallback, "src/consts.rs, Cargo.toml, src/subcommand/torrent/create.rs")}
