"""rs2v plug-in for C18 (stream discipline).

GenDirectWrites.v  inventory of every place outside src/env.rs and src/output_stream.rs that can put bytes on
                   fd 1 / fd 2 without going through `OutputStream`: print!/println!/eprint!/eprintln!/dbg!,
                   io::stdout()/io::stderr() handles, and indicatif widget constructors (ProgressBar::new,
                   ProgressBar::new_spinner, MultiProgress::new), per file and function, each with the guard
                   under which it runs translated to a Coq boolean function of (styled_term, quiet).
GenCli.v           subcommand names read from the `Subcommand` / `Torrent` enums, which of them demand
                   `--unstable`, which receive `options`, and the error -> exit status table of `Env::status`,
                   `run` and `main`.
GenStreams.v       the boolean formulas that set up and reconfigure the two `OutputStream`s (Env::main,
                   OutputStream::stdout/stderr/set_use_color/is_styled_term/write, Env::run).

Narrow grammar throughout; anything unexpected raises Untranslatable, which makes `translated = false`.
"""
import os, re
from rs2v import Untranslatable, read, strip_comments, coq_string

SANCTIONED = ("src/env.rs", "src/output_stream.rs")      # the two files allowed to own the real descriptors
HOOKS = ("src/verif.rs",)                                  # cfg(imdl_verif) only; not part of the shipped binary


# ------------------------------------------------------------------ helpers

def scrub(src):
    """one pass over Rust source: comments removed, contents of string / char literals blanked; every newline is
    kept, so offsets map to the original line numbers and braces / macro names inside literals do not count"""
    out, i, n = [], 0, len(src)

    def blank(t):
        return re.sub(r"[^\n]", " ", t)

    while i < n:
        c = src[i]
        if src.startswith("//", i):
            j = src.find("\n", i)
            j = n if j < 0 else j
            i = j
        elif src.startswith("/*", i):
            j = src.find("*/", i + 2)
            j = n if j < 0 else j + 2
            out.append(blank(src[i:j])); i = j
        elif c == "r" and re.match(r'r#*"', src[i:i + 8]) and not (i and (src[i - 1].isalnum() or src[i - 1] == "_")):
            h = re.match(r'r(#*)"', src[i:i + 8]).group(1)
            j = src.find('"' + h, i + 2 + len(h))
            j = n if j < 0 else j
            out.append('"' + blank(src[i + 2 + len(h):j]) + '"'); i = j + 1 + len(h)
        elif c == '"':
            j = i + 1
            while j < n and src[j] != '"':
                j += 2 if src[j] == "\\" else 1
            out.append('"' + blank(src[i + 1:j]) + '"'); i = j + 1
        elif c == "'":
            m = re.match(r"'(?:\\(?:u\{[0-9a-fA-F_]+\}|x[0-9a-fA-F]{2}|.)|[^\\'])'", src[i:i + 14])
            if m:
                out.append("'" + " " * (len(m.group(0)) - 2) + "'"); i += len(m.group(0))
            else:
                out.append(c); i += 1      # a lifetime
        else:
            out.append(c); i += 1
    return "".join(out)


def strip_test_mod(src):
    i = src.find("#[cfg(test)]\nmod tests")
    return src if i < 0 else src[:i]


def test_only_modules(repo):
    lib = read(repo, "src/lib.rs")
    mods = set()
    for m in re.finditer(r"#\[cfg\(test\)\]\n(?:#\[macro_use\]\n)?mod (\w+);", lib):
        mods.add("src/%s.rs" % m.group(1))
    for m in re.finditer(r"#\[cfg\(feature = \"bench\"\)\]\n(?:pub )?mod (\w+);", lib):
        mods.add("src/%s.rs" % m.group(1))
    return mods


def rust_files(repo):
    out = []
    for root, dirs, files in os.walk(os.path.join(repo, "src")):
        dirs.sort()
        for fn in sorted(files):
            if fn.endswith(".rs"):
                out.append(os.path.relpath(os.path.join(root, fn), repo).replace(os.sep, "/"))
    return out


def clean(repo, rel):
    """source with comments removed (line structure kept), unit-test module cut off, string contents blanked"""
    return scrub(strip_test_mod(read(repo, rel)))


ATOMS = [
    (r"env\.err\(\)\.is_styled_term\(\)", "styled_term"),
    (r"options\.quiet", "quiet"),
]


def bool_expr(expr, atoms):
    """Rust boolean expression over the given atoms -> Coq term. Grammar: atoms, !, &&, ||, parentheses."""
    s = " ".join(expr.split())
    for pat, name in atoms:
        s = re.sub(pat, " @%s@ " % name, s)
    toks = re.findall(r"@\w+@|&&|\|\||!|\(|\)|\S+", s)
    pos = [0]

    def peek():
        return toks[pos[0]] if pos[0] < len(toks) else None

    def eat():
        t = peek(); pos[0] += 1; return t

    def p_or():
        l = p_and()
        while peek() == "||":
            eat(); l = "(%s || %s)" % (l, p_and())
        return l

    def p_and():
        l = p_not()
        while peek() == "&&":
            eat(); l = "(%s && %s)" % (l, p_not())
        return l

    def p_not():
        if peek() == "!":
            eat(); return "(negb %s)" % p_not()
        if peek() == "(":
            eat(); v = p_or()
            if eat() != ")":
                raise Untranslatable("unbalanced boolean expression %r" % expr)
            return v
        t = eat()
        if t is None or not re.fullmatch(r"@\w+@", t):
            raise Untranslatable("unknown atom %r in boolean expression %r" % (t, expr))
        return t.strip("@")

    v = p_or()
    if peek() is not None:
        raise Untranslatable("trailing tokens in boolean expression %r" % expr)
    return v


def mentions_atom(cond):
    return any(re.search(p, cond) for p, _ in ATOMS)


def enclosing(src, pos):
    """list of (header_text, open_index) for each `{` block enclosing pos, outermost first. header_text is the text
    between the previous `;`, `{` or `}` and the brace."""
    stack = []
    for i, c in enumerate(src[:pos]):
        if c == "{":
            stack.append(i)
        elif c == "}":
            if stack:
                stack.pop()
    out = []
    for o in stack:
        j = o - 1
        while j >= 0 and src[j] not in ";{}":
            j -= 1
        out.append((src[j + 1:o].strip(), o))
    return out


def block_end(src, open_idx):
    d = 0
    for i in range(open_idx, len(src)):
        if src[i] == "{":
            d += 1
        elif src[i] == "}":
            d -= 1
            if d == 0:
                return i
    return len(src)


def fn_name(blocks):
    name = ""
    for h, _ in blocks:
        m = re.search(r"\bfn\s+(\w+)", h)
        if m:
            name = m.group(1)
    return name


def guard_of(src, pos):
    """conjunction of the enclosing `if` conditions that talk about quiet / styled_term (then-branches only; a site in
    an else-branch or under any other condition is treated as reachable: guard true)."""
    conds = []
    for h, _ in enclosing(src, pos):
        ifs = list(re.finditer(r"\bif\s+", h))
        if not ifs:
            continue
        cond = h[ifs[-1].end():]
        if mentions_atom(cond):
            conds.append(bool_expr(cond, ATOMS))
    if not conds:
        return "true", ""
    term = conds[0]
    for c in conds[1:]:
        term = "(%s && %s)" % (term, c)
    return term, term


SITE_PATTERNS = [
    (r"\beprintln!\s*\(", "eprintln", "stderr"),
    (r"\beprint!\s*\(", "eprint", "stderr"),
    (r"\bprintln!\s*\(", "println", "stdout"),
    (r"\bprint!\s*\(", "print", "stdout"),
    (r"\bdbg!\s*\(", "dbg", "stderr"),
    (r"\bio::stdout\s*\(\)|\bstd::io::stdout\s*\(\)|(?<![\w:.])stdout\s*\(\)", "stdout-handle", "stdout"),
    (r"\bio::stderr\s*\(\)|\bstd::io::stderr\s*\(\)|(?<![\w:.])stderr\s*\(\)", "stderr-handle", "stderr"),
    (r"\bProgressBar::new_spinner\s*\(", "spinner", "stderr"),
    (r"\bProgressBar::new\s*\(", "progress-bar", "stderr"),
    (r"\bProgressBar::with_draw_target\s*\(", "progress-bar", "stderr"),
    (r"\bProgressBar::hidden\s*\(", "hidden-bar", "none"),
    (r"\bMultiProgress::(?:new|with_draw_target)\s*\(", "multi-progress", "stderr"),
    (r"\bTerm::(?:stdout|stderr|buffered_stdout|buffered_stderr)\s*\(", "console-term", "stderr"),
]


def owner_of(rel):
    m = re.match(r"src/subcommand/torrent/(\w+?)(?:\.rs|/)", rel)
    if m:
        return "torrent " + m.group(1).replace("_", "-")
    m = re.match(r"src/subcommand/(\w+?)(?:\.rs|/)", rel)
    if m and m.group(1) != "torrent":
        return m.group(1).replace("_", "-")
    return ""


def find_sites(repo):
    skip = set(SANCTIONED) | set(HOOKS) | test_only_modules(repo)
    files = [f for f in rust_files(repo) if f not in skip]
    srcs = {f: clean(repo, f) for f in files}
    sites = []
    for f in files:
        src = srcs[f]
        for pat, kind, target in SITE_PATTERNS:
            for m in re.finditer(pat, src):
                if kind == "hidden-bar":
                    continue
                # the macro definitions out!/outln!/err!/errln! contain no print-family call; nothing to exclude
                blocks = enclosing(src, m.start())
                fn = fn_name(blocks)
                if in_cfg_test_block(src, blocks):
                    continue
                guard, gsrc = guard_of(src, m.start())
                failure_only = False
                if blocks:
                    o = blocks[-1][1]
                    rest = src[m.end():block_end(src, o)]
                    failure_only = bool(re.search(r"\breturn\s+Err\s*\(\s*EXIT_FAILURE\s*\)\s*;", rest))
                deferred = None
                if kind in ("spinner", "progress-bar"):
                    # `let NAME = ProgressBar::…;` whose only local use is the struct-field shorthand `NAME,`
                    stmt_start = max(src.rfind(";", 0, m.start()), src.rfind("{", 0, m.start()), src.rfind("}", 0, m.start())) + 1
                    lm = re.match(r"\s*let\s+(\w+)\s*=\s*$", src[stmt_start:m.start()])
                    if lm and guard == "true":
                        name = lm.group(1)
                        o = blocks[-1][1]
                        body = src[m.end():block_end(src, o)]
                        uses_local = [u for u in re.finditer(r"\b%s\b" % re.escape(name), body)]
                        shorthand = [u for u in uses_local if re.match(r"\s*,", body[u.end():]) and
                                     re.search(r"[,{]\s*$", body[:u.start()])]
                        if uses_local and len(uses_local) == len(shorthand):
                            deferred = name
                if deferred:
                    uses = []
                    for g in files:
                        for u in re.finditer(r"\.%s\b(?!\s*:)" % re.escape(deferred), srcs[g]):
                            b2 = enclosing(srcs[g], u.start())
                            if in_cfg_test_block(srcs[g], b2):
                                continue
                            # method-call receivers inside the consumers (hasher/verifier `self.progress_bar`) are
                            # uses of an already attached widget, not attachment points
                            if re.match(r"self\s*$", srcs[g][max(0, u.start() - 5):u.start()][-4:]):
                                continue
                            uses.append(guard_of(srcs[g], u.start())[0])
                    if not uses:
                        guard, gsrc = "false", "never attached"
                    else:
                        guard = uses[0]
                        for x in uses[1:]:
                            guard = "(%s || %s)" % (guard, x)
                        gsrc = "attached where `.%s` is used" % deferred
                line = src[:m.start()].count("\n") + 1
                sites.append(dict(file=f, fn=fn, kind=kind, target=target, guard=guard, gsrc=gsrc,
                                  failure_only=failure_only, owner=owner_of(f), line=line))
    sites.sort(key=lambda s: (s["file"], s["line"], s["kind"]))
    return sites


def in_cfg_test_block(src, blocks):
    """true when one of the enclosing blocks (or the item owning it) is preceded by #[cfg(test)]"""
    for h, o in blocks:
        j = o - 1
        while j >= 0 and src[j] not in ";{}":
            j -= 1
        before = src[max(0, j - 60):o]
        if re.search(r"#\[cfg\(test\)\]", before):
            return True
    return False


# ------------------------------------------------------------------ GenDirectWrites

def gen_direct_writes(repo):
    sites = find_sites(repo)
    out = "Definition translated : bool := true.\n"
    out += ("(* one entry per direct-write site outside %s:\n"
            "   (file, function, kind, target, owning subcommand or \"\", guard as a function of (styled_term, quiet),\n"
            "    only on a path that returns Err(EXIT_FAILURE)) *)\n" % ", ".join(SANCTIONED))
    out += "Definition site : Type := (string * string * string * string * string * (bool -> bool -> bool) * bool)%type.\n"
    rows = []
    for s in sites:
        rows.append("(%s, %s, %s, %s, %s,\n     (fun styled_term quiet : bool => %s), %s) (* line %d%s *)" % (
            coq_string(s["file"]), coq_string(s["fn"]), coq_string(s["kind"]), coq_string(s["target"]),
            coq_string(s["owner"]), s["guard"], "true" if s["failure_only"] else "false", s["line"],
            "; " + s["gsrc"] if s["gsrc"] else ""))
    out += "Definition sites : list site :=\n  [ " + ";\n    ".join(rows) + " ].\n" if rows else "Definition sites : list site := [].\n"
    # every place that writes through the out OutputStream (the sanctioned road to fd 1), so that a new stdout writer
    # anywhere is noticed: (file, function, `outln!` | `out!` | `out_mut()`)
    skip = set(SANCTIONED) | set(HOOKS) | test_only_modules(repo) | {"src/out.rs", "src/outln.rs"}
    srows = []
    for f in rust_files(repo):
        if f in skip:
            continue
        src = clean(repo, f)
        found = []
        for pat, kind in ((r"\boutln!\s*\(", "outln!"), (r"\bout!\s*\(", "out!"), (r"\.out_mut\s*\(\)", "out_mut()")):
            for m in re.finditer(pat, src):
                blocks = enclosing(src, m.start())
                if in_cfg_test_block(src, blocks):
                    continue
                found.append((m.start(), fn_name(blocks), kind))
        for _, fn, kind in sorted(found):
            srows.append("(%s, %s, %s)" % (coq_string(f), coq_string(fn), coq_string(kind)))
    out += "Definition stdout_sites : list (string * string * string) :=\n  [ " + ";\n    ".join(srows) + " ].\n"
    return out


def gen_direct_writes_fallback():
    return ("Definition translated : bool := false.\n"
            "Definition site : Type := (string * string * string * string * string * (bool -> bool -> bool) * bool)%type.\n"
            "Definition sites : list site := [(\"?\"%string, \"?\"%string, \"println\"%string, \"stdout\"%string, \"\"%string, (fun _ _ : bool => true), false)].\n"
            "Definition stdout_sites : list (string * string * string) := [(\"?\"%string, \"?\"%string, \"?\"%string)].\n")


# ------------------------------------------------------------------ GenCli

def kebab(name):
    return re.sub(r"(?<!^)([A-Z])", r"-\1", name).lower()


def snake(name):
    return re.sub(r"(?<!^)([A-Z])", r"_\1", name).lower()


def enum_variants(src, enum):
    m = re.search(r"pub\(crate\) enum %s \{(.*?)\n\}" % enum, src, re.S)
    if not m:
        raise Untranslatable("enum %s not found" % enum)
    out, alias = [], None
    for line in m.group(1).strip().splitlines():
        line = line.strip()
        if not line:
            continue
        a = re.fullmatch(r'#\[structopt\(alias = "([\w-]+)"\)\]', line)
        if a:
            alias = a.group(1); continue
        v = re.fullmatch(r"(\w+)\((\w+)::(\w+)\),", line)
        if not v:
            raise Untranslatable("enum %s: unexpected line %r" % (enum, line))
        out.append((v.group(1), v.group(2), alias)); alias = None
    return out


def gen_cli(repo):
    top_src = strip_comments(read(repo, "src/subcommand.rs"))
    tor_src = strip_comments(read(repo, "src/subcommand/torrent.rs"))
    top = enum_variants(top_src, "Subcommand")
    tor = enum_variants(tor_src, "Torrent")
    if [v for v, _, _ in top] != ["Torrent", "Completions"]:
        raise Untranslatable("top-level subcommands changed: %r" % (top,))
    rows, takes = [], []
    for v, mod, alias in tor:
        rel = "src/subcommand/torrent/%s.rs" % mod
        body = strip_test_mod(strip_comments(read(repo, rel)))
        unstable = "require_unstable(" in body
        if unstable:
            rm = re.search(r"fn run\(self, env: &mut Env, options: &Options\) -> Result<\(\)(?:, Error)?> \{\s*options\.require_unstable\(", body)
            if not rm:
                raise Untranslatable("%s: require_unstable is not the first statement of run" % rel)
        d = re.search(r"Self::%s\((\w+)\) => \1\.run\(env(, options)?\)," % v, tor_src)
        if not d:
            raise Untranslatable("Torrent::run dispatch arm for %s" % v)
        if d.group(2):
            takes.append(kebab(v))
        rows.append((kebab(v), unstable, alias))
    d = re.search(r"Self::Completions\((\w+)\) => \1\.run\(env(, options)?\),", top_src)
    if not d:
        raise Untranslatable("Subcommand::run dispatch arm for Completions")
    if d.group(2):
        takes.append("completions")
    # Env::status, run(), main(): the exit status table
    env_src = " ".join(strip_test_mod(strip_comments(read(repo, "src/env.rs"))).split())
    m = re.search(r"pub\(crate\) fn status\(&mut self\) -> Result<\(\), i32> \{(.*?)\} pub\(crate\) fn dir", env_src)
    if not m:
        raise Untranslatable("Env::status not found")
    st = m.group(1)
    # since the repair e7d4572 success is reported only after standard output has been flushed: a failed flush is Error::Stdout
    shape = (r"use structopt::clap::ErrorKind; let result = self \.run\(\) \.and_then\(\|\(\)\| self\.out\.flush\(\)\.context\(error::Stdout\)\); "
             r"if let Err\(error\) = result \{ if let Error::Clap \{ source \} = error \{ "
             r"if source\.use_stderr\(\) \{ write!\(&mut self\.err, \"\{source\}\"\)\.ok\(\); \} else \{ write!\(&mut self\.out, \"\{source\}\"\)\.ok\(\); \} "
             r"match source\.kind \{ ((?:ErrorKind::\w+ \| )*ErrorKind::\w+) => Ok\(\(\)\), _ => Err\(EXIT_FAILURE\), \} \} else \{ "
             r"let style = self\.err\.style\(\); writeln!\( &mut self\.err, (.*?) \) \.ok\(\); "
             r"if let Some\(lint\) = error\.lint\(\) \{ writeln!\( &mut self\.err, (.*?) \) \.ok\(\); \} Err\(EXIT_FAILURE\) \} \} else \{ Ok\(\(\)\) \}")
    sm = re.fullmatch(shape, st.strip())
    if not sm:
        raise Untranslatable("Env::status does not have the expected shape")
    ok_kinds = [k.replace("ErrorKind::", "") for k in sm.group(1).split(" | ")]
    common = read(repo, "src/common.rs")
    if not re.search(r"pub\(crate\) use libc::EXIT_FAILURE;", common):
        raise Untranslatable("EXIT_FAILURE is not libc's")
    main_src = " ".join(strip_comments(read(repo, "src/main.rs")).split())
    if main_src != "fn main() { if let Err(code) = imdl::run() { std::process::exit(code); } }":
        raise Untranslatable("main() changed: %r" % main_src)
    run_src = " ".join(strip_comments(read(repo, "src/run.rs")).split())
    rs = re.search(r"pub fn run\(\) -> Result<\(\), i32> \{ let mut env = match Env::main\(\) \{ Ok\(env\) => env, "
                   r"Err\(err\) => \{ eprintln!\(\"\{err\}\"\); return Err\(EXIT_FAILURE\); \} \}; env\.status\(\) \}", run_src)
    if not rs:
        raise Untranslatable("run() changed")
    out = "Definition translated : bool := true.\n"
    out += "Definition top_subcommands : list string := [%s].\n" % "; ".join(coq_string(kebab(v)) for v, _, _ in top)
    out += "(* (name, demands --unstable) in the order of the Torrent enum *)\n"
    out += "Definition torrent_subcommands : list (string * bool) :=\n  [ " + ";\n    ".join(
        "(%s, %s)" % (coq_string(n), "true" if u else "false") for n, u, _ in rows) + " ].\n"
    out += "Definition torrent_aliases : list (string * string) := [%s].\n" % "; ".join(
        "(%s, %s)" % (coq_string(n), coq_string(a)) for n, _, a in rows if a)
    out += "(* subcommands whose run() receives `options` (the only ones able to consult --quiet themselves) *)\n"
    out += "Definition takes_options : list string := [%s].\n" % "; ".join(coq_string(t) for t in takes)
    out += "(* Env::status: clap error kinds mapped to Ok(()); every other clap error, every other Error -> Err(EXIT_FAILURE);\n"
    out += "   run(): failure of Env::main -> Err(EXIT_FAILURE); main(): Err(code) -> exit(code), otherwise falls off main *)\n"
    out += "Definition clap_ok_kinds : list string := [%s].\n" % "; ".join(coq_string(k) for k in ok_kinds)
    out += "Definition exit_failure : N := 1. (* libc::EXIT_FAILURE, re-exported in src/common.rs *)\n"
    out += "Definition exit_clap_other : N := exit_failure.\nDefinition exit_error : N := exit_failure.\n"
    out += "Definition exit_env_main_error : N := exit_failure.\nDefinition exit_ok : N := 0.\n"
    out += "(* clap errors are written to err when use_stderr(), to out otherwise; other errors to err *)\n"
    out += "Definition clap_error_stream_by_use_stderr : bool := true.\nDefinition error_written_to_err : bool := true.\n"
    out += "(* `self.run().and_then(|()| self.out.flush().context(error::Stdout))`: a payload still buffered when run() returns\n"
    out += "   is flushed before success is reported, and a failed flush takes the error branch *)\n"
    out += "Definition stdout_flushed_before_success : bool := true.\n"
    return out


def gen_cli_fallback():
    return ("Definition translated : bool := false.\nDefinition top_subcommands : list string := [].\n"
            "Definition torrent_subcommands : list (string * bool) := [].\nDefinition torrent_aliases : list (string * string) := [].\n"
            "Definition takes_options : list string := [].\nDefinition clap_ok_kinds : list string := [].\n"
            "Definition exit_failure : N := 0.\nDefinition exit_clap_other : N := 0.\nDefinition exit_error : N := 0.\n"
            "Definition exit_env_main_error : N := 0.\nDefinition exit_ok : N := 0.\n"
            "Definition clap_error_stream_by_use_stderr : bool := false.\nDefinition error_written_to_err : bool := false.\n"
            "Definition stdout_flushed_before_success : bool := false.\n")


# ------------------------------------------------------------------ GenStreams

def fn_body(src, sig_re):
    m = re.search(sig_re, src)
    if not m:
        raise Untranslatable("function %r not found" % sig_re)
    o = src.index("{", m.end() - 1)
    return src[o + 1:block_end(src, o)]


def gen_streams(repo):
    env_raw = strip_test_mod(strip_comments(read(repo, "src/env.rs")))
    os_raw = strip_test_mod(strip_comments(read(repo, "src/output_stream.rs")))
    # Env::main: the environment part of the style decision
    m = re.search(r"let style = (.*?);", " ".join(fn_body(env_raw, r"pub\(crate\) fn main\(\) -> Result<Self> \{").split()))
    if not m:
        raise Untranslatable("Env::main style expression")
    env_atoms = [(r'env::var_os\("NO_COLOR"\)\.is_none\(\)', "nc_unset"),
                 (r'env::var_os\("TERM"\)\.as_deref\(\) != Some\(OsStr::new\("dumb"\)\)', "term_not_dumb")]
    env_style = bool_expr(m.group(1), env_atoms)
    main_body = " ".join(fn_body(env_raw, r"pub\(crate\) fn main\(\) -> Result<Self> \{").split())
    if "let out_stream = OutputStream::stdout(style); let err_stream = OutputStream::stderr(style);" not in main_body:
        raise Untranslatable("Env::main stream construction")
    if not re.search(r"Ok\(Self::new\( dir, env::args(?:_os)?\(\), Box::new\(io::stdin\(\)\), out_stream, err_stream, \)\)", main_body):
        raise Untranslatable("Env::main argument order")
    # OutputStream::stdout / stderr
    so = " ".join(fn_body(os_raw, r"pub\(crate\) fn stdout\(style: bool\) -> OutputStream \{").split())
    sm = re.fullmatch(r"let term = atty::is\(atty::Stream::Stdout\); Self \{ (.*) \}", so)
    if not sm:
        raise Untranslatable("OutputStream::stdout shape")
    so_f = field_inits(sm.group(1))
    se = " ".join(fn_body(os_raw, r"pub\(crate\) fn stderr\(style: bool\) -> OutputStream \{").split())
    sm = re.fullmatch(r"Self \{ (.*) \}", se)
    if not sm:
        raise Untranslatable("OutputStream::stderr shape")
    se_f = field_inits(sm.group(1))
    if so_f.get("stream") != "Box::new(io::stdout())" or se_f.get("stream") != "Box::new(io::stderr())":
        raise Untranslatable("OutputStream descriptors")
    out_atoms = [(r"\bstyle\b", "style"), (r"\bterm\b", "tty"), (r"\btrue\b", "true"), (r"\bfalse\b", "false")]
    err_atoms = [(r"\bstyle\b", "style"), (r"atty::is\(atty::Stream::Stderr\)", "tty"), (r"\btrue\b", "true"), (r"\bfalse\b", "false")]
    defs = []
    for nm, f, atoms in (("stdout", so_f, out_atoms), ("stderr", se_f, err_atoms)):
        for fld in ("style", "term", "active"):
            if fld not in f:
                raise Untranslatable("OutputStream::%s does not initialise %s" % (nm, fld))
            defs.append("Definition src_%s_%s (style tty : bool) : bool := %s." % (nm, fld, bool_expr(f[fld], atoms)))
    # set_use_color
    uc = " ".join(fn_body(os_raw, r"pub\(crate\) fn set_use_color\(&mut self, use_color: UseColor\) \{").split())
    um = re.fullmatch(r"match use_color \{ UseColor::Always => self\.style = (true|false), UseColor::Auto => \{\} UseColor::Never => self\.style = (true|false), \}", uc)
    if not um:
        raise Untranslatable("set_use_color shape: %r" % uc)
    # trivial setters / getters
    for sig, want in ((r"pub\(crate\) fn set_is_term\(&mut self, term: bool\) \{", "self.term = term;"),
                      (r"pub\(crate\) fn set_active\(&mut self, active: bool\) \{", "self.active = active;"),
                      (r"pub\(crate\) fn is_term\(&self\) -> bool \{", "self.term"),
                      (r"pub\(crate\) fn is_styled\(&self\) -> bool \{", "self.style"),
                      (r"pub\(crate\) fn style\(&self\) -> Style \{", "Style::from_active(self.style)")):
        if " ".join(fn_body(os_raw, sig).split()) != want:
            raise Untranslatable("OutputStream accessor changed: %s" % sig)
    ist = " ".join(fn_body(os_raw, r"pub\(crate\) fn is_styled_term\(&self\) -> bool \{").split())
    ist_t = bool_expr(ist, [(r"self\.is_styled\(\)", "style"), (r"self\.is_term\(\)", "term")])
    wr = " ".join(fn_body(os_raw, r"fn write\(&mut self, data: &\[u8\]\) -> io::Result<usize> \{").split())
    if wr != "if self.active { self.stream.write(data) } else { Ok(data.len()) }":
        raise Untranslatable("OutputStream::write is not gated by `active` as expected: %r" % wr)
    # Env::run: the reconfiguration after argument parsing
    run = " ".join(fn_body(env_raw, r"pub\(crate\) fn run\(&mut self\) -> Result<\(\)> \{").split())
    rm = re.search(r"let matches = app\.get_matches_from_safe\(&self\.args\)\?; let args = Arguments::from_clap\(&matches\); "
                   r"let use_color = args\.options\(\)\.use_color; (.*?) args\.run\(self\)$", run)
    if not rm:
        raise Untranslatable("Env::run shape")
    cfg = rm.group(1)
    cm = re.fullmatch(r"self\.err\.set_use_color\(use_color\); self\.out\.set_use_color\(use_color\); "
                      r"if args\.options\(\)\.terminal \{ ((?:self\.\w+\.set_is_term\(\w+\); )+)\} "
                      r"if args\.options\(\)\.quiet \{ ((?:self\.\w+\.set_active\(\w+\); )+)\}", cfg)
    if not cm:
        raise Untranslatable("Env::run reconfiguration block changed: %r" % cfg)
    term_sets = re.findall(r"self\.(\w+)\.set_is_term\((\w+)\);", cm.group(1))
    quiet_sets = re.findall(r"self\.(\w+)\.set_active\((\w+)\);", cm.group(2))
    out = "Definition translated : bool := true.\n"
    out += "(* Env::main *)\nDefinition src_env_style (nc_unset term_not_dumb : bool) : bool := %s.\n" % env_style
    out += "(* OutputStream::stdout / ::stderr; tty = atty::is(the descriptor) *)\n" + "\n".join(defs) + "\n"
    out += "(* OutputStream::set_use_color: Some b = assigns b to style, None = leaves it *)\n"
    out += "Definition src_color_always : option bool := Some %s.\nDefinition src_color_auto : option bool := None.\n" % um.group(1)
    out += "Definition src_color_never : option bool := Some %s.\n" % um.group(2)
    out += "Definition src_is_styled_term (style term : bool) : bool := %s.\n" % ist_t
    out += "Definition src_write_gated_by_active : bool := true.\n"
    out += "(* Env::run after parsing: set_use_color on both, then under --terminal / --quiet: *)\n"
    out += "Definition src_terminal_sets : list (string * bool) := [%s].\n" % "; ".join(
        "(%s, %s)" % (coq_string(a), b) for a, b in term_sets)
    out += "Definition src_quiet_sets : list (string * bool) := [%s].\n" % "; ".join(
        "(%s, %s)" % (coq_string(a), b) for a, b in quiet_sets)
    return out


def field_inits(text):
    out = {}
    for part in [p.strip() for p in text.split(",") if p.strip()]:
        m = re.fullmatch(r"(\w+): (.*)", part)
        if m:
            out[m.group(1)] = m.group(2)
        elif re.fullmatch(r"\w+", part):
            out[part] = part
        else:
            raise Untranslatable("field initialiser %r" % part)
    return out


def gen_streams_fallback():
    d = "Definition translated : bool := false.\nDefinition src_env_style (a b : bool) : bool := true.\n"
    for nm in ("stdout", "stderr"):
        for fld in ("style", "term", "active"):
            d += "Definition src_%s_%s (style tty : bool) : bool := true.\n" % (nm, fld)
    d += ("Definition src_color_always : option bool := None.\nDefinition src_color_auto : option bool := None.\n"
          "Definition src_color_never : option bool := None.\nDefinition src_is_styled_term (style term : bool) : bool := true.\n"
          "Definition src_write_gated_by_active : bool := false.\nDefinition src_terminal_sets : list (string * bool) := [].\n"
          "Definition src_quiet_sets : list (string * bool) := [].\n")
    return d


GENERATORS = {
    "GenDirectWrites": (gen_direct_writes, gen_direct_writes_fallback, "every src/**/*.rs outside src/env.rs, src/output_stream.rs"),
    "GenCli": (gen_cli, gen_cli_fallback, "src/subcommand.rs, src/subcommand/torrent.rs, src/subcommand/torrent/*.rs, src/env.rs, src/run.rs, src/main.rs"),
    "GenStreams": (gen_streams, gen_streams_fallback, "src/env.rs, src/output_stream.rs"),
}
