"""rs2v plug-in for C08: inventory of panic sites in the non-test code of the anchored files.

GenPanicSites.v lists every syntactic site that can panic in safe Rust (debug profile):

  unwrap       `.unwrap()`, `.unwrap_err()`
  expect       `.expect(`, `.expect_err(`
  invariant    `.invariant_unwrap(`           (src/invariant.rs: unwrap reserved for stated invariants)
  macro        `panic!`, `unreachable!`, `unimplemented!`, `todo!`, `assert!`, `assert_eq!`, `assert_ne!`
  index        `expr[...]` indexing and slicing
  arith        binary `+ - * / %` and `+= -= *= /= %=` (overflow / division by zero)
  api          calls of std functions documented to panic on some arguments: `env::args()`, `env::vars()`,
               `.split_at(`, `.copy_from_slice(`, `.chunks(`, `.chunks_exact(`, `.remove(`, `.swap_remove(`,
               `.drain(`, `.truncate(` (String: char boundary), `.step_by(`, `.windows(`, `.borrow_mut()`

keyed by (file, enclosing function, kind, normalised expression). The expression is the
source line(s) of the site with white space collapsed, string literals kept, so that an
edit that adds, removes or changes a site changes the key. The classification table in
coq/Proofs/CrashSites.v must name every key (obligation `c08_all_sites_discharged`);
a new `unwrap` in an anchored file therefore fails the check until it is classified.

The lexer is deliberately simple (it is in the trusted base): comments and `#[...]`
attributes are removed, string and char literals are masked while operators are located,
`#[cfg(test)]` items (modules and functions) are cut out.
"""
import os, re

ANCHORED = [
    "src/env.rs", "src/run.rs", "src/error.rs", "src/metainfo.rs", "src/torrent_summary.rs", "src/table.rs",
    "src/bytes.rs", "src/mode.rs", "src/md5_digest.rs", "src/piece_list.rs", "src/file_path.rs",
    "src/host_port.rs", "src/magnet_link.rs", "src/infohash.rs", "src/subcommand/torrent/dump.rs",
    "src/subcommand/torrent/stats.rs", "src/subcommand/torrent/show.rs", "src/subcommand/torrent/link.rs",
    "src/subcommand/torrent/verify.rs", "src/invariant.rs",
]


class Untranslatable(Exception):
    pass


def mask_literals(src):
    """Replace comments by spaces and the *contents* of string/char literals by `_` (same length),
    so that offsets are preserved. Returns (masked, ok)."""
    out = list(src)
    i, n = 0, len(src)
    while i < n:
        c = src[i]
        if src.startswith("//", i):
            j = src.find("\n", i)
            j = n if j < 0 else j
            for k in range(i, j):
                out[k] = " "
            i = j
        elif src.startswith("/*", i):
            j = src.find("*/", i + 2)
            if j < 0:
                raise Untranslatable("unterminated block comment")
            for k in range(i, j + 2):
                if out[k] != "\n":
                    out[k] = " "
            i = j + 2
        elif c == '"' or (c == "r" and re.match(r'r#*"', src[i:i + 8]) and not (i and (src[i - 1].isalnum() or src[i - 1] == "_"))) \
                or (c == "b" and src[i + 1:i + 2] == '"' and not (i and (src[i - 1].isalnum() or src[i - 1] == "_"))):
            if c == "b":
                i += 1
            if src[i] == "r":
                m = re.match(r'r(#*)"', src[i:])
                close = '"' + m.group(1)
                start = i + len(m.group(0))
                j = src.find(close, start)
                if j < 0:
                    raise Untranslatable("unterminated raw string")
                for k in range(start, j):
                    if out[k] != "\n":
                        out[k] = "_"
                i = j + len(close)
            else:
                j = i + 1
                while j < n and src[j] != '"':
                    j += 2 if src[j] == "\\" else 1
                if j >= n:
                    raise Untranslatable("unterminated string")
                for k in range(i + 1, j):
                    if out[k] != "\n":
                        out[k] = "_"
                i = j + 1
        elif c == "'":
            m = re.match(r"'(\\.[^']*|[^'\\])'", src[i:])
            if m:  # char literal (else: lifetime)
                for k in range(i + 1, i + len(m.group(0)) - 1):
                    out[k] = "_"
                i += len(m.group(0))
            else:
                i += 1
        else:
            i += 1
    return "".join(out)


def matching(src, i, open_, close):
    depth = 0
    while i < len(src):
        if src[i] == open_:
            depth += 1
        elif src[i] == close:
            depth -= 1
            if depth == 0:
                return i
        i += 1
    raise Untranslatable("unbalanced %s" % open_)


def cut_tests_and_attrs(masked, src):
    """Blank `#[cfg(test)]` items and all attributes (in both strings, same offsets)."""
    m_out, s_out = list(masked), list(src)

    def blank(a, b):
        for k in range(a, b):
            if m_out[k] != "\n":
                m_out[k] = " "
                s_out[k] = " "

    for m in re.finditer(r"#\[cfg\(test\)\]", masked):
        j = m.end()
        # further attributes
        while True:
            mm = re.match(r"\s*#\[", masked[j:])
            if not mm:
                break
            j = matching(masked, j + mm.end() - 1, "[", "]") + 1
        brace = masked.find("{", j)
        semi = masked.find(";", j)
        if brace < 0 or (0 <= semi < brace):
            blank(m.start(), semi + 1)
        else:
            blank(m.start(), matching(masked, brace, "{", "}") + 1)
    masked2 = "".join(m_out)
    for m in re.finditer(r"#!?\[", masked2):
        if m_out[m.start()] == " ":
            continue
        end = matching(masked2, m.end() - 1, "[", "]") + 1
        blank(m.start(), end)
    return "".join(m_out), "".join(s_out)


FN_RE = re.compile(r"\bfn\s+([A-Za-z_][A-Za-z0-9_]*)")
IMPL_RE = re.compile(r"\bimpl\b([^{;]*)\{")


def fn_spans(masked):
    """[(start, end, qualified name)] for every fn body; nested fns are reported innermost-first."""
    impls = []
    for m in IMPL_RE.finditer(masked):
        head = " ".join(m.group(1).split())
        head = re.sub(r"^<[^>]*(<[^>]*>[^>]*)*>\s*", "", head)
        tm = re.search(r"(?:\bfor\s+)([A-Za-z_][A-Za-z0-9_:]*)", head) or re.match(r"([A-Za-z_][A-Za-z0-9_:]*)", head)
        trait = re.match(r"([A-Za-z_][A-Za-z0-9_:]*)(?:<.*>)?\s+for\b", head)
        name = tm.group(1) if tm else "?"
        if trait:
            name = "%s as %s" % (name, trait.group(1))
        impls.append((m.end() - 1, matching(masked, m.end() - 1, "{", "}"), name))
    spans = []
    for m in FN_RE.finditer(masked):
        brace = masked.find("{", m.end())
        semi = masked.find(";", m.end())
        if brace < 0 or (0 <= semi < brace):
            continue
        end = matching(masked, brace, "{", "}")
        owner = [n for a, b, n in impls if a < m.start() < b]
        q = (owner[-1] + "::" if owner else "") + m.group(1)
        spans.append((brace, end, q))
    return spans


def enclosing(spans, pos):
    best = None
    for a, b, q in spans:
        if a <= pos <= b and (best is None or a > best[0]):
            best = (a, b, q)
    # qualify nested fns by their parent
    if best is None:
        return "<item>"
    parents = [q for a, b, q in spans if a < best[0] and best[1] < b]
    return (parents[-1].split("::")[-1] + "/" if parents and "::" not in best[2] else "") + best[2]


def norm(s):
    return " ".join(s.split())


def statement_text(src, masked, pos):
    """the source line containing pos, extended backwards over a method chain so that the
    receiver is part of the key"""
    a = masked.rfind("\n", 0, pos) + 1
    b = masked.find("\n", pos)
    b = len(masked) if b < 0 else b
    line = src[a:b]
    # method chain: previous lines that the current line continues (starts with `.` or `)`)
    guard = 0
    while re.match(r"\s*[.)]", src[a:b]) and a > 0 and guard < 12:
        a = masked.rfind("\n", 0, a - 1) + 1
        guard += 1
    return norm(src[a:b])[:200]


TYPE_CTX_BEFORE = re.compile(r"(\bimpl\b|\bdyn\b|:\s*|where\b)[^;{}()=]*$")


def abstract(e):
    """an expression with every identifier replaced by `I` (numbers, operators and brackets kept): what a site is, whatever
    its variables are called"""
    return re.sub(r"[A-Za-z_][A-Za-z0-9_]*", "I", e)


def sites_of(rel, text, with_shapes=False):
    masked = mask_literals(text)
    masked, src = cut_tests_and_attrs(masked, text)
    spans = fn_spans(masked)
    found = []
    shapes = []   # parallel to found: (file, kind, what the site is with every identifier abstracted) - see gen_panic_sites

    def add(kind, pos, expr=None, shape=None):
        fn = enclosing(spans, pos)
        if fn == "<item>":
            return  # constants, type declarations, derive input: evaluated at compile time or not code
        found.append((rel, fn, kind, expr if expr is not None else statement_text(src, masked, pos)))
        shapes.append((rel, kind, shape if shape is not None else kind))

    for m in re.finditer(r"\.\s*(unwrap|unwrap_err)\s*\(\s*\)", masked):
        add("unwrap", m.start(), shape=m.group(1))
    for m in re.finditer(r"\.\s*(expect|expect_err)\s*\(", masked):
        add("expect", m.start(), shape=m.group(1))
    for m in re.finditer(r"\.\s*invariant_unwrap\s*\(", masked):
        add("invariant", m.start())
    for m in re.finditer(r"\b(panic|unreachable|unimplemented|todo|assert|assert_eq|assert_ne|debug_assert|debug_assert_eq)!", masked):
        add("macro", m.start(), shape=m.group(1))
    for m in re.finditer(r"\benv::(args|vars)\s*\(\s*\)|\.\s*(split_at|split_at_mut|copy_from_slice|clone_from_slice|chunks|chunks_exact|"
                         r"remove|swap_remove|drain|truncate|step_by|windows|borrow_mut)\s*\(", masked):
        add("api", m.start(), shape=(m.group(1) or m.group(2)))
    # indexing / slicing: `[` directly after an identifier, `)` or `]` (not after `#`, `&`, `=`, `(`, `,`, `:` ...)
    for m in re.finditer(r"(?<=[A-Za-z0-9_\)\]])\[", masked):
        # skip array types / generics like `[u8; 16]` after `:` or `<` - those follow a non-identifier char
        before = masked[max(0, m.start() - 40):m.start()]
        if re.search(r"(\bvec|\bmatches|\bformat|\bwrite|\bwriteln)!\s*$", before):
            continue
        if re.search(r"&\s*(mut\s+)?$", before) or re.search(r"&'[a-z_]+\s+(mut\s+)?$", before):
            continue
        end = matching(masked, m.start(), "[", "]")
        a = m.start()
        while a > 0 and (masked[a - 1].isalnum() or masked[a - 1] in "_.)]("):
            a -= 1
        add("index", m.start(), norm(src[a:end + 1])[:200], shape=abstract(norm(masked[m.start():end + 1])[:200]))
    # arithmetic
    for m in re.finditer(r"(?<![-+*/%=<>!&|^.])(\+=|-=|\*=|/=|%=|\+|-|\*|/|%)(?![=>*/])", masked):
        op = m.group(1)
        pos = m.start()
        prev = masked[:pos].rstrip()
        nxt = masked[m.end():].lstrip()
        if not prev or not nxt:
            continue
        pc = prev[-1]
        # binary operator needs an operand on the left
        if not (pc.isalnum() or pc in "_)]}\"'"):
            continue
        if pc == "}" and op in "*-&":
            continue
        if re.search(r"\b(return|in|=>|if|else|match|let|mut|as|move)$", prev):
            continue
        # trait bounds `A + B`, `impl X + 'a`, `dyn X + 'a`
        if op == "+" and (nxt.startswith("'") or TYPE_CTX_BEFORE.search(prev[-120:].split("\n")[-1]) and
                          re.match(r"[A-Z']", nxt) and not re.match(r"[A-Z][A-Z0-9_]*\b(?![a-z:<])", nxt)):
            continue
        # `*` / `-` in type position (`*const`, `-> T`) are excluded by the regex; generic `<T>` not affected
        ltok = re.search(r"([A-Za-z_][A-Za-z0-9_]*|[0-9][0-9A-Za-z_.]*|[)\]}\"'])$", prev)
        rtok = re.match(r"([A-Za-z_][A-Za-z0-9_]*|[0-9][0-9A-Za-z_.]*|[(\[&*\-!\"'])", nxt)
        add("arith", pos, shape="%s %s %s" % (abstract(ltok.group(1)) if ltok else "?", op, abstract(rtok.group(1)) if rtok else "?"))
    if with_shapes:
        return found, shapes
    return found


def coq_string(s):
    return '"' + s.replace('"', '""') + '"'


REF = os.path.join(os.path.dirname(os.path.dirname(os.path.abspath(__file__))), "coq", "GeneratedRef", "GenPanicSites.v")


def _shape_counts(shapes):
    c = {}
    for sh in shapes:
        k = " | ".join(sh)
        c[k] = c.get(k, 0) + 1
    return c


def _reference():
    """(set of strict site rows, shape multiset) of the last validated tree, or None"""
    import json
    if not os.path.exists(REF):
        return None
    t = open(REF, encoding="utf-8").read()
    m = re.search(r"\(\* shapes: (.*?) \*\)\s*$", t, re.S)
    if not m:
        return None
    try:
        counts = json.loads(m.group(1))
    except Exception:
        return None
    rows = set(re.findall(r'^\s*[\[ ]\s*(\(".*\))\s*;?\s*(?:\]\.)?$', t, re.M))
    return rows, counts


def gen_panic_sites(repo):
    import json
    rows, shapes = [], []
    for rel in ANCHORED:
        p = os.path.join(repo, rel)
        if not os.path.exists(p):
            raise Untranslatable("anchored file missing: " + rel)
        r, sh = sites_of(rel, open(p, encoding="utf-8").read(), with_shapes=True)
        rows += r; shapes += sh
    body = _render(rows, shapes)
    # Rename tolerance. The strict key of a site contains its source text, so renaming a variable or moving a statement
    # changes keys although no site is new. When the inventory differs from the one of the last validated tree but every
    # (file, kind, identifier-free shape) occurs at most as often as there, nothing that can panic has been ADDED: the
    # generator then declines to translate (the reference inventory is kept, rs2v_status says so, and the check enlarges
    # its fuzzing run instead). One more index, unwrap, arithmetic operation ... of any shape in any anchored file is
    # still emitted as read and has to be classified in Proofs/CrashSites.v.
    ref = _reference()
    if ref is not None:
        ref_rows_text, ref_counts = ref
        cur_counts = _shape_counts(shapes)
        cur_text = open(REF, encoding="utf-8").read()
        if _strip_header(cur_text) != body:
            added = sorted(k for k, n in cur_counts.items() if n > ref_counts.get(k, 0))
            if not added:
                raise Untranslatable("panic sites were renamed, moved or removed but none was added (every file/kind/shape occurs "
                                     "at most as often as in the last validated tree)")
    return body


def _strip_header(text):
    i = text.find("From Coq Require Import String.\nLocal Open Scope string_scope.\n")
    return text[i:] if i >= 0 else text


def _render(rows, shapes):
    import json
    # a key that occurs k times is listed k times with an occurrence counter, so that adding a
    # second identical unwrap in the same function is still a change
    seen = {}
    out = []
    for r in rows:
        seen[r] = seen.get(r, 0) + 1
        out.append(r + (seen[r],))
    body = "From Coq Require Import String.\nLocal Open Scope string_scope.\n"
    body += "Definition translated : bool := true.\n"
    body += "(* (file, function, kind, normalised expression, occurrence) *)\n"
    body += "Definition panic_sites : list (string * string * string * string * N) :=\n  [ "
    body += ";\n    ".join("(%s, %s, %s, %s, %d%%N)" % (coq_string(f), coq_string(fn), coq_string(k), coq_string(e), n)
                           for f, fn, k, e, n in out)
    body += " ].\n"
    body += "Definition anchored_files : list string :=\n  [ " + "; ".join(coq_string(f) for f in ANCHORED) + " ].\n"
    js = json.dumps(_shape_counts(shapes), sort_keys=True).replace("*)", "*\\u0029").replace("(*", "\\u0028*")
    body += "(* shapes: %s *)\n" % js
    return body


def gen_panic_sites_fallback():
    return ("From Coq Require Import String.\nLocal Open Scope string_scope.\n"
            "Definition translated : bool := false.\n"
            "Definition panic_sites : list (string * string * string * string * N) := [].\n"
            "Definition anchored_files : list string := [].\n")


def _adapt(fn):
    # rs2v.py catches its own Untranslatable class; map ours onto a plain failure it also handles
    def run(repo):
        try:
            return fn(repo)
        except Untranslatable as e:
            import rs2v
            raise rs2v.Untranslatable(str(e))
    return run


GENERATORS = {
    "GenPanicSites": (_adapt(gen_panic_sites), gen_panic_sites_fallback,
                      "the non-test code of the files anchored by C08 (see tools/rs2v_panics.py)"),
}

if __name__ == "__main__":
    import sys
    for rel in ANCHORED:
        r, sh = sites_of(rel, open(os.path.join(sys.argv[1], rel)).read(), with_shapes=True)
        for a, b in zip(r, sh):
            print(" | ".join(a), "   ##", b[2])
