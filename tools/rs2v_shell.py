"""rs2v plug-in for C19: GenShell.v.

Reads, on every run,
  src/shell.rs                    enum Shell (variants, strum kebab-case names), the file-name table
                                  `completion_script_filename`, `impl From<Shell> for clap::Shell`, and the
                                  straight-line body of `completion_script` (source of the script, post-processing)
  src/subcommand/completions.rs   the structopt attribute table of `struct Completions` (consts resolved, help dropped)
  src/arguments.rs, src/subcommand.rs, src/subcommand/<mod>.rs
                                  the subcommand tree from the StructOpt enums (structopt's default kebab-case names, aliases)
  Cargo.toml                      the package name (env!("CARGO_PKG_NAME"))
Narrow grammar; anything else is Untranslatable -> `translated := false` and neutral values."""
import os, re, sys

_m = sys.modules.get("__main__")
if not hasattr(_m, "Untranslatable"):
    import rs2v as _m
Untranslatable, read, strip_tests, strip_comments, coq_string = (
    _m.Untranslatable, _m.read, _m.strip_tests, _m.strip_comments, _m.coq_string)


def kebab(ident):
    """heck's kebab-case for the plain CamelCase identifiers accepted here (Zsh, FromLink, PieceLength)"""
    if not re.fullmatch(r"(?:[A-Z][a-z0-9]+)+", ident):
        raise Untranslatable("identifier %r is not plain CamelCase" % ident)
    return "-".join(w.lower() for w in re.findall(r"[A-Z][a-z0-9]+", ident))


def snake(ident):
    return kebab(ident).replace("-", "_")


def slist(xs):
    return "[" + "; ".join(coq_string(x) for x in xs) + "]"


def plist(ps):
    return "[" + "; ".join("(%s, %s)" % (coq_string(a), coq_string(b)) for a, b in ps) + "]"


def arms(body, pat, what):
    """all `match` arms in body must have the form pat; returns the captured groups in order"""
    out = []
    rest = body
    for m in re.finditer(pat, body):
        out.append(m.groups())
    rest = re.sub(pat, "", body)
    if rest.strip() or not out:
        raise Untranslatable("%s: unexpected match arm text %r" % (what, rest.strip()[:80]))
    return out


# ------------------------------------------------------------------ src/shell.rs

def shell_enum(src):
    m = re.search(r"#\[derive\(([^)]*)\)\]\s*#\[strum\(serialize_all = \"kebab-case\"\)\]\s*pub\(crate\) enum Shell \{(.*?)\}",
                  src, re.S)
    if not m:
        raise Untranslatable("enum Shell with #[strum(serialize_all = \"kebab-case\")] not found")
    derives = {d.strip() for d in m.group(1).split(",")}
    for need in ("EnumVariantNames", "IntoStaticStr", "EnumString", "EnumIter"):
        if need not in derives:
            raise Untranslatable("enum Shell no longer derives " + need)
    variants = []
    for line in m.group(2).strip().splitlines():
        line = line.strip()
        vm = re.fullmatch(r"([A-Za-z0-9_]+),", line)
        if not vm:
            raise Untranslatable("enum Shell: variant line %r" % line)
        variants.append(vm.group(1))
    return variants


def gen_shell_part(repo):
    src = strip_comments(strip_tests(read(repo, "src/shell.rs")))
    variants = shell_enum(src)
    names = [(v, kebab(v)) for v in variants]
    m = re.search(r"pub\(crate\) fn completion_script_filename\(self\) -> &'static str \{\s*match self \{(.*?)\}\s*\}", src, re.S)
    if not m:
        raise Untranslatable("completion_script_filename not found")
    files = arms(m.group(1), r"Self::(\w+)\s*=>\s*\"([^\"\\]*)\",", "completion_script_filename")
    m = re.search(r"impl From<Shell> for clap::Shell \{\s*fn from\(shell: Shell\) -> Self \{\s*match shell \{(.*?)\}\s*\}\s*\}", src, re.S)
    if not m:
        raise Untranslatable("impl From<Shell> for clap::Shell not found")
    clap = arms(m.group(1), r"Shell::(\w+)\s*=>\s*clap::Shell::(\w+),", "From<Shell> for clap::Shell")
    m = re.search(r"pub\(crate\) fn completion_script\(self\) -> Result<String> \{(.*?)\n  \}", src, re.S)
    if not m:
        raise Untranslatable("completion_script not found")
    body = " ".join(m.group(1).split())
    pat = (r"let buffer = Vec::new\(\); let mut cursor = Cursor::new\(buffer\); "
           r"(\w+)::clap\(\)\.gen_completions_to\(env!\(\"(\w+)\"\), self\.into\(\), &mut cursor\); "
           r"let buffer = cursor\.into_inner\(\); "
           r"let script = String::from_utf8\(buffer\)\.context\(error::ShellDecode \{ shell: self \}\)\?; "
           r"let mut script = script\.(trim)\(\)\.to_owned\(\); script\.push\('(\\n|[^'\\])'\); Ok\(script\)")
    mm = re.fullmatch(pat, body)
    if not mm:
        raise Untranslatable("completion_script body is not the expected straight-line code: %r" % body[:200])
    pushed = 10 if mm.group(4) == "\\n" else ord(mm.group(4))
    cargo = read(repo, "Cargo.toml")
    pm = re.search(r"\[package\]\s*\nname\s*=\s*\"([^\"]+)\"", cargo)
    if not pm:
        raise Untranslatable("package name not found in Cargo.toml")
    if mm.group(2) != "CARGO_PKG_NAME":
        raise Untranslatable("script binary name is env!(%s)" % mm.group(2))
    out = "(* src/shell.rs: enum Shell in declaration order (= Shell::iter()) *)\n"
    out += "Definition shell_variants : list string := %s.\n" % slist(variants)
    out += "(* strum serialize_all = \"kebab-case\": Shell::VARIANTS, EnumString, IntoStaticStr *)\n"
    out += "Definition shell_names : list (string * string) := %s.\n" % plist(names)
    out += "(* Shell::completion_script_filename, arm by arm *)\n"
    out += "Definition shell_filenames : list (string * string) := %s.\n" % plist(files)
    out += "(* impl From<Shell> for clap::Shell, arm by arm *)\n"
    out += "Definition shell_clap : list (string * string) := %s.\n" % plist(clap)
    out += "(* Shell::completion_script: <source>::clap().gen_completions_to(<bin>, ..); script.trim(); script.push(<byte>) *)\n"
    out += "Definition script_source : string := %s.\n" % coq_string(mm.group(1))
    out += "Definition script_bin_name : string := %s.\n" % coq_string(pm.group(1))
    out += "Definition script_post_trim : bool := true.\n"
    out += "Definition script_post_push : list N := [%d].\n" % pushed
    return out


# ------------------------------------------------------------------ src/subcommand/completions.rs

def split_top(s):
    """split on commas that are outside string literals and parentheses"""
    parts, cur, depth, i = [], [], 0, 0
    while i < len(s):
        c = s[i]
        if c == '"':
            j = i + 1
            while j < len(s) and s[j] != '"':
                j += 2 if s[j] == "\\" else 1
            cur.append(s[i:j + 1]); i = j + 1; continue
        if c in "([{":
            depth += 1
        elif c in ")]}":
            depth -= 1
        if c == "," and depth == 0:
            parts.append("".join(cur)); cur = []
        else:
            cur.append(c)
        i += 1
    if "".join(cur).strip():
        parts.append("".join(cur))
    return [p.strip() for p in parts]


def attr_end(src, i):
    """index just after the `)]` that closes the `#[structopt(` starting at i (string-literal aware)"""
    depth, j = 0, i
    while j < len(src):
        c = src[j]
        if c == '"':
            j += 1
            while src[j] != '"':
                j += 2 if src[j] == "\\" else 1
        elif c in "([":
            depth += 1
        elif c in ")]":
            depth -= 1
            if depth == 0:
                return j + 1
        j += 1
    raise Untranslatable("unterminated attribute")


def gen_args_part(repo):
    src = strip_tests(read(repo, "src/subcommand/completions.rs"))   # comments kept out by the grammar below
    consts = dict(re.findall(r"const (\w+): &str = \"([^\"\\]*)\";", src))
    m = re.search(r"pub\(crate\) struct Completions \{(.*?)\n\}", src, re.S)
    if not m:
        raise Untranslatable("struct Completions not found")
    body = m.group(1)
    fields, i = [], 0
    while True:
        rest = body[i:]
        if not rest.strip():
            break
        am = re.match(r"\s*#\[structopt\(", rest)
        if not am:
            raise Untranslatable("struct Completions: expected #[structopt(...)] at %r" % rest.strip()[:60])
        start = i + am.end() - len("#[structopt(")
        end = attr_end(body, start)
        inner = body[start + len("#[structopt("):end - 2]
        fm = re.match(r"\s*(\w+): ([A-Za-z0-9_<>:]+),", body[end:])
        if not fm:
            raise Untranslatable("struct Completions: expected a field after the attribute, got %r" % body[end:end + 60])
        i = end + fm.end()
        attrs = []
        for part in split_top(inner):
            km = re.fullmatch(r"(\w+)\s*=\s*(.+)", part, re.S)
            pm = re.fullmatch(r"(\w+)\((\w+)\)", part)
            if km:
                k, v = km.group(1), km.group(2).strip()
                if k == "help":
                    continue
                if re.fullmatch(r"\"[^\"\\]*\"", v):
                    v = v[1:-1]
                elif v in consts:
                    v = consts[v]
                elif v in ("true", "false", "Shell::VARIANTS"):
                    pass
                else:
                    raise Untranslatable("struct Completions: attribute value %r" % v[:60])
                attrs.append((k, v))
            elif pm:
                attrs.append((pm.group(1), pm.group(2)))
            else:
                raise Untranslatable("struct Completions: attribute %r" % part[:60])
        fields.append((fm.group(1), fm.group(2), attrs))
    out = "(* src/subcommand/completions.rs: structopt attributes of struct Completions (consts resolved, help dropped) *)\n"
    out += "Definition completions_args : list (string * string * list (string * string)) :=\n  [ "
    out += ";\n    ".join("(%s, %s, %s)" % (coq_string(f), coq_string(t), plist(a)) for f, t, a in fields) + " ].\n"
    return out


# ------------------------------------------------------------------ the subcommand tree

# further outer attributes between the derive and the item (structopt(about ..), cfg_attr(test, ..)); settings that
# would change the subcommand list are screened separately in gen_cli_part
ATTRS = r"(?:#\[(?:[^\[\]]|\[[^\[\]]*\])*\]\s*)*"


def enum_variants(src, name, where):
    m = re.search(r"#\[derive\(StructOpt\)\]\s*" + ATTRS + r"pub\(crate\) enum %s \{(.*?)\n\}" % name, src, re.S)
    if not m:
        return None
    out, pending, given = [], [], None
    for line in m.group(1).strip().splitlines():
        line = line.strip()
        am = re.fullmatch(r"#\[structopt\(alias = \"([a-z0-9-]+)\"\)\]", line)
        nm = re.fullmatch(r"#\[structopt\(name = \"([a-z0-9-]+)\"\)\]", line)
        vm = re.fullmatch(r"(\w+)\((\w+)::(\w+)\),", line)
        if am:
            pending.append(am.group(1))
        elif nm:
            given = nm.group(1)
        elif vm:
            out.append((vm.group(1), vm.group(2), vm.group(3), pending, given)); pending, given = [], None
        else:
            raise Untranslatable("%s: enum %s: line %r" % (where, name, line))
    return out


def walk_enum(repo, rel, name, prefix, paths, aliases, depth=0):
    if depth > 4:
        raise Untranslatable("subcommand nesting too deep")
    src = strip_comments(strip_tests(read(repo, rel)))
    vs = enum_variants(src, name, rel)
    if vs is None:
        raise Untranslatable("%s: #[derive(StructOpt)] enum %s not found" % (rel, name))
    for ident, mod, ty, al, given in vs:
        if not re.search(r"^mod %s;" % mod, src, re.M):
            raise Untranslatable("%s: module %s is not declared here" % (rel, mod))
        path = prefix + [given if given is not None else kebab(ident)]
        paths.append(path)
        for a in al:
            aliases.append((path, a))
        sub = os.path.join(os.path.dirname(rel), os.path.basename(rel)[:-3], mod + ".rs")
        ssrc = strip_comments(strip_tests(read(repo, sub)))
        if re.search(r"pub\(crate\) enum %s \{" % ty, ssrc):
            walk_enum(repo, sub, ty, path, paths, aliases, depth + 1)
        elif not re.search(r"#\[derive\(StructOpt\)\]\s*" + ATTRS + r"pub\(crate\) struct %s \{" % ty, ssrc):
            raise Untranslatable("%s: %s is neither a StructOpt enum nor a StructOpt struct" % (sub, ty))


def gen_cli_part(repo):
    a = strip_comments(strip_tests(read(repo, "src/arguments.rs")))
    if not re.search(r"#\[structopt\(subcommand\)\]\s*subcommand: Subcommand,", a):
        raise Untranslatable("Arguments no longer has `#[structopt(subcommand)] subcommand: Subcommand`")
    for rel_root, _, files in os.walk(os.path.join(repo, "src")):
        for fn in files:
            if fn.endswith(".rs"):
                t = strip_tests(open(os.path.join(rel_root, fn), encoding="utf-8").read())
                if re.search(r"DisableHelpSubcommand|AppSettings::Hidden|VersionlessSubcommands", t):
                    raise Untranslatable("%s uses a clap setting that changes the subcommand list" % fn)
    paths, aliases = [], []
    walk_enum(repo, "src/subcommand.rs", "Subcommand", [], paths, aliases)
    out = "(* the subcommand tree of the StructOpt enums (src/subcommand.rs and below), structopt's kebab-case names;\n"
    out += "   clap adds `help` next to every group of subcommands by itself *)\n"
    out += "Definition cli_subcommands : list (list string) :=\n  [ " + ";\n    ".join(slist(p) for p in paths) + " ].\n"
    out += "Definition cli_aliases : list (list string * string) := [%s].\n" % "; ".join(
        "(%s, %s)" % (slist(p), coq_string(a)) for p, a in aliases)
    return out


def gen_shell(repo):
    return "Definition translated : bool := true.\n" + gen_shell_part(repo) + gen_args_part(repo) + gen_cli_part(repo)


def gen_shell_fallback():
    return ("Definition translated : bool := false.\n"
            "Definition shell_variants : list string := [].\n"
            "Definition shell_names : list (string * string) := [].\n"
            "Definition shell_filenames : list (string * string) := [].\n"
            "Definition shell_clap : list (string * string) := [].\n"
            "Definition script_source : string := \"\"%string.\n"
            "Definition script_bin_name : string := \"\"%string.\n"
            "Definition script_post_trim : bool := false.\n"
            "Definition script_post_push : list N := [].\n"
            "Definition completions_args : list (string * string * list (string * string)) := [].\n"
            "Definition cli_subcommands : list (list string) := [].\n"
            "Definition cli_aliases : list (list string * string) := [].\n")


GENERATORS = {
    "GenShell": (gen_shell, gen_shell_fallback,
                 "src/shell.rs, src/subcommand/completions.rs, src/arguments.rs, src/subcommand.rs, src/subcommand/*.rs, Cargo.toml"),
}
