#!/usr/bin/env python3
"""Validate MANIFEST.json and every evidence file against the schemas (run with python3-vt)."""
import json, os, sys, glob
import jsonschema
V = os.path.dirname(os.path.dirname(os.path.abspath(__file__)))
m = json.load(open(os.path.join(V, "MANIFEST.json")))
jsonschema.validate(m, json.load(open("/root/.vp/MANIFEST.schema.json")))
es = json.load(open("/root/.vp/EVIDENCE.schema.json"))
bad = 0
for c in m["checks"]:
    p = c["evidence_file"]
    if not os.path.exists(p):
        print("missing evidence", p); bad += 1; continue
    try:
        e = json.load(open(p)); jsonschema.validate(e, es)
        cov = e["coverage"]
        print("%s ok: tier=%s obligations=%s/%s evals=%s distinct=%s wall=%ss viol=%s" % (c["property_id"], e["tier"], cov.get("discharged"), cov.get("obligations"), cov.get("evaluations"), cov.get("distinct_nontrivial"), e["wall_s"], e.get("violations")))
    except Exception as ex:
        print("INVALID", p, str(ex)[:300]); bad += 1
ids = {c["property_id"] for c in m["checks"]} | {n["property_id"] for n in m.get("not_applicable", [])}
props = {json.loads(l)["id"] for l in open(os.path.join(V, "properties.jsonl"))}
if ids != props:
    print("MANIFEST does not account for", props ^ ids); bad += 1
print("manifest valid; %d problem(s)" % bad)
sys.exit(1 if bad else 0)
