#!/bin/sh
# run every claimed check (quick by default) and print one line each; exit 1 if any fails
cd "$(dirname "$0")/.." || exit 1
tier="${1:-quick}"; bad=0
for id in $(python3 -c "import json;print(' '.join(c['property_id'] for c in json.load(open('MANIFEST.json'))['checks']))"); do
  t0=$(date +%s); out=$(./check "$id" --tier "$tier" 2>&1); rc=$?; t1=$(date +%s)
  echo "$id rc=$rc $((t1-t0))s $(echo "$out" | grep -E '^(OK|VIOLATION)' | head -2 | tr '\n' ' ' | cut -c1-220)"
  [ $rc -ne 0 ] && bad=1
done
exit $bad
