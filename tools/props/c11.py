"""C11 — metadata fetched from peers is authentic, and honest peers are understood.

Obligations: coq/Properties/C11.v (authenticity for every byte stream and every payload reader, no panic,
framing with keep-alives, completeness for every honest BEP 3/9/10 peer, tables regenerated from src/peer/**).
Correspondence: the `peer_fetch` hook (peer::Client::connect + fetch_info_dict) against scripted loopback TCP
peers run in Python threads, the extracted `Peer.assemble` on the same byte streams, and a direct oracle
(hashlib + own BEP 3/9/10 code); end to end `imdl torrent from-link` against a UDP tracker simulator and the
same scripted peers for exit status / file written / no crash."""
import hashlib, json, os, shutil, socket, struct, tempfile, threading, time
import lib
from props import info_roundtrip as irt

MANIFEST = dict(
    text="Machine-checked proof over a model of the peer client (frame reader, BitTorrent and extension handshakes, "
         "ut_metadata assembly over the strict bencode model, verify_info_dict): authenticity for every byte stream a peer can "
         "send and every reading of its payloads, no panic (re-encoded header never longer than what was decoded), framing with "
         "keep-alives, and completeness for every honest BEP 3/9/10 peer (any size incl. exact multiples of 16 KiB, any id "
         "assignment, any ignorable interleaving, any trailing bytes; segmentation does not exist at stream level). Tied to the "
         "code by tables and decision shapes regenerated from src/peer/** and by scripted-peer correspondence runs through the "
         "peer_fetch hook and the real `imdl torrent from-link`. serde's typed round trip of the Info dictionary is a concrete "
         "model (info_norm) with a syntactic normal-form predicate (typed_normal): load-then-encode is the identity on normal "
         "forms, whatever is written is normal, canonical and stable, what `create` writes is typed-normal (a created torrent is "
         "fetched back byte-identically), all for every byte string. Right level: the property quantifies over all adversarial "
         "sequences and all sizes/interleavings; the tests script nine sessions.",
    ref="DESIGN.md section 5, C11",
    technique="Coq proof over a Gallina model + translator-generated tables + model/implementation correspondence run",
    note="partial: timeouts, send errors, real TCP behaviour and the rayon fan-out are exercised only by the runs. Since X16 serde's "
         "typed round trip of Info is concrete (Model/InfoRoundTrip.v info_norm; typed-normal is the syntactic predicate "
         "typed_normal; c11_complete_concrete, c11_authentic_concrete, c11_created_torrents_fetch_back) and compared on every "
         "run with the real client on >= 3000 structured dictionaries. Assumed (universally quantified, validated by the runs): the "
         "url crate outside the fragment of Model/UrlNorm.v, SHA-1 is a function. Model deviations: integers in [2^63,2^64) in u64 "
         "header fields, bendy's 2048 nesting limit in ignored header values. Open finding: honest dictionaries of modelled keys "
         "that are not typed-normal (e.g. non-normal update-url, upper-case md5sum) are rejected (key typed-roundtrip-changes-value, "
         "class c11_known_class). Small finding: `piece length` in [2^63,2^64) is accepted and written, then refused by imdl's own "
         "strict readers (c11_reserialisation_strict_refuted).")

PIECE = 16384
HEADER = b"\x13BitTorrent protocol"
KNOWN_KEY = "typed-roundtrip-changes-value"


# ---------------------------------------------------------------- BEP 3/9/10 byte level (independent of imdl and of the model)

def ben(v):
    return lib.bencode(v)


def frame(payload):
    return struct.pack(">I", len(payload)) + payload


KEEPALIVE = b"\0\0\0\0"


def bt_handshake(infohash, reserved=b"\0\0\0\0\0\x10\0\0", peer_id=b"-PY0001-abcdefghijkl", header=HEADER):
    return header + reserved + infohash + peer_id


def ext_handshake(msize, ut_id=3, extra=None, m_extra=None):
    m = {"ut_metadata": ut_id}
    if m_extra:
        m.update(m_extra)
    d = {"m": m}
    if msize is not None:
        d["metadata_size"] = msize
    if extra:
        d.update(extra)
    return frame(bytes([20, 0]) + ben(d))


def data_msg(i, total, chunk, hdr_extra=None, msg_type=1, with_total=True):
    h = {"msg_type": msg_type, "piece": i}
    if with_total:
        h["total_size"] = total
    if hdr_extra:
        h.update(hdr_extra)
    return frame(bytes([20, 1]) + ben(h) + chunk)


def chunks_of(d):
    return [d[i:i + PIECE] for i in range(0, len(d), PIECE)]


# ---------------------------------------------------------------- typed-normal info dictionaries (Info schema of imdl)

def make_info(rng, size=None, multi=None, opt=None, update_url=None):
    """A canonical dictionary made only of the keys imdl models, values in the form imdl writes them."""
    if multi is None:
        multi = rng.random() < 0.4
    opt = opt if opt is not None else {k for k in ("private", "source", "update-url", "md5sum") if rng.random() < 0.3}
    d = {"name": "n" + "".join(rng.choice("abcXYZ09 _-.é") for _ in range(rng.randrange(0, 12))),
         "piece length": rng.choice([16384, 32768, 1 << 20, 1, 7]),
         "pieces": bytes(rng.getrandbits(8) for _ in range(20 * rng.randrange(0, 4)))}
    md5 = "".join(rng.choice("0123456789abcdef") for _ in range(32))
    if multi:
        files = []
        for _ in range(rng.randrange(1, 4)):
            f = {"length": rng.randrange(0, 1 << 40), "path": ["d%d" % rng.randrange(9), "f%d.bin" % rng.randrange(99)][rng.randrange(2):]}
            if "md5sum" in opt:
                f["md5sum"] = md5
            files.append(f)
        d["files"] = files
    else:
        d["length"] = rng.randrange(0, 1 << 40)
        if "md5sum" in opt:
            d["md5sum"] = md5
    if "private" in opt:
        d["private"] = rng.choice([0, 1])
    if "source" in opt:
        d["source"] = rng.choice(["SRC", "x", "tracker.example"])
    if update_url is not None:
        d["update-url"] = update_url
    elif "update-url" in opt:
        d["update-url"] = rng.choice(["https://example.com/update", "http://example.com/", "udp://tracker.example:6969/announce"])
    b = ben(d)
    if size is not None and size > len(b):
        # pad the name (ASCII) until the encoding has exactly `size` bytes; when the length prefix of the name would have to
        # cross a power of ten exactly there, absorb one byte in `source`
        base = d["name"]
        for extra_source in range(0, 4):
            if extra_source:
                d["source"] = d.get("source", "") + "s"
            d["name"] = base
            need = size - len(ben(d))
            for k in range(max(0, need - 9), need + 1):
                d["name"] = base + "p" * k
                if len(ben(d)) == size:
                    break
            if len(ben(d)) == size:
                break
        b = ben(d)
        assert len(b) == size, (len(b), size)
    return b


def strip_unknown(b):
    """oracle-side guess of the typed round trip for `typed-normal dictionary + unknown top-level keys`"""
    known = {b"name", b"piece length", b"pieces", b"length", b"files", b"private", b"source", b"update-url", b"md5sum"}
    try:
        v, end = lib.bdecode_strict(b)
        if end != len(b) or not (isinstance(v, tuple) and v[0] == "d"):
            return None
        return lib.bencode(("d", [(k, x) for k, x in v[1] if k in known]))
    except Exception:
        return None


# ---------------------------------------------------------------- scripted peers

class Peer:
    """One loopback TCP listener that plays one script to the first client that connects.

    script: list of ("send", bytes, cuts, slow) | ("wait", piece, ut_id) ; after the script the peer half-closes (FIN) so the client's
    next read sees end-of-stream instead of its 3 s timeout, keeps draining what the client sends, then closes.
    `hold` = seconds to keep the connection open without FIN (to exercise the client's read timeout)."""

    def __init__(self, script, hold=0.0):
        self.script, self.hold = script, hold
        self.ls = socket.socket(socket.AF_INET, socket.SOCK_STREAM)
        self.ls.setsockopt(socket.SOL_SOCKET, socket.SO_REUSEADDR, 1)
        self.ls.bind(("127.0.0.1", 0))
        self.ls.listen(4)
        self.port = self.ls.getsockname()[1]
        self.received = b""
        self.connected = False
        self.error = None
        self.th = threading.Thread(target=self._run, daemon=True)
        self.th.start()

    def _run(self):
        try:
            self.ls.settimeout(300)
            c, _ = self.ls.accept()
        except Exception as e:
            self.error = "accept: %r" % e
            return
        finally:
            self.ls.close()
        self.connected = True
        try:
            c.setsockopt(socket.IPPROTO_TCP, socket.TCP_NODELAY, 1)
            c.settimeout(4.0)
            for act in self.script:
                if act[0] == "send":
                    _, data, cuts, slow = act
                    pos = 0
                    n = 0
                    for cut in list(cuts) + [len(data)]:
                        if cut <= pos:
                            continue
                        c.sendall(data[pos:cut]); pos = cut; n += 1
                        if slow and n <= slow:
                            time.sleep(0.0004)
                elif act[0] == "wait":
                    # read until one more complete client message (after its 68-byte handshake) is in
                    # like a real BEP 9 peer: serve piece i only once the client has asked for it under the id this peer assigned
                    want = bytes([20, act[2]]) + ben({"msg_type": 0, "piece": act[1]})
                    while want not in client_frames(self.received):
                        b = c.recv(65536)
                        if not b:
                            break
                        self.received += b
            if self.hold:
                time.sleep(self.hold)
            try:
                c.shutdown(socket.SHUT_WR)
            except OSError:
                pass
            c.settimeout(6.0)
            while True:
                b = c.recv(65536)
                if not b:
                    break
                self.received += b
        except Exception as e:  # reset by the client after it gave up: expected for adversarial scripts
            self.error = "io: %r" % e
        finally:
            try:
                c.close()
            except Exception:
                pass

    def join(self):
        self.th.join(15)


def client_frames(b):
    """frames the client sent after its 68-byte handshake (complete ones only)"""
    out, i = [], 68
    while i + 4 <= len(b):
        n = struct.unpack(">I", b[i:i + 4])[0]
        if i + 4 + n > len(b):
            break
        out.append(b[i + 4:i + 4 + n]); i += 4 + n
    return out


def cuts_for(rng, n, kind):
    if kind == "whole":
        return []
    if kind in ("1", "2", "5"):
        k = int(kind)
        head = list(range(k, min(n, 400), k))
        rest, p = [], 400
        while p < n:
            p += rng.randrange(1, 9000); rest.append(p)
        return head + [x for x in rest if x < n]
    cuts, p = [], 0
    while p < n:
        p += rng.choice([1, 2, 3, 4, 5, 67, 68, 69, rng.randrange(1, 300), rng.randrange(1, 20000)])
        if p < n:
            cuts.append(p)
    return cuts


# ---------------------------------------------------------------- case generators

NOISE = [("keepalive", KEEPALIVE), ("choke", frame(b"\0")), ("unchoke", frame(b"\1")), ("have", frame(b"\4\0\0\0\1")),
         ("bitfield", frame(b"\5\xff\xf0")), ("have-all", frame(b"\x0e")), ("bad-flavour", frame(b"\xff\1\2\3")),
         ("unknown-ext-id", frame(bytes([20, 9]) + b"d1:xi1ee")), ("unknown-ext-id-garbage", frame(bytes([20, 200, 1, 2, 3]))),
         ("port", frame(b"\x09\x1a\xe1")), ("unknown-ext-id-empty", frame(bytes([20, 9]))), ("one-byte-payload", frame(b"\x0d\x07"))]
# ut_metadata request / reject from the peer are ignored only once the extension handshake is in
NOISE_AFTER_HS = [("ut-request", frame(bytes([20, 1]) + ben({"msg_type": 0, "piece": 0}))),
                  ("ut-reject", frame(bytes([20, 1]) + ben({"msg_type": 2, "piece": 0}))),
                  ("ut-msgtype-9", frame(bytes([20, 1]) + ben({"msg_type": 9, "piece": 5})))]


def client_name(rng):
    """a BEP 10 client name `v`: any valid UTF-8 text, of any length; multi-byte characters lie across every small byte
    offset and across the powers of two (added after seeded change C11-14: a name cut at byte 64 inside a character)"""
    k = rng.choice([0, 1, 2, 7, 15, 16, 31, 32, 33, 63, 64, 65, 66, 127, 128, 129, 255, 256, 257, 511, 512, 1023, 1024, rng.randrange(2, 3000)])
    ch = rng.choice(["é", "µ", "→", "漢", "😀", "\u0301", "\U0010ffff"])
    back = rng.randrange(0, len(ch.encode()))            # the character starts `back` bytes before offset k
    return "x" * max(0, k - back) + ch + rng.choice(["", "y", "y" * rng.randrange(1, 90), ch * rng.randrange(1, 40)])


def rich_handshake_extra(ctx, rng):
    """optional fields of the extension handshake of an honest peer (BEP 10 and common extensions), at the edges of what
    the fields may hold; keys imdl does not know must be ignored whatever their type"""
    e = {}
    if rng.random() < 0.7:
        e["v"] = client_name(rng); ctx.count("hs_v_len_%s" % ("le64" if len(e["v"].encode()) <= 64 else "gt64"))
    if rng.random() < 0.4:
        e["p"] = rng.choice([0, 1, 80, 6881, 32767, 32768, 65535])
    if rng.random() < 0.4:
        e["reqq"] = rng.choice([0, 1, 250, 2 ** 31 - 1, 2 ** 31, 2 ** 32 - 1, 2 ** 32, 2 ** 63 - 1])
    if rng.random() < 0.3:
        e["yourip"] = bytes(rng.getrandbits(8) for _ in range(rng.choice([4, 16])))
    if rng.random() < 0.3:
        e["ipv4"] = bytes(rng.getrandbits(8) for _ in range(4))
    if rng.random() < 0.3:
        e["ipv6"] = bytes(rng.getrandbits(8) for _ in range(16))
    if rng.random() < 0.3:
        e[rng.choice(["complete_ago", "upload_only", "e", "ut_comment", "zz_unknown", "A"])] = rng.choice(
            [0, -1, 2 ** 63 - 1, -2 ** 63, b"", b"\xff\xfe", [1, b"x", []], {"a": {"b": [0]}}, "text"])
    ctx.count("hs_rich")
    return e


def honest_case(ctx, rng, size=None, noise_p=0.3, cut="random", reactive=False, ut_id=None, info=None, label="honest"):
    info = info if info is not None else make_info(rng, size=size)
    target = hashlib.sha1(info).digest()
    ut_id = rng.randrange(1, 256) if ut_id is None else ut_id
    extra = {}
    if rng.random() < 0.5:
        extra.update(rng.choice([{"v": "µTorrent 3.5.5"}, {"v": "py 1", "p": 6881, "reqq": 250}, {"yourip": b"\x7f\0\0\1"},
                                 {"complete_ago": -1, "upload_only": 0, "e": 0}, {"ipv4": b"\1\2\3\4", "ipv6": b"\0" * 16}]))
    if rng.random() < 0.45:
        extra.update(rich_handshake_extra(ctx, rng))
    m_extra = rng.choice([None, {"ut_pex": 1}, {"lt_donthave": 7, "ut_holepunch": 4, "ut_pex": ut_id % 255 + 1}])
    reserved = bytes(rng.getrandbits(8) for _ in range(5)) + bytes([0x10 | (rng.getrandbits(8) if rng.random() < 0.5 else 0)]) + \
        bytes(rng.getrandbits(8) for _ in range(2))
    parts = [("bt", bt_handshake(target, reserved=reserved, peer_id=bytes(rng.getrandbits(8) for _ in range(20))))]

    def noise(after_hs):
        pool = NOISE + (NOISE_AFTER_HS if after_hs else [])
        while rng.random() < noise_p:
            n = rng.choice(pool); parts.append(("noise:" + n[0], n[1])); ctx.count("noise_" + n[0])
    noise(False)
    parts.append(("ext", ext_handshake(len(info), ut_id, extra, m_extra)))
    for i, ch in enumerate(chunks_of(info)):
        noise(True)
        parts.append(("data%d" % i, data_msg(i, len(info), ch)))
    if rng.random() < 0.3:
        noise(True)
    if rng.random() < 0.15:
        parts.append(("trailing-garbage", bytes(rng.getrandbits(8) for _ in range(rng.randrange(1, 40)))))
    return dict(kind=label, honest=True, info=info, target=target, ut_id=ut_id, parts=parts, cut=cut, reactive=reactive)


FAULTS = ["wrong-piece-index", "oversize-piece", "undersize-piece", "wrong-total", "no-total", "lying-size+1", "lying-size-1",
          "lying-size-0", "lying-size-neg", "lying-size-huge", "malformed-header", "unsorted-header", "extra-header-key",
          "nonutf8-header-key", "bt-wrong-header", "bt-wrong-infohash", "bt-no-ext-bit", "bt-short", "early-close",
          "truncated-frame", "corrupt-data", "duplicate-ext-handshake", "ext-no-size", "ext-no-ut", "ext-id-256", "ext-malformed",
          "ext-unsorted", "ext-nonutf8-key", "ext-not-dict", "empty-extended", "data-before-handshake", "reject-before-handshake",
          "zero-length-msgtype", "swap-pieces", "repeat-piece", "huge-length-prefix", "unknown-info-key", "noncanonical-info",
          "info-not-dict", "piece-as-list-header", "msgtype-256", "unknown-info-key-in-infohash"]


# faults that let the session get past both handshakes, so that sequences of them reach the assembly logic
DEEP_FAULTS = [f for f in FAULTS if not f.startswith(("bt-", "ext-")) and f not in ("lying-size-neg", "data-before-handshake", "reject-before-handshake", "empty-extended")]


def faulty_case(ctx, rng, faults, size=None):
    """the honest session with the named faults applied (each fault changes one thing)"""
    info = make_info(rng, size=size if size else rng.choice([None, None, 16384, 16385, 20000, 32768, 40000]))
    served = info
    target = hashlib.sha1(info).digest()
    if "unknown-info-key" in faults:      # the magnet names the dictionary without the extra key; the peer serves it with the key
        v, _ = lib.bdecode_strict(info)
        served = lib.bencode(("d", sorted(v[1] + [(b"zzz-unknown", 1)])))
    if "unknown-info-key-in-infohash" in faults:   # the magnet names the full dictionary (as a real magnet would); imdl cannot keep the key
        v, _ = lib.bdecode_strict(info)
        served = lib.bencode(("d", sorted(v[1] + [(b"zzz-unknown", 1)])))
        target = hashlib.sha1(served).digest()
    if "noncanonical-info" in faults:     # same content, keys in the wrong order
        v, _ = lib.bdecode_strict(info)
        served = lib.bencode(("d", list(reversed(v[1]))))
    if "info-not-dict" in faults:
        served = ben([1, 2, 3]) + b"x" * 30
    if "corrupt-data" in faults:
        k = rng.randrange(len(served)); served = served[:k] + bytes([served[k] ^ (1 << rng.randrange(8))]) + served[k + 1:]
    msize = len(served)
    for f, v in (("lying-size+1", msize + 1), ("lying-size-1", msize - 1), ("lying-size-0", 0), ("lying-size-neg", -1),
                 ("lying-size-huge", 1 << 40)):
        if f in faults:
            msize = v
    ut_id = rng.randrange(1, 256)
    bt = bt_handshake(target)
    if "bt-wrong-header" in faults:
        bt = bt_handshake(target, header=b"\x13BitTorrent Protocol")
    if "bt-wrong-infohash" in faults:
        bt = bt_handshake(hashlib.sha1(b"other").digest())
    if "bt-no-ext-bit" in faults:
        bt = bt_handshake(target, reserved=b"\xff\xff\xff\xff\xff\xef\xff\xff")
    if "bt-short" in faults:
        bt = bt[:rng.randrange(0, 68)]
    parts = [("bt", bt)]
    if "bt-short" in faults:
        return dict(kind="faulty", honest=False, info=info, target=target, ut_id=ut_id, parts=parts, cut="random", reactive=False, faults=faults)
    if "data-before-handshake" in faults:
        parts.append(("data-early", data_msg(0, len(served), served[:PIECE])))
    if "reject-before-handshake" in faults:
        parts.append(("reject-early", NOISE_AFTER_HS[1][1]))
    hs = {"m": {"ut_metadata": ut_id}, "metadata_size": msize}
    ext = frame(bytes([20, 0]) + ben(hs))
    if "ext-no-size" in faults:
        ext = frame(bytes([20, 0]) + ben({"m": {"ut_metadata": ut_id}}))
    if "ext-no-ut" in faults:
        ext = frame(bytes([20, 0]) + ben({"m": {"ut_pex": 2}, "metadata_size": msize}))
    if "ext-id-256" in faults:
        ext = frame(bytes([20, 0]) + ben({"m": {"ut_metadata": 256}, "metadata_size": msize}))
    if "ext-malformed" in faults:
        ext = frame(bytes([20, 0]) + rng.choice([b"d1:md11:ut_metadatai03eee", b"d1:m", b"i1e", b"", b"d1:mi-0ee", b"\xff\xfe"]))
    if "ext-unsorted" in faults:
        ext = frame(bytes([20, 0]) + b"d13:metadata_sizei%de1:md11:ut_metadatai%deee" % (msize, ut_id))
    if "ext-nonutf8-key" in faults:
        ext = frame(bytes([20, 0]) + b"d1:md11:ut_metadatai%dee13:metadata_sizei%de2:\xff\xfei1ee" % (ut_id, msize))
    if "ext-not-dict" in faults:
        ext = frame(bytes([20, 0]) + ben([{"m": {"ut_metadata": ut_id}, "metadata_size": msize}]))
    parts.append(("ext", ext))
    if "empty-extended" in faults:
        parts.append(("empty-extended", frame(b"\x14")))
    if "zero-length-msgtype" in faults:
        parts.append(("keepalive", KEEPALIVE)); parts.append(("keepalive", KEEPALIVE))
    chs = chunks_of(served) or [b""]
    order = list(range(len(chs)))
    if "swap-pieces" in faults and len(chs) > 1:
        order[0], order[1] = order[1], order[0]
    if "repeat-piece" in faults:
        order = [order[0]] + order
    fault_at = rng.randrange(len(order))
    for pos, i in enumerate(order):
        ch, idx, kw, hit = chs[i], i, {}, pos == fault_at
        if hit and "duplicate-ext-handshake" in faults:
            parts.append(("ext-again", ext_handshake(rng.choice([msize, msize + 5, 3]), rng.randrange(1, 256))))
        if hit and "wrong-piece-index" in faults:
            idx = rng.choice([i + 1, i - 1 if i else 7, 1 << 33, len(chs)])
        if hit and "oversize-piece" in faults:
            ch = ch + b"\0" * (PIECE + 1 - len(ch))
        if hit and "undersize-piece" in faults and len(ch) > 1:
            ch = ch[:rng.randrange(0, len(ch))]
        if hit and "wrong-total" in faults:
            kw["hdr_total"] = rng.choice([0, len(served) + 1, 1 << 62])
        if hit and "no-total" in faults:
            kw["with_total"] = False
        if hit and "extra-header-key" in faults:
            kw["hdr_extra"] = rng.choice([{"zzz": 1}, {"a": b"xy"}, {"nested": {"k": [1, 2, {"x": b""}]}}])
        if hit and "nonutf8-header-key" in faults:
            kw["hdr_extra"] = {b"\xc3\x28": 1}
        if hit and "msgtype-256" in faults:
            kw["msg_type"] = 256
        total = kw.pop("hdr_total", len(served))
        msg = data_msg(idx, total, ch, **kw)
        if hit and "malformed-header" in faults:
            msg = frame(bytes([20, 1]) + rng.choice([b"d8:msg_typei1e5:piecei%de" % i, b"d8:msg_typei01e5:piecei%dee" % i, b"",
                                                      b"d5:piecei%dee" % i, b"d8:msg_type1:15:piecei%dee" % i, b"le", b"i5e"]) + ch)
        if hit and "unsorted-header" in faults:
            msg = frame(bytes([20, 1]) + b"d5:piecei%de8:msg_typei1ee" % i + ch)
        if hit and "piece-as-list-header" in faults:
            msg = frame(bytes([20, 1]) + b"li1ei%dee" % i)
        if hit and "huge-length-prefix" in faults:
            msg = struct.pack(">I", 0xFFFFFFF0) + msg[4:]
        if hit and "truncated-frame" in faults:
            msg = msg[:rng.randrange(4, len(msg))]
            parts.append(("data%d-truncated" % i, msg)); break
        parts.append(("data%d" % i, msg))
        if hit and "early-close" in faults:
            break
    return dict(kind="faulty", honest=False, info=info, target=target, ut_id=ut_id, parts=parts, cut=rng.choice(["whole", "random"]),
                reactive=False, faults=list(faults), served=served)


def stream_of(case):
    return b"".join(p for _, p in case["parts"])


def script_of(case, rng):
    s = stream_of(case)
    if case["reactive"]:
        # BT handshake and extension handshake at once, then each piece only after the client's request for it
        script = []
        for name, p in case["parts"]:
            if name.startswith("data"):
                script.append(("wait", int(name[4:]), case["ut_id"]))
            script.append(("send", p, cuts_for(rng, len(p), rng.choice(["whole", "random"])), 0))
        return script
    slow = {"1": 120, "2": 80, "5": 40}.get(case["cut"], rng.choice([0, 0, 6]))
    return [("send", s, cuts_for(rng, len(s), case["cut"]), slow)]


def gen_cases(ctx):
    r = ctx.rng
    cases = []
    # persistent regression corpus first: the keep-alive defect (DESIGN section 6), exact multiples, ids
    small = make_info(r, size=None, multi=False, opt=set())
    c = honest_case(ctx, r, info=small, noise_p=0.0, cut="whole", label="honest-keepalive"); c["parts"].insert(1, ("noise:keepalive", KEEPALIVE)); cases.append(c)
    c = honest_case(ctx, r, size=32768, noise_p=0.0, cut="whole", label="honest-keepalive"); c["parts"].insert(3, ("noise:keepalive", KEEPALIVE)); cases.append(c)
    # ordinary BEP 3 messages far larger than a metadata piece (a bitfield of half a million pieces, a 16 KiB block, a frame
    # of exactly 65535 / 65536 / 65537 body bytes) must be read and skipped like small ones (added after seeded change C11-9:
    # the frame length narrowed to 16 bits)
    for nbody, label in ((65535, "65535"), (65536, "65536"), (65537, "65537"), (100000, "100000"), (16393, "16k-block")):
        c = honest_case(ctx, r, size=r.choice([None, 16385]), noise_p=0.0, cut=r.choice(["whole", "random"]), label="honest-big-message")
        big = frame(bytes([5 if label != "16k-block" else 7]) + b"\xff" * (nbody - 1))
        c["parts"].insert(r.choice([1, 2, len(c["parts"]) - 1]), ("noise:big-" + label, big))
        cases.append(c)
    sizes = [None, 16383, 16384, 16385, 32768, 49151, 49152, 49153, 100 * 1024]
    for sz in sizes:
        for cut in ("whole", "random"):
            cases.append(honest_case(ctx, r, size=sz, noise_p=0.0, cut=cut))
            cases.append(honest_case(ctx, r, size=sz, noise_p=0.45, cut=cut, label="honest-noisy"))
    for cut in ("1", "2", "5"):
        cases.append(honest_case(ctx, r, size=r.choice([None, 16385]), noise_p=0.3, cut=cut, label="honest-noisy"))
    for ut_id in (1, 2, 20, 255):
        cases.append(honest_case(ctx, r, size=r.choice([None, 16385, 32768]), reactive=True, ut_id=ut_id, noise_p=0.2, label="honest-reactive"))
    for _ in range(ctx.n(300, 4000)):
        cases.append(honest_case(ctx, r, size=r.choice([None, None, None] + sizes), noise_p=r.choice([0, 0.3, 0.6]),
                                 cut=r.choice(["whole", "random", "random"]), reactive=r.random() < 0.3,
                                 label=r.choice(["honest", "honest-noisy"])))
    # honest peers serving dictionaries of modelled keys that the typed round trip changes (known open class)
    for url in ("http://example.com", "http://EXAMPLE.com/x"):
        c = honest_case(ctx, r, info=make_info(r, opt=set(), update_url=url), noise_p=0.0, cut="whole", label="honest-nonnormal-url")
        c["known"] = KNOWN_KEY
        cases.append(c)
    # ... an md5sum in upper case (re-serialised in lower case) and `private` = 2 (refused): members of the same class
    for mut in ("md5-upper", "private-2"):
        info = make_info(r, multi=False, opt={"md5sum", "private"})
        v, _ = lib.bdecode_strict(info)
        items = dict(v[1])
        if mut == "md5-upper":
            items[b"md5sum"] = items[b"md5sum"].upper() if items[b"md5sum"].upper() != items[b"md5sum"] else b"ABCDEF0123456789ABCDEF0123456789"
        else:
            items[b"private"] = 2
        c = honest_case(ctx, r, info=lib.bencode(("d", sorted(items.items()))), noise_p=0.0, cut="whole", label="honest-known-class-" + mut)
        c["known"] = KNOWN_KEY
        cases.append(c)
    # adversarial: every single fault, then sequences of 2..4 (thorough: ..6) faults
    for f in FAULTS:
        for _ in range(ctx.n(6, 40)):
            cases.append(faulty_case(ctx, r, [f]))
    for _ in range(ctx.n(900, 20000)):
        k = r.randrange(2, ctx.n(5, 7))
        cases.append(faulty_case(ctx, r, r.sample(DEEP_FAULTS if r.random() < 0.6 else FAULTS, k)))
    if ctx.thorough:
        # peers that stay connected and silent: the client must give up through its own 3 s read timeout (streams end on a frame
        # boundary, where waiting and end-of-stream have the same outcome)
        for f in (["early-close"], ["lying-size+1"], ["lying-size-huge"], ["ext-no-size"], ["wrong-piece-index"], ["early-close", "wrong-total"]):
            for _ in range(3):
                c = faulty_case(ctx, r, f); c["hold"] = 3.6; c["kind"] = "faulty-silent"; cases.append(c)
        for _ in range(4):
            c = honest_case(ctx, r, size=r.choice([None, 16385]), noise_p=0.3); c["hold"] = 3.6; cases.append(c)
    return cases


# ---------------------------------------------------------------- judging one session

def parse_impl(reply):
    if reply.startswith("OK "):
        return ("OK", lib.unhex(reply[3:]))
    if reply.startswith("ERR"):
        return ("ERR", None)
    return (reply.split(" ")[0], None)        # PANIC / DIED / BADCMD


def parse_model(reply):
    f = reply.split(" ")
    if f[0] != "OK":
        return ("MODELFAIL", None, [])
    code = {"0": "GOT", "1": "GAVEUP", "2": "CRASHED", "3": "PENDING"}[f[1]]
    reqs = [] if f[3] == "~" else [tuple(int(x) for x in q.split(":")) for q in f[3].split(",")]
    return (code, lib.unhex(f[2]), reqs)


def describe(case, full=False):
    return {"kind": case["kind"], "faults": case.get("faults"), "infohash": case["target"].hex(), "info_len": len(case["info"]),
            "ut_metadata_id": case["ut_id"], "segmentation": case["cut"], "reactive": case["reactive"],
            "peer_sends": [(n, p.hex() if (full or len(p) <= 200) else p[:100].hex() + "...(%d bytes)" % len(p)) for n, p in case["parts"]],
            "info_hex": case["info"].hex() if (full or len(case["info"]) <= 400) else None,
            "reproduce": "./check C11 --replay <this file>  (replays the scripted peer against the peer_fetch hook, the model and `imdl torrent from-link`)"}


def judge(ctx, case, impl, model, peer, where, inorm=None):
    """oracle first (independent of the model), then model vs implementation"""
    kind, got = impl
    d, target = case["info"], case["target"]
    info = dict(describe(case, full=len(ctx.violations) < 8), impl=kind, impl_bytes=(got.hex() if got and len(got) < 3000 else (len(got) if got else None)),
                model=model[0] if model else None, where=where)
    bad = False
    if kind in ("PANIC", "DIED") or kind not in ("OK", "ERR"):
        ctx.violation("oracle-failure", "%s: the client crashed (%s) on a %s session %s" % (where, kind, case["kind"], case.get("faults") or ""), info)
        return True
    if kind == "OK" and hashlib.sha1(got).digest() != target:
        ctx.violation("oracle-failure", "%s: accepted an info dictionary whose SHA-1 is not the infohash asked for (%s %s)"
                      % (where, case["kind"], case.get("faults") or ""), info)
        bad = True
    if case["honest"] and not (kind == "OK" and got == d):
        what = ("%s: an honest BEP 3/9/10 peer (%s, %d bytes of metadata, %d pieces, ut_metadata id %d, segmentation %s%s) was not understood: %s"
                % (where, case["kind"], len(d), len(chunks_of(d)), case["ut_id"], case["cut"], ", reactive" if case["reactive"] else "",
                   "fetch failed" if kind == "ERR" else "a different dictionary was returned"))
        ctx.violation("oracle-failure", what, info, key=case.get("known"))
        bad = True
    if bad or model is None:
        return bad
    code, b, reqs = model
    expect = None
    if code == "GAVEUP":
        expect = ("ERR", None)
    elif code == "GOT":
        if hashlib.sha1(b).digest() == target and b == d and not inorm:
            expect = ("OK", b) if not case.get("known") else None
        else:
            # the assembled buffer is not the dictionary the magnet names: what verify_info_dict makes of it is serde's typed
            # round trip, which the model now has concretely (X16, InfoRoundTrip.info_norm): e.g. `hTtp://example.com/` or an
            # upper-case md5sum is normalised back and legitimately accepted. In every case the oracle above has already
            # required that whatever was returned hashes to the infohash.
            m = (inorm or {}).get(b)
            if m is None:
                s = strip_unknown(b)
                expect = ("OK", s) if (s is not None and hashlib.sha1(s).digest() == target) else None
            elif m["code"] == 0:
                expect = ("OK", m["bytes"]) if hashlib.sha1(m["bytes"]).digest() == target else ("ERR", None)
            elif m["code"] == 1:
                expect = ("ERR", None)
            else:
                expect = None                      # update-url outside the modelled fragment of the url crate
    else:
        ctx.violation("model-impl-disagreement", "the model reports %s, which Properties/C11.v proves impossible" % code, info)
        return True
    if expect is not None and (kind, got) != expect:
        ctx.cov["disagreements_checked"] += 1
        ctx.violation("model-impl-disagreement",
                      "%s: Peer.assemble says %s but the client %s (%s %s); authenticity and the honest-peer clause hold on this input"
                      % (where, "assembled %d bytes -> expect %s" % (len(b), expect[0]) if code == "GOT" else "gives up",
                         "returned a dictionary" if kind == "OK" else "failed", case["kind"], case.get("faults") or ""), info)
        return True
    # requests the client sent, when the script made the peer read them (reactive) and the fetch succeeded
    if peer is not None and case["reactive"] and kind == "OK":
        frames = client_frames(peer.received)
        sent = []
        for fr in frames[1:]:
            try:
                v, end = lib.bdecode_strict(fr[2:])
                sent.append((fr[1], lib.dget(v, "piece")) if fr[0] == 20 and lib.dget(v, "msg_type") == 0 and end == len(fr) - 2 else ("?", fr.hex()))
            except Exception:
                sent.append(("?", fr.hex()))
        if sent[:len(reqs)] != reqs or len(sent) > len(reqs):
            ctx.violation("model-impl-disagreement", "%s: the client's ut_metadata requests %r differ from the model's %r" % (where, sent, reqs),
                          dict(info, client_sent=[f.hex() for f in frames]))
            return True
    return False


# ---------------------------------------------------------------- E2E: the real binary against tracker + peer simulators

class Tracker:
    def __init__(self, peers, answer=True):
        self.s = socket.socket(socket.AF_INET, socket.SOCK_DGRAM)
        self.s.bind(("127.0.0.1", 0))
        self.port = self.s.getsockname()[1]
        self.peers, self.answer, self.stop = peers, answer, False
        threading.Thread(target=self._run, daemon=True).start()

    def _run(self):
        self.s.settimeout(0.5)
        while not self.stop:
            try:
                d, a = self.s.recvfrom(4096)
            except socket.timeout:
                continue
            except OSError:
                return
            if not self.answer:
                continue
            if len(d) == 16 and d[8:12] == b"\0\0\0\0":
                self.s.sendto(struct.pack(">II", 0, struct.unpack(">I", d[12:16])[0]) + b"\x11\x22\x33\x44\x55\x66\x77\x88", a)
            elif len(d) >= 98:
                body = b"".join(socket.inet_aton("127.0.0.1") + struct.pack(">H", p) for p in self.peers)
                self.s.sendto(struct.pack(">IIIII", 1, struct.unpack(">I", d[12:16])[0], 1800, 0, len(self.peers)) + body, a)

    def close(self):
        self.stop = True
        try:
            self.s.close()
        except Exception:
            pass


def e2e_one(ctx, cases, tmp, rng_seed, with_output=True, stale_file=False, new_options=False, name_kind=0):
    """one `imdl torrent from-link` run; `cases` = the scripted peers the tracker hands out"""
    import random
    rng = random.Random(rng_seed)
    peers = [Peer(script_of(c, rng)) for c in cases]
    tr = Tracker([p.port for p in peers])
    d = tempfile.mkdtemp(dir=tmp)
    target = cases[0]["target"]
    link = "magnet:?xt=urn:btih:%s&tr=udp://127.0.0.1:%d" % (target.hex(), tr.port)
    # the output name varies: short, a dotted name, names of 250 ... 255 bytes (NAME_MAX), inside a subdirectory (seeded change
    # C11-17: the torrent staged as `<TARGET>.part`, a name the file system refuses for targets within 4 bytes of NAME_MAX)
    outname = "out.torrent"
    if with_output:
        k = name_kind % 7
        outname = ["out.torrent", "out.torrent", "o" * 250, "o" * 251 + ".t", "n" * 255, "é" * 127 + "x", "a.b.c"][k]
    argv = ["torrent", "from-link", link] + (["--output", outname] if with_output else [])
    # options of from-link the check does not know (read from --help) are given in every second run: whatever they add, the fetch
    # still ends with exit status 0 or 1 and the written dictionary is the served one (seeded change C11-16: a new --show that
    # panicked on a size sum after the file had been written)
    if new_options:
        for flag, val in lib.unknown_options(ctx.bins["imdl"], ["torrent", "from-link"]):
            argv += [flag] + ([val] if val is not None else [])
    stale = None
    if with_output and stale_file:
        # something longer than any torrent of this run is already at the output path (an earlier fetch): the new torrent
        # must replace it completely (added after seeded change C11-8: the output opened without truncation)
        stale = b"d4:infod6:lengthi1e4:name5:stale12:piece lengthi16384e6:pieces20:" + b"s" * 20 + b"ee" + b"#" * 200000
        with open(os.path.join(d, outname), "wb") as f:
            f.write(stale)
    rc, out, err = ctx.imdl(argv, cwd=d, timeout=90)
    tr.close()
    files = {}
    for fn in sorted(os.listdir(d)):
        files[fn] = open(os.path.join(d, fn), "rb").read()
    shutil.rmtree(d, ignore_errors=True)
    if stale is not None and rc != 0 and files.get(outname) == stale:
        del files[outname]          # a failed fetch left the earlier file as it was: nothing was written
    return dict(rc=rc, stdout=out, stderr=err, files=files, argv=["imdl"] + argv, expect_name=outname if with_output else target.hex() + ".torrent",
                stale_before=stale is not None)


def judge_e2e(ctx, cases, res):
    target = cases[0]["target"]
    info = {"argv": res["argv"], "rc": res["rc"], "stderr": res["stderr"].decode("utf-8", "replace")[-600:], "files": sorted(res["files"]),
            "peers": [describe(c, full=len(ctx.violations) < 8) for c in cases]}
    label = "+".join(c["kind"] + (":" + ",".join(c["faults"]) if c.get("faults") else "") for c in cases)
    if res["rc"] not in (0, 1):
        ctx.violation("oracle-failure", "from-link exited with status %d (crash) against peers [%s]" % (res["rc"], label), info)
        return
    written = res["files"]
    if res["rc"] == 1 and written:
        ctx.violation("oracle-failure", "from-link exited 1 but left files %s behind (peers [%s])" % (sorted(written), label), info); return
    if res["rc"] == 0:
        if sorted(written) != [res["expect_name"]]:
            ctx.violation("oracle-failure", "from-link exited 0 but the files written are %s, expected [%s]" % (sorted(written), res["expect_name"]), info); return
        try:
            span = lib.info_span(written[res["expect_name"]])
            _, end = lib.bdecode_strict(written[res["expect_name"]])
        except Exception as e:
            ctx.violation("oracle-failure", "from-link wrote a file the strict reader rejects: %r" % e, info); return
        if end != len(written[res["expect_name"]]):
            ctx.violation("oracle-failure", "from-link exited 0 but the file is a torrent followed by %d further bytes%s (peers [%s])"
                          % (len(written[res["expect_name"]]) - end, " of the file that was there before" if res.get("stale_before") else "", label), info); return
        if hashlib.sha1(span).digest() != target:
            ctx.violation("oracle-failure", "from-link wrote a torrent whose info dictionary does not hash to the magnet's infohash (peers [%s])" % label, info); return
    honest = [c for c in cases if c["honest"]]
    if honest:
        known = honest[0].get("known") if all(c.get("known") for c in honest) else None
        ok = res["rc"] == 0 and lib.info_span(written[res["expect_name"]]) == honest[0]["info"]
        if not ok:
            ctx.violation("oracle-failure", "from-link did not produce the dictionary served by an honest peer (%s): exit %d" % (label, res["rc"]), info, key=known)
    elif res["rc"] == 0 and not any(strip_unknown(c.get("served", b"")) == c["info"] or c.get("served") == c["info"] for c in cases):
        ctx.violation("model-impl-disagreement", "from-link succeeded although no scripted peer could supply the dictionary (%s)" % label, info)



# ---------------------------------------------------------------- X16: the concrete typed round trip (Model/InfoRoundTrip.v)

def classify_known(ctx, cases, inorm, urls):
    """an honest dictionary belongs to the known class iff the extracted predicate says so: made of modelled keys only and not
    typed_normal (Properties/C11.v c11_known_class). The predicate itself is checked here against the generator (dictionaries
    built in normal form must be typed_normal) and against this module's own reading of the round trip."""
    for c in cases:
        if not c["honest"]:
            continue
        d = c["info"]
        m = inorm.get(d)
        if m is None:
            ctx.violation("infrastructure", "the extracted info_norm failed on an honest dictionary", describe(c)); continue
        labelled = c.get("known")
        c["known"] = KNOWN_KEY if m["known_class"] else None
        py = irt.py_norm(d, urls)
        py_mk = irt.py_modelled_keys_only(d)
        info = dict(describe(c), model=dict(m, bytes=m["bytes"].hex()[:400]), oracle=(py[0], py[1].hex()[:400] if py[0] == "OK" else py[1]))
        if m["modelled_keys"] != py_mk:
            ctx.violation("model-impl-disagreement", "modelled_keys_only says %s, the oracle's reading of the dictionary says %s" % (m["modelled_keys"], py_mk), info)
        if py[0] == "OK" and m["code"] != 2 and m["typed_normal"] != (py[1] == d and py_mk):
            ctx.violation("model-impl-disagreement", "typed_normal says %s for a dictionary that the oracle's own typed round trip %s"
                          % (m["typed_normal"], "returns unchanged" if py[1] == d else "changes"), info)
        if labelled and not c["known"]:
            ctx.violation("model-impl-disagreement", "a dictionary generated as a member of the known class (%s) is not in c11_known_class" % c["kind"], info)
        if not labelled and not m["typed_normal"]:
            ctx.violation("model-impl-disagreement", "typed_normal refuses a dictionary that the generator built in normal form (%s)" % c["kind"], info)
        ctx.count("honest_typed_normal" if m["typed_normal"] else "honest_known_class")


def corpus_case(d, cand):
    target = hashlib.sha1(cand).digest()
    parts = [("bt", bt_handshake(target)), ("ext", ext_handshake(len(d), 3))] + \
        [("data%d" % i, data_msg(i, len(d), ch)) for i, ch in enumerate(chunks_of(d))]
    return dict(kind="info-corpus", honest=False, info=d, target=target, ut_id=3, parts=parts, cut="whole", reactive=False)


def run_info_corpus(ctx, corpus, inorm, urls):
    """every dictionary of the structured corpus: model verdict + bytes, the oracle's own round trip, and the real client
    (peer_fetch returns its re-serialisation exactly when that hashes to the infohash asked for)"""
    t0 = time.time()
    work = []
    for label, d in corpus:
        if not d:
            continue
        m = inorm.get(d)
        if m is None:
            ctx.violation("infrastructure", "the extracted info_norm failed on a corpus dictionary", {"label": label, "dict_hex": d.hex()[:2000]}); continue
        py = irt.py_norm(d, urls)
        cands = []
        if m["code"] == 0:
            cands.append(m["bytes"])
        if py[0] == "OK" and py[1] not in cands:
            cands.append(py[1])
        if not cands:
            cands.append(d)
        work.append(dict(label=label, d=d, m=m, py=py, cands=cands, got={}))
    jobs = [(w, c) for w in work for c in w["cands"]]
    for b in range(0, len(jobs), 400):
        chunk = jobs[b:b + 400]
        _, impl = run_sessions(ctx, [corpus_case(w["d"], c) for w, c in chunk], ctx.seed + 31 * b + 5)
        for (w, c), rep in zip(chunk, impl):
            w["got"][c] = parse_impl(rep)
    lib.log("C11: %d typed-round-trip sessions over %d corpus dictionaries in %.1fs" % (len(jobs), len(work), time.time() - t0))
    for w in work:
        d, m, py = w["d"], w["m"], w["py"]
        ctx.cov["evaluations"] += 1
        ctx.cov["traces_validated_against_impl"] += 1
        # what the client's re-serialisation is, as far as the sessions tell: the candidate it answered with
        accepted = [c for c, (kind, got) in w["got"].items() if kind == "OK"]
        crashed = [kind for kind, _ in w["got"].values() if kind not in ("OK", "ERR")]
        impl_view = "OK" if accepted else "ERR"
        ctx.count("roundtrip_model_%d" % m["code"]); ctx.count("roundtrip_impl_" + impl_view); ctx.count("roundtrip_oracle_" + py[0])
        ctx.distinct(("roundtrip", w["label"], m["code"], impl_view, m["typed_normal"], m["modelled_keys"], py[0]))
        info = {"label": w["label"], "dict_hex": d.hex() if len(d) < 3000 else d[:1500].hex() + "...", "model": dict(m, bytes=m["bytes"].hex()[:3000]),
                "oracle": (py[0], py[1].hex()[:3000] if py[0] == "OK" else py[1]),
                "client": {c.hex()[:3000]: k for c, (k, _) in w["got"].items()},
                "reproduce": "serve dict_hex from a scripted BEP 9 peer and call the peer_fetch hook with infohash sha1(<candidate>): ./check C11 --replay"}
        if crashed:
            ctx.violation("oracle-failure", "the client crashed (%s) on a served info dictionary (%s)" % (crashed[0], w["label"]), info); continue
        for c, (kind, got) in w["got"].items():
            if kind == "OK" and got != c:
                ctx.violation("oracle-failure", "the client returned a dictionary whose SHA-1 is not the infohash asked for (%s)" % w["label"], info)
        # model vs client
        if m["code"] == 0:
            k = w["got"][m["bytes"]][0]
            if k != "OK":
                ctx.cov["disagreements_checked"] += 1
                ctx.violation("model-impl-disagreement", "info_norm re-serialises a %s dictionary to %d bytes, the client does not arrive at them%s"
                              % (w["label"], len(m["bytes"]), " (it arrives at the oracle's bytes)" if accepted else ""), info)
        elif m["code"] == 1 and accepted:
            ctx.cov["disagreements_checked"] += 1
            ctx.violation("model-impl-disagreement", "info_norm refuses a %s dictionary that the client accepts and re-serialises" % w["label"], info)
        # the oracle's own reading vs the client (a defect of the oracle is reported as such, never hidden)
        if py[0] == "OK" and w["got"][py[1]][0] != "OK":
            ctx.violation("infrastructure" if m["code"] != 0 or m["bytes"] != py[1] else "model-impl-disagreement",
                          "the oracle's own typed round trip of a %s dictionary is not what the client arrives at" % w["label"], info)
        elif py[0] == "REJECT" and accepted:
            ctx.violation("infrastructure", "the oracle's own typed round trip refuses a %s dictionary that the client accepts (%s)" % (w["label"], py[1]), info)
        # the predicates
        py_mk = irt.py_modelled_keys_only(d)
        if m["modelled_keys"] != py_mk:
            ctx.violation("model-impl-disagreement", "modelled_keys_only says %s, the oracle says %s (%s)" % (m["modelled_keys"], py_mk, w["label"]), info)
        if m["code"] == 0 and m["typed_normal"] != (m["bytes"] == d):
            ctx.violation("model-impl-disagreement", "typed_normal = %s but info_norm %s the dictionary (theorem c11_typed_normal_iff)"
                          % (m["typed_normal"], "returns" if m["bytes"] == d else "changes"), info)
        if m["code"] == 1 and m["typed_normal"]:
            ctx.violation("model-impl-disagreement", "typed_normal holds of a dictionary info_norm refuses (theorem c11_typed_normal_fixed)", info)
        if m["known_class"] != (m["modelled_keys"] and not m["typed_normal"]):
            ctx.violation("model-impl-disagreement", "c11_known_class is not `modelled keys only and not typed_normal`", info)
        # the property itself, on dictionaries made only of modelled keys (what an honest peer may serve): served = returned.
        # Conclusive only when the sessions tell: asked for sha1(d) and refused, or a different re-serialisation was accepted
        if py_mk:
            ctx.count("roundtrip_modelled_keys")
            refused = (d in w["got"] and w["got"][d][0] != "OK") or any(c != d for c in accepted)
            if refused:
                ctx.count("roundtrip_modelled_keys_not_returned_as_served")
                ctx.violation("oracle-failure", "a canonical info dictionary made only of modelled keys (%s) is not returned as served by the client's typed round trip"
                              % w["label"], info, key=KNOWN_KEY if m["known_class"] else None)
    for w in (work[0], work[len(work) // 2], work[-1]):
        ctx.sample({"label": w["label"], "dict": w["d"][:120].hex(), "model_code": w["m"]["code"], "typed_normal": w["m"]["typed_normal"],
                    "client": sorted(k for k, _ in w["got"].values())})


# ---------------------------------------------------------------- the run

def run_sessions(ctx, cases, seed0):
    import random
    peers = []
    for k, c in enumerate(cases):
        peers.append(Peer(script_of(c, random.Random(seed0 + k)), hold=c.get("hold", 0.0)))
    lines = ["peer %s %s" % (lib.hexs("127.0.0.1:%d" % p.port), c["target"].hex()) for p, c in zip(peers, cases)]
    impl = ctx.harness(lines)
    for p in peers:
        if p.connected:
            p.join()
        else:
            try:
                p.ls.close()
            except Exception:
                pass
    return peers, impl


def run(ctx):
    ctx.need_coq()
    if not ctx.need_rust() or not ctx.need_runner():
        return finish(ctx)
    cases = gen_cases(ctx)
    t0 = time.time()
    model = ctx.model(["peer_assemble %s %s" % (c["target"].hex(), lib.hexs(stream_of(c))) for c in cases])
    lib.log("C11: %d model runs in %.1fs" % (len(cases), time.time() - t0))
    # ---- X16: serde's typed round trip, concretely: every dictionary of this run (served, assembled) and a structured corpus
    t0 = time.time()
    bufs = set()
    for c, mrep in zip(cases, model):
        bufs.add(c["info"])
        if c.get("served"):
            bufs.add(c["served"])
        pmod = parse_model(mrep)
        if pmod[0] == "GOT":
            bufs.add(pmod[1])
    corpus = irt.gen_structured(ctx, irt.url_corpus(ctx, ctx.n(250, 3000)))
    inorm = irt.model_info_norm(ctx, list(bufs) + [b for _, b in corpus])
    urls = irt.crate_urls(ctx, irt.url_texts_of(list(bufs) + [b for _, b in corpus]))
    lib.log("C11: info_norm on %d dictionaries (%d of the sessions, %d structured) in %.1fs" % (len(inorm), len(bufs), len(corpus), time.time() - t0))
    classify_known(ctx, cases, inorm, urls)
    run_info_corpus(ctx, corpus, inorm, urls)
    t0 = time.time()
    peers, impl = [], []
    for b in range(0, len(cases), 400):       # batches bound the number of simulator threads alive at once
        ps, im = run_sessions(ctx, cases[b:b + 400], ctx.seed + b)
        peers += ps; impl += im
    lib.log("C11: %d scripted sessions in %.1fs" % (len(cases), time.time() - t0))
    # a session that looks wrong is replayed once more, alone, against a fresh scripted peer before it is reported: a genuine
    # failure is deterministic (the client is single-threaded per connection) and shows again; a hiccup of the loopback
    # simulator (a starved thread against the client's 3 s read timeout) does not. Both outcomes are recorded.
    class Dry:
        def __init__(self):
            self.violations, self.cov = [], {"disagreements_checked": 0}
        def violation(self, *a, **k):
            self.violations.append(a)
    flagged = [k for k, (c, p, i, m) in enumerate(zip(cases, peers, impl, model))
               if parse_model(m)[0] != "MODELFAIL" and judge(Dry(), c, parse_impl(i), parse_model(m), p, "dry", inorm)]
    if flagged:
        again = flagged[:48]                   # many suspicious sessions are systematic, not a hiccup: replay only the first ones
        ps, im = run_sessions(ctx, [cases[k] for k in again], ctx.seed + 77777)
        ctx.count("sessions_replayed_before_reporting", len(again))
        for k, p2, i2 in zip(again, ps, im):
            if not judge(Dry(), cases[k], parse_impl(i2), parse_model(model[k]), p2, "dry", inorm):
                ctx.count("sessions_not_reproduced")
                ctx.notes.append("session %d (%s %s) looked wrong once (%s) and was fine when replayed" % (k, cases[k]["kind"], cases[k].get("faults") or "", impl[k][:40]))
            peers[k], impl[k] = p2, i2
    for c, p, i, m in zip(cases, peers, impl, model):
        ctx.cov["evaluations"] += 1
        ctx.cov["traces_validated_against_impl"] += 1
        pi, pm = parse_impl(i), parse_model(m)
        ctx.count("session_" + c["kind"])
        ctx.count("segmentation_" + c["cut"] + ("_reactive" if c["reactive"] else ""))
        ctx.count("pieces_%d" % min(len(chunks_of(c["info"])), 7))
        for f in c.get("faults") or []:
            ctx.count("fault_" + f)
        ctx.count("impl_" + pi[0]); ctx.count("model_" + pm[0])
        ctx.distinct((c["kind"], tuple(c.get("faults") or ()), len(chunks_of(c["info"])), len(c["info"]) % PIECE == 0, c["cut"], pi[0], pm[0]))
        if pm[0] == "MODELFAIL":
            ctx.violation("infrastructure", "the extracted model failed on a case: %s" % m, describe(c)); continue
        judge(ctx, c, pi, pm, p, "peer_fetch hook", inorm)
    for c in (cases[0], cases[len(cases) // 3], cases[-1]):
        ctx.sample({k: v for k, v in describe(c).items() if k in ("kind", "faults", "info_len", "segmentation", "ut_metadata_id", "reactive")})

    # ---- end to end on the real binary
    r = ctx.rng
    e2e = []
    small = lambda: make_info(r, size=None)
    e2e.append([honest_case(ctx, r, info=small(), noise_p=0.0, cut="whole", label="honest-keepalive")]); e2e[-1][0]["parts"].insert(1, ("noise:keepalive", KEEPALIVE))
    for sz, cut, react in ((None, "whole", False), (16384, "random", False), (16385, "5", False), (32768, "random", True),
                           (49153, "random", False), (100 * 1024, "whole", True), (None, "1", False)):
        e2e.append([honest_case(ctx, r, size=sz, noise_p=0.4, cut=cut, reactive=react, label="honest-noisy")])
    for f in (["corrupt-data"], ["bt-wrong-infohash"], ["early-close"], ["lying-size+1"], ["malformed-header"], ["oversize-piece"],
              ["wrong-piece-index"], ["truncated-frame"], ["unknown-info-key"], ["ext-no-size"], ["piece-as-list-header"], ["huge-length-prefix"]):
        e2e.append([faulty_case(ctx, r, f)])
    # a bad peer and a good one for the same infohash: the good one must win
    good = honest_case(ctx, r, size=16385, noise_p=0.3, cut="random")
    badc = faulty_case(ctx, r, ["corrupt-data"]); badc["target"] = good["target"]
    badc["parts"][0] = ("bt", bt_handshake(good["target"]))
    e2e.append([badc, good])
    # one honest seeder in a crowd of peers that complete both handshakes and then serve something else, stall or hang up: the
    # tracker's list is a set, the client may try the peers in any order and on any number of threads, and must still end up
    # with the honest peer's dictionary (added after seeded change C11-15: only the first peer to shake hands was asked)
    for crowd in (5, 12, 24) + ((40, 60) if ctx.thorough else ()):
        goodc = honest_case(ctx, r, size=r.choice([None, 16385, 32768]), noise_p=0.2, cut="random", label="honest-in-a-crowd")
        cs = []
        for _ in range(crowd):
            f = faulty_case(ctx, r, [r.choice(["corrupt-data", "lying-size+1", "wrong-total", "oversize-piece", "wrong-piece-index",
                                               "early-close", "undersize-piece", "lying-size-1"])])
            f["target"] = goodc["target"]; f["parts"][0] = ("bt", bt_handshake(goodc["target"]))
            cs.append(f)
        cs.insert(r.randrange(len(cs) + 1), goodc)
        e2e.append(cs)
    # dictionaries at the limits of their integer fields (file lengths just below 2^63 that add up beyond 2^64, piece length 2^32,
    # a single file of 2^63-1 bytes): served by an honest peer they are fetched and written like any other - together with every
    # option of from-link the check does not know (seeded change C11-16: `--show` added to from-link summed the lengths unchecked)
    for lens in ([(1 << 63) - 1] * 3, [(1 << 63) - 1, (1 << 63) - 1, 2], [(1 << 62)] * 5, None):
        dd = {"name": "big", "piece length": 1 << 32 if lens is None else 16384, "pieces": b""}
        if lens is None:
            dd["length"] = (1 << 63) - 1
        else:
            dd["files"] = [{"length": n, "path": ["f%d" % i]} for i, n in enumerate(lens)]
        c = honest_case(ctx, r, info=ben(dd), noise_p=0.0, cut="whole", label="honest-integer-limits")
        e2e.append([c])
    e2e.append([])                                  # tracker returns no peers
    c = honest_case(ctx, r, info=make_info(r, opt=set(), update_url="http://example.com"), noise_p=0.0, cut="whole", label="honest-nonnormal-url")
    c["known"] = KNOWN_KEY
    e2e.append([c])
    for _ in range(ctx.n(24, 400)):
        e2e.append([faulty_case(ctx, r, r.sample(FAULTS, r.randrange(1, 4)))] if r.random() < 0.6 else
                   [honest_case(ctx, r, size=r.choice([None, 16384, 16385, 32768]), noise_p=0.3, reactive=r.random() < 0.5)])
    e2e_cases = [c for cs in e2e for c in cs]
    inorm2 = irt.model_info_norm(ctx, [c["info"] for c in e2e_cases if c["honest"] and c["info"] not in inorm])
    inorm.update(inorm2)
    urls.update(irt.crate_urls(ctx, [t for t in irt.url_texts_of([c["info"] for c in e2e_cases]) if t not in urls]))
    classify_known(ctx, e2e_cases, inorm, urls)
    tmp = tempfile.mkdtemp(prefix="c11-")
    t0 = time.time()
    try:
        def one(k):
            cs = e2e[k]
            if not cs:      # no peers at all: a tracker that answers with an empty list
                dummy = dict(target=hashlib.sha1(b"nobody").digest())
                tr = Tracker([])
                d = tempfile.mkdtemp(dir=tmp)
                argv = ["torrent", "from-link", "magnet:?xt=urn:btih:%s&tr=udp://127.0.0.1:%d" % (dummy["target"].hex(), tr.port)]
                rc, out, err = ctx.imdl(argv, cwd=d, timeout=60)
                tr.close()
                return dict(rc=rc, stdout=out, stderr=err, files={f: b"" for f in os.listdir(d)}, argv=["imdl"] + argv, expect_name="-")
            return e2e_one(ctx, cs, tmp, ctx.seed * 7919 + k, with_output=(k % 3 != 0), stale_file=(k % 3 == 1), new_options=(k % 2 == 1), name_kind=k)
        results = lib.pmap(one, range(len(e2e)), nproc=8)
    finally:
        shutil.rmtree(tmp, ignore_errors=True)
    lib.log("C11: %d end-to-end from-link runs in %.1fs" % (len(e2e), time.time() - t0))
    for k, (cs, res) in enumerate(zip(e2e, results)):
        if cs:
            dry = type("Dry", (), {"violations": [], "violation": lambda self, *a, **kw: self.violations.append(a)})()
            judge_e2e(dry, cs, res)
            if dry.violations:                    # same rule as above: replay alone once before reporting
                tmp2 = tempfile.mkdtemp(prefix="c11-")
                try:
                    results[k] = e2e_one(ctx, cs, tmp2, ctx.seed * 7919 + k + 1, with_output=(k % 3 != 0), stale_file=(k % 3 == 1), new_options=(k % 2 == 1), name_kind=k)
                finally:
                    shutil.rmtree(tmp2, ignore_errors=True)
                ctx.count("e2e_replayed_before_reporting")
    for cs, res in zip(e2e, results):
        ctx.cov["evaluations"] += 1
        ctx.count("e2e_" + ("+".join(c["kind"] for c in cs) or "no-peers"))
        ctx.count("e2e_exit_%d" % res["rc"])
        ctx.distinct(("e2e", tuple(c["kind"] for c in cs), tuple(tuple(c.get("faults") or ()) for c in cs), res["rc"]))
        if not cs:
            if res["rc"] != 1 or res["files"]:
                ctx.violation("oracle-failure", "from-link with no peers: exit %d, files %s" % (res["rc"], sorted(res["files"])),
                              {"argv": res["argv"], "rc": res["rc"], "stderr": res["stderr"].decode("utf-8", "replace")[-400:]})
            continue
        judge_e2e(ctx, cs, res)
    return finish(ctx)


def finish(ctx):
    ctx.assumptions += [
        "serde's typed round trip of the Info dictionary (from_bytes::<Info> then to_bytes) is Model/InfoRoundTrip.v info_norm - modelled, "
        "not verified: compared in this run with the real client on every dictionary of the sessions and on the structured corpus; "
        "the url crate outside the fragment of Model/UrlNorm.v is the universally quantified `ext` (dictionaries whose update-url "
        "lies there are counted, nothing is claimed for them)",
        "SHA-1 is a function `H` (hashlib on the oracle side, the sha1 crate in imdl)",
        "a peer that ends its stream closes (or half-closes) the connection: read timeouts are exercised only by the thorough runs",
    ]
    return ctx.finish(
        rule="sessions: honest BEP 3/9/10 peers over metadata sizes {small, 16383, 16384, 16385, 32768, 49151..49153, 100 KiB, random}, "
             "all modelled keys, random ut_metadata ids incl. 0/1/255, keep-alives / choke / have / bitfield / unknown extended ids / "
             "ut_metadata request+reject at every position, segmentations {whole, 1, 2, 5, random}, eager and request-driven; "
             "adversarial: every single fault of the list in tools/props/c11.py FAULTS and random sequences of 2-4 (thorough 2-6) "
             "faults; a case is distinct by (kind, fault set, piece count, exact-multiple, segmentation, impl outcome, model outcome); "
             "plus end-to-end from-link runs (honest, faulty, good+bad peer, no peers); typed round trip (X16): a structured corpus over "
             "the Info schema (optional keys x both modes x 0..40 files x md5sum lower/upper/mixed/invalid x private absent/0/1/2/-1 x "
             "normal and non-normal update-urls incl. the X10 corpus, unknown keys of every type, mistyped values under every modelled "
             "key, mixed modes, file entries as dictionaries / sequences / with unknown keys, missing keys, non-canonical spellings), "
             "each dictionary served to the real client with the magnet asking for the SHA-1 of the predicted re-serialisation; distinct "
             "by (generator class, model verdict, client verdict, typed_normal, modelled_keys_only, oracle verdict)",
        trusted_base=["Coq 8.16.1 kernel (coqc), vm_compute for the computed examples", "tools/rs2v_peer.py (GenPeer)",
                      "extraction with ExtrOcamlBasic + runner/driver.ml (peer_assemble, info_norm)", "Rust hooks peer_fetch, url_norm + harness line protocol",
                      "tools/props/info_roundtrip.py (structured generator, own reading of serde's typed round trip from the Rust sources)",
                      "Python scripted peer / UDP tracker simulators and oracle in tools/props/c11.py (hashlib, lib.bdecode_strict)"],
    )


def replay(ctx, path):
    """re-run one recorded session: scripted peer vs hook, model, and from-link"""
    case = json.load(open(path))["case"]
    ctx.need_rust(); ctx.need_runner()
    peers = case.get("peers") or [case]
    rc = 0
    for pc in peers:
        if not pc.get("peer_sends") or any("..." in p for _, p in pc["peer_sends"]):
            print("case too large to be stored in full; summary:"); print(json.dumps({k: pc.get(k) for k in ("kind", "faults", "info_len", "segmentation")}, indent=1))
            continue
        parts = [(n, bytes.fromhex(p)) for n, p in pc["peer_sends"]]
        target = bytes.fromhex(pc["infohash"])
        c = dict(kind=pc["kind"], honest=pc["kind"].startswith("honest"), info=bytes.fromhex(pc["info_hex"]) if pc.get("info_hex") else b"",
                 target=target, ut_id=pc["ut_metadata_id"], parts=parts, cut=pc["segmentation"], reactive=pc["reactive"], faults=pc.get("faults"))
        m = ctx.model(["peer_assemble %s %s" % (target.hex(), lib.hexs(stream_of(c)))])[0]
        ps, impl = run_sessions(ctx, [c], 1)
        print("peer sends :", [(n, len(p)) for n, p in parts])
        print("model      :", m[:200])
        print("impl (hook):", impl[0][:200])
        tmp = tempfile.mkdtemp(prefix="c11r-")
        try:
            res = e2e_one(ctx, [c], tmp, 1)
        finally:
            shutil.rmtree(tmp, ignore_errors=True)
        print("from-link  : exit %d, files %s, stderr %r" % (res["rc"], sorted(res["files"]), res["stderr"].decode("utf-8", "replace")[-200:]))
        if res["rc"] == 0:
            span = lib.info_span(res["files"][res["expect_name"]])
            print("oracle     : sha1(info span)==infohash: %s; identical to served: %s" % (hashlib.sha1(span).digest() == target, span == c["info"]))
    return rc
