"""C16 — byte-size notation is parsed exactly and printed consistently.

Obligations: coq/Properties/C16.v (suffix table and constants regenerated from src/bytes.rs; `parse_exact`: every
well-formed number I.F with every spelling and letter case of every unit parses to floor((I*10^f+F)*1024^k/10^f)
clamped at 2^64-1, with the property's two clauses as corollaries; only a well-formed number + table suffix is
accepted, no text panics; printed form, unit, `byte` iff 1, the numeral denotes the rounded hundredths, and the error
bound of half a hundredth of the unit against the TRUE value for every u64).
Correspondence: `bytes_parse` / `bytes_display` hooks vs the extracted model vs a direct oracle in
exact rational arithmetic (fractions.Fraction) written from the property text; the real binary through
`torrent create --piece-length <text>` (reads back `piece length`) and `--terminal torrent show`
(content size and piece size of crafted torrents)."""
import json, os, re, shutil, tempfile
from fractions import Fraction
import lib

MANIFEST = dict(
    text="Machine-checked proof over a text-level model of FromStr/Display for Bytes as repaired by `fix: compute byte sizes "
         "exactly instead of through f64` (integer arithmetic in u128 with its saturating and checked operators; binary64 only "
         "in the choice of the printed unit, as round-to-nearest-even of the u64): every well-formed number - any number of "
         "integer and fraction digits, leading zeros, `.5`, `5.` - with every spelling and case of every unit parses to the exact "
         "product truncated to whole bytes, clamped at 2^64-1 (so integers are exact whenever the product fits in 64 bits, and "
         "fractions are truncated, with no residual class); nothing but a well-formed number plus a table suffix parses and no "
         "text panics; for all 2^64 values the printed unit is the largest not exceeding the double, the numeral has at most two "
         "decimals without trailing zeros, `byte` iff 1, and the printed value is within half a hundredth of the unit of the TRUE "
         "value. The suffix table, multipliers, display suffixes, number base, scale and loop constants are regenerated from "
         "src/bytes.rs on every run; model and code are run against each other and against a Fraction oracle on generated "
         "inputs, and the real binary is driven end to end. Right level: gib..eib and rounding at unit boundaries are never "
         "tested and the quantifier is over all u64 / all strings.",
    ref="DESIGN.md section 5, C16",
    technique="Coq proof over a Gallina model + translator-generated tables + model/implementation correspondence run",
    note="The two findings of the f64 path (parse-fraction-ge-2^46, display-gt-2^53) are repaired in /repo and their witnesses "
         "are regression cases of the corpus and Examples of coq/Properties/C16.v. "
         "Interpretation: a malformed number is one with no digit or more than one dot (`.5` and `5.` are numbers, as "
         "f64::from_str reads them - it is still the well-formedness test); letter case is Unicode lower-casing as Rust performs "
         "it (KELVIN SIGN folds to k); products at and beyond 2^64 saturate at 2^64-1 (the property is silent there; the oracle "
         "demands the clamp the theorem states). Assumed: f64::from_str accepts exactly D+, D+., .D+, D+.D+ over [0-9.] - "
         "exercised by the run. Trusted: Coq kernel, tools/rs2v_bytes.py, extraction + driver, hooks + harness, Python oracle.")

U64 = (1 << 64) - 1
UNIT_POW = {"": 0, "b": 0, "byte": 0, "bytes": 0, "kib": 1, "mib": 2, "gib": 3, "tib": 4, "pib": 5, "eib": 6}
DISPLAY_UNITS = ["KiB", "MiB", "GiB", "TiB", "PiB", "EiB"]


# ------------------------------------------------------------------ direct oracle (property text, exact arithmetic)

def oracle_parse(text):
    """('ok', n) the value the text denotes: the exact product truncated to whole bytes (clamped at 2^64-1, where the property
    itself is silent); ('err',) it must be rejected; plus a dict of facts for classification."""
    i = 0
    while i < len(text) and text[i] in "0123456789.":
        i += 1
    num, suf = text[:i], text[i:]
    wellformed = re.fullmatch(r"[0-9]+\.?[0-9]*|\.[0-9]+", num) is not None
    k = UNIT_POW.get(suf.lower())
    if not wellformed or k is None:
        return ("err",), {}
    ip, _, fp = num.partition(".")
    value = (Fraction(int(ip or "0")) + (Fraction(int(fp), 10 ** len(fp)) if fp else 0)) * 1024 ** k
    facts = {"value": value, "decimals": len(fp), "unit_pow": k}
    return ("ok", min(value.numerator // value.denominator, U64)), facts


def oracle_display(n, out):
    """list of complaints about the printed text `out` for the value n (empty = fine)"""
    m = re.fullmatch(r"([0-9]+)(?:\.([0-9]{1,2}))? (byte|bytes|KiB|MiB|GiB|TiB|PiB|EiB)", out)
    if not m:
        return ["not of the form <digits>[.<1-2 digits>] <unit>"]
    ip, fp, word = m.group(1), m.group(2), m.group(3)
    bad = []
    if fp is not None and fp.endswith("0"):
        bad.append("trailing zero in the decimals")
    if len(ip) > 1 and ip.startswith("0"):
        bad.append("leading zero")
    v = int(float(n))          # n rounded to double precision (Python's conversion is round-half-even)
    i = 0
    while i < 6 and 1024 ** (i + 1) <= v:
        i += 1
    want_word = ("byte" if n == 1 else "bytes") if i == 0 else DISPLAY_UNITS[i - 1]
    if word != want_word:
        bad.append("unit %s, expected %s (largest unit not exceeding the value as a double)" % (word, want_word))
        return bad
    printed = Fraction(int(ip)) + (Fraction(int(fp), 10 ** len(fp)) if fp else 0)
    unit = 1024 ** i
    if abs(printed - Fraction(n, unit)) > Fraction(1, 200):
        bad.append("printed %s differs from the true value %s/%d by more than 0.005" % (printed, n, unit))
    return bad


# ------------------------------------------------------------------ generators

def case_variants(s, rng, limit=None):
    outs = set()
    n = len(s)
    for mask in range(1 << n):
        outs.add("".join(c.upper() if mask >> j & 1 else c for j, c in enumerate(s)))
    outs = sorted(outs)
    if limit and len(outs) > limit:
        keep = {s, s.upper(), s.capitalize()}
        keep.update(rng.sample(outs, limit))
        outs = sorted(keep)
    return outs


CORPUS_PARSE = [
    "4503599627370496.75", "70368744177664.5", "70368744177663.99", "0.99", "0.01", "1023.99kib",
    "", ".", "..", "1.0.0", "1..", "..1", ".5", "5.", "1.", ".0", "0.", "1e3", "1E3", "1e", "kib", ".kib", "b", "bytes",
    "1 kib", " 1", "1 ", "+1", "-1", "-0", "1_000", "0x10", "1,5", "1'000", "inf", "nan", "infinity", "NaN", "1e3kib",
    "1kibb", "1ki", "1kb", "1mb", "1k", "1m", "1bits", "1bit", "1byt", "1bytess", "1kibibyte", "1KB", "1kiB", "1KIB", "1Kib",
    "1Kib", "1kİb", "1kıb", "1KIB", "1ｋib", "1kiв", "٣", "١kib", "１２", "1µib",
    "1bуte", "1kib\n", "1\tkib", "1kib\x00", "\x001", "1́", "1ki̇b", "1ẞ", "1ſ", "1byteſ",
    "00012", "0000", "00.50kib", "18446744073709551615", "18446744073709551616", "16eib", "15.99eib", "16.0eib", "17eib",
    "9007199254740991", "9007199254740992", "9007199254740993", "8191.99tib", "8eib", "7.99eib", "7.99pib", "8pib",
    "0.000000000000000000000000000001eib", "0." + "0" * 400 + "1eib", "9" * 400, "9" * 309 + "." + "9" * 50 + "kib",
    "0.015625gib", "0.0000152587890625tib", "0.00000001490116119384765625pib", "0.0000000000145519152283668518066406250eib",
    "1.5mib", "1.5pib", "0.5eib", "1.25pib", "0.1", "0.3gib", "123.456tib", "1.005kib", "2.675kib",
    # regression cases of the repaired findings and of the old domain restrictions
    "2.99pib", "0.99999999999999999999", "0." + "9" * 20, "0." + "9" * 60, "0." + "9" * 60 + "kib", "." + "0" * 17 + "1eib",
    "." + "0" * 18 + "1eib", "." + "0" * 59 + "1eib", "1." + "0" * 59 + "1", "99999999999999999999999999", "0.5" + "0" * 40 + "eib",
    "0.5" + "0" * 39 + "1eib", "0.4" + "9" * 40 + "eib", "15.99999999999999999eib", "15." + "9" * 24 + "eib", "15." + "9" * 18 + "eib",
    "16383.999pib", "16383.9999999999999999pib", "16384pib", "18446744073709551615.999", "18446744073709551614.999",
    "18446744073709551615.", "18446744073709551616.0", "9007199254740993kib", "9007199254740993.5", "18014398509481983.75",
    "17179869183.999999999gib", "17179869184gib", "340282366920938463463374607431768211455", "340282366920938463463374607431768211456",
    "340282366920938463463374607431768211455eib", "295147905179352825855eib", "295147905179352825856eib", "295147905179352825857.5eib",
    "34028236692093846346337460743176821145", "34028236692093846346337460743176821146", "3402823669209384634633746074317682114559",
    "0.1eib", "0.7pib", "1152921504606846975.9", "1125899906842623.99kib", "8191.99pib", "63.99pib", "64.01pib",
]


def gen_parse(ctx):
    r = ctx.rng
    cases = list(CORPUS_PARSE)
    spellings = sorted(UNIT_POW)
    # integers x every spelling x every letter case
    for sp in spellings:
        k = UNIT_POW[sp]
        cap = max(2, (1 << 53) >> (10 * k))   # products below 2^53 have I < cap
        top = (1 << 64) >> (10 * k)           # products below 2^64 have I < top
        for v in case_variants(sp, r):
            for I in {0, 1, 7, cap - 1, top - 1, r.randrange(0, cap), r.randrange(0, top),
                      r.randrange(0, max(2, cap >> r.randrange(0, 40)))}:
                cases.append("%d%s" % (I, v))
        for I in (cap, cap + 1, top, top + 1, r.randrange(cap, 4 * cap), r.randrange(1, 1 << 11) << r.randrange(0, 53 - 10 * k if k < 5 else 1)):
            cases.append("%d%s" % (I, r.choice(case_variants(sp, r, 4))))
        cases.append("000%d%s" % (r.randrange(0, cap), sp))
    # fractions with one and two decimals, products of every size, straddling 2^46 and 2^53
    nfrac = ctx.n(25000, 600000)
    for _ in range(nfrac):
        sp = r.choice(spellings)
        k = UNIT_POW[sp]
        mode = r.randrange(6)
        if mode == 0:
            bits = r.randrange(0, 47)
        elif mode == 1:
            bits = r.randrange(0, 64)
        elif mode == 2:
            bits = r.choice((45, 46, 47))
        elif mode == 3:
            bits = r.choice((52, 53, 54))
        else:
            bits = r.randrange(10 * k, max(10 * k + 1, 54))
        ibits = bits - 10 * k
        if ibits <= 0:
            I = 0 if ibits < 0 else r.randrange(0, 2)
        else:
            I = r.getrandbits(ibits) | (1 << (ibits - 1)) if r.randrange(3) else (1 << ibits) - r.randrange(0, 3)
        f = r.choice((1, 2, 2, 2))
        F = r.choice((0, 1, 5, 25, 50, 75, 99, 10, 90, 49, 51, r.randrange(100))) % (10 ** f)
        cases.append("%d.%0*d%s" % (I, f, F, r.choice(case_variants(sp, r, 3))))
    # the boundary 2^46 and 2^53 exactly, per unit, with two decimals
    for sp in ("", "kib", "mib", "gib", "tib", "pib", "eib"):
        k = UNIT_POW[sp]
        for top in (46, 53):
            if top - 10 * k < 0:
                # the product reaches 2^top only through the fraction
                continue
            base = 1 << (top - 10 * k)
            for d in (-2, -1, 0, 1):
                for F in (0, 1, 25, 50, 75, 99):
                    if base + d >= 0:
                        cases.append("%d.%02d%s" % (base + d, F, sp))
    # .F and I. forms, more than two decimals, long numerals (correspondence only where the property is silent)
    for _ in range(ctx.n(3000, 60000)):
        sp = r.choice(spellings)
        f = r.randrange(1, 24)
        I = r.getrandbits(r.randrange(0, 50))
        F = r.randrange(10 ** f)
        form = r.randrange(4)
        if form == 0:
            cases.append(".%0*d%s" % (f, F, sp))
        elif form == 1:
            cases.append("%d.%s" % (I, sp))
        else:
            cases.append("%d.%0*d%s" % (I, f, F, sp))
    for _ in range(ctx.n(300, 4000)):
        nd = r.randrange(20, 420)
        s = "".join(r.choice("0123456789") for _ in range(nd))
        if r.randrange(2):
            p = r.randrange(0, nd)
            s = s[:p] + "." + s[p:]
        cases.append(s + r.choice(spellings))
    # exact dyadic fractions that land on integers through the large multipliers
    for sp in ("gib", "tib", "pib", "eib"):
        k = UNIT_POW[sp]
        for e in range(1, 10 * k - 3, max(1, k)):
            num = 5 ** e              # 2^-e = 5^e / 10^e
            cases.append("0.%0*d%s" % (e, num, sp))
            cases.append("%d.%0*d%s" % (r.randrange(1, 8), e, num, sp.upper()))
    # ---- what the float path could not do (repaired by the integer evaluation)
    # many decimals (1-60 digits) with every unit; all-nine, zeros-then-one, exact-half and random digit patterns
    def frac_digits(f):
        kind = r.randrange(7)
        if kind == 0:
            return "9" * f
        if kind == 1:
            return "0" * (f - 1) + "1"
        if kind == 2:
            return "5" + "0" * (f - 1)
        if kind == 3:
            return "4" + "9" * (f - 1)
        if kind == 4:
            return "5" + "0" * max(0, f - 2) + ("1" if f > 1 else "")
        return "".join(r.choice("0123456789") for _ in range(f))
    for _ in range(ctx.n(9000, 200000)):
        sp = r.choice(spellings)
        k = UNIT_POW[sp]
        f = r.randrange(1, 61)
        mode = r.randrange(5)
        if mode == 0:
            I = ""
        elif mode == 1:
            I = "0" * r.randrange(1, 4)
        else:
            ib = r.randrange(0, max(1, 66 - 10 * k))
            I = str(r.getrandbits(ib)) if ib else "0"
        cases.append("%s.%s%s" % (I, frac_digits(f), r.choice(case_variants(sp, r, 3))))
    # products in [2^46, 2^64) that are not whole numbers
    for _ in range(ctx.n(9000, 200000)):
        sp = r.choice(spellings)
        k = UNIT_POW[sp]
        bits = r.randrange(46, 65)
        ibits = bits - 10 * k
        if ibits <= 0:
            continue
        I = r.getrandbits(ibits) | (1 << (ibits - 1)) if r.randrange(4) else (1 << ibits) - 1 - r.randrange(0, 2)
        f = r.choice((1, 2, 2, 3, 5, 9, 17, 18, 19, 20, 25, 40))
        cases.append("%d.%s%s" % (I, frac_digits(f), sp))
    # whole numbers with more than 53 significant bits (only unit-less / byte spellings fit in 64 bits; with a unit they saturate)
    for _ in range(ctx.n(2500, 50000)):
        bits = r.randrange(54, 65)
        I = r.getrandbits(bits) | (1 << (bits - 1)) | 1
        sp = r.choice(("", "", "b", "B", "byte", "bytes", "kib", "mib"))
        cases.append("%d%s" % (I, sp))
        if r.randrange(4) == 0:
            cases.append("%s%d.%s%s" % ("0" * r.randrange(0, 3), I, frac_digits(r.randrange(1, 30)), sp))
    # at and beyond 2^64: the last values below the clamp, the first above, far above (also beyond 2^128)
    for sp in spellings:
        k = UNIT_POW[sp]
        top = (1 << 64) >> (10 * k)
        for I in (top - 2, top - 1, top, top + 1):
            for fd in ("", ".", ".0", ".5", "." + "9" * 3, "." + "9" * 25, "." + "0" * 25 + "1"):
                cases.append("%d%s%s" % (I, fd, sp))
        for _ in range(ctx.n(12, 300)):
            I = r.getrandbits(r.randrange(64 - 10 * k, 200)) | (1 << (64 - 10 * k))
            cases.append("%d%s%s" % (I, r.choice(("", ".5", ".999")), sp))
        t128 = ((1 << 128) >> (10 * k))
        for I in (t128 - 1, t128, t128 + 1):
            cases.append("%d%s" % (I, sp))
        # the u128 accumulators must saturate, not wrap: whole parts just above a multiple of 2^128, and whole parts whose
        # product with the unit is just above a multiple of 2^128 (a wrapped result would be small and look plausible)
        for j in (1, 2, 3, 7, 10, 99, r.randrange(1, 1 << 20)):
            for x in (0, 4, 5, 6, 9, 10, 16, r.randrange(0, 1 << 16), r.randrange(0, 1 << 40), r.randrange(0, 1 << 62)):
                cases.append("%d%s" % ((j << 128) + x, sp))
                cases.append("%d%s%s" % (j * t128 + (x >> (10 * k)), r.choice(("", ".5", ".99")), sp))
    # ---- malformed stream
    mal = []
    alphabet = "0123456789..bBkKmMgGtTpPeEiIyYsS xX+-_,eEKİıé٣１\n\t"
    for _ in range(ctx.n(8000, 150000)):
        mal.append("".join(r.choice(alphabet) for _ in range(r.randrange(0, 9))))
    valid_pool = [c for c in cases if oracle_parse(c)[0][0] != "err"]
    for _ in range(ctx.n(12000, 250000)):
        s = r.choice(valid_pool)
        if len(s) > 40:
            continue
        op = r.randrange(6)
        p = r.randrange(0, len(s) + 1)
        if op == 0:
            s = s[:p] + r.choice(alphabet) + s[p:]
        elif op == 1 and s:
            p = min(p, len(s) - 1); s = s[:p] + s[p + 1:]
        elif op == 2 and s:
            p = min(p, len(s) - 1); s = s[:p] + r.choice(alphabet) + s[p + 1:]
        elif op == 3:
            s = s[:p] + "." + s[p:]
        elif op == 4 and len(s) > 1:
            p = min(p, len(s) - 2); s = s[:p] + s[p + 1] + s[p] + s[p + 2:]
        else:
            s = s + r.choice(("s", "b", "i", " ", "ib", "B"))
        mal.append(s)
    # every scalar with a case mapping, substituted for a letter of a suffix (Unicode lower-casing)
    special = [chr(c) for c in range(0x80, 0x30000) if not (0xD800 <= c < 0xE000)
               and (chr(c).lower() != chr(c) or chr(c).upper() != chr(c) or chr(c).casefold() != chr(c))]
    if not ctx.thorough:
        keep = {"K", "İ", "ı", "ſ", "ẞ", "µ", "Ｋ", "ｋ", "К", "Κ", "Å", "Ω"}
        special = sorted(keep | set(r.sample(special, 700)))
    for ch in special:
        mal.append("1" + ch + "ib")
        mal.append("1" + ch)
        if ctx.thorough:
            mal.append("1k" + ch + "b"); mal.append("1byte" + ch)
    seen, out = set(), []
    for c in cases + mal:
        if c not in seen:
            seen.add(c); out.append(c)
    return out


def gen_display(ctx):
    r = ctx.rng
    pts = set(range(0, ctx.n(12000, 300000)))
    pts.update((U64, U64 - 1, (1 << 53) + (1 << 47) + 1, (1 << 53) + (1 << 47) - 1, (1 << 53) + 3 * (1 << 47) + 1))
    for i in range(0, 7):
        u = 1024 ** i
        for d in range(-3, 4):
            pts.add(u + d); pts.add(1024 * u + d); pts.add(1000 * u + d); pts.add(2 * u + d)
        # the top of each unit: 1023.99x prints as 1024.00
        for j in range(0, 12):
            pts.add(1024 * u - 1 - (u * j) // 400)
        if i >= 1:
            e = u >> 3                     # eighths of the unit: .125 .375 .625 .875 are exact ties
            for _ in range(ctx.n(500, 8000)):
                m = r.randrange(8, 8192)
                for d in (-1, 0, 1):
                    pts.add(m * e + d)
            # rounding thresholds (j + 0.5)/100 of the unit
            for _ in range(ctx.n(600, 10000)):
                j = r.randrange(100, 102400)
                t = ((2 * j + 1) * u) // 200
                for d in (-1, 0, 1, 2):
                    pts.add(t + d)
            # one decimal vs two, integers vs not
            for _ in range(ctx.n(250, 4000)):
                j = r.randrange(1, 10240)
                t = (j * u) // 10
                for d in (-1, 0, 1):
                    pts.add(t + d)
    # within one part in 2^53 of the unit boundaries that lie above 2^53
    for b in (1 << 60, 1 << 63, 1 << 64):
        for d in list(range(1, 40)) + [63, 64, 65, 127, 128, 129, 255, 256, 257, 511, 512, 513, 1023, 1024, 1025, 2047, 2048, 2049]:
            pts.add(b - d); pts.add(b + d)
    for k in range(53, 64):
        for _ in range(ctx.n(40, 800)):
            base = (1 << k) + (r.getrandbits(6) << (k - 6))
            pts.add(base + r.randrange(-3, 4))
            # dyadic ties of the printed hundredths above 2^53 (the class of the repaired finding)
            unit_pow = 5 if k < 60 else 6
            e = 1 << (10 * unit_pow - 3)
            pts.add((base // e) * e + e + r.choice((-1, 1, 2)))
    # every exact tie (odd eighths of the unit give x.xx5) above 2^53, +-1: PiB and EiB
    for unit_pow in (5, 6):
        e = 1 << (10 * unit_pow - 3)
        for m in range(8, 8192):
            if (1 << 53) < m * e <= U64 + 1:
                for d in (-2, -1, 0, 1, 2):
                    pts.add(m * e + d)
        # all rounding thresholds (j + 0.5)/100 of the unit above 2^53 (a sample in quick)
        u = 1 << (10 * unit_pow)
        js = range(100, 102400)
        if not ctx.thorough:
            js = r.sample(js, 3000)
        for j in js:
            t = ((2 * j + 1) * u) // 200
            if t > 1 << 53:
                for d in (-1, 0, 1):
                    pts.add(t + d)
    # values whose conversion to double moves them across a tie or a unit boundary
    for k in range(54, 65):
        for _ in range(ctx.n(150, 3000)):
            sp = 1 << (k - 53)                 # spacing of doubles in [2^(k-1), 2^k)
            base = (r.getrandbits(52) | (1 << 52)) * sp
            pts.add(base + sp // 2); pts.add(base + sp // 2 - 1); pts.add(base + sp // 2 + 1); pts.add(base + r.randrange(sp))
    for _ in range(ctx.n(15000, 800000)):
        k = r.randrange(1, 65)
        pts.add(r.getrandbits(k))
    return sorted(p for p in pts if 0 <= p <= U64)


# ------------------------------------------------------------------ the run

def hx(s):
    return lib.hexs(s.encode("utf-8"))


def repro_parse(t):
    return "printf 'bparse %s\\n' | $VERIF_CACHE/target/debug/imdl-verif-harness   # text %r; or: imdl torrent create -i FILE -o - --piece-length %r" % (hx(t), t, t)


def judge_parse(ctx, t, i, m):
    """i, m: replies of implementation and model. Returns nothing; records violations."""
    exp, facts = oracle_parse(t)
    case = {"text": t, "text_hex": hx(t), "impl": i[:200], "model": m, "oracle": [str(x) for x in exp], "reproduce": repro_parse(t)}
    ok_i = i.startswith("OK ")
    err_i = i.startswith("ERR")
    cls = "ok" if ok_i else "err" if err_i else i.split(" ")[0]
    ctx.count("parse_impl_" + cls)
    ctx.count("parse_oracle_" + exp[0])
    if not (ok_i or err_i):
        ctx.violation("oracle-failure", "parsing %r neither returned a size nor rejected it: %s" % (t, i[:80]), case)
        return
    if exp[0] == "err" and ok_i:
        ctx.violation("oracle-failure", "%r was accepted as %s; its suffix is not a unit or its number is malformed" % (t, i[3:]), case)
        return
    if exp[0] != "err" and err_i:
        ctx.violation("oracle-failure", "%r is a well-formed size but was rejected" % t, case)
        return
    if exp[0] == "ok" and int(i[3:]) != exp[1]:
        v = facts["value"]
        what = "%s truncated" % v if v < 1 << 64 else "the product is 2^64 or more: clamped"
        if len(what) > 120:
            what = what[:117] + "..."
        ctx.violation("oracle-failure", "%r parsed to %s, expected %d (= %s)" % (t if len(t) < 90 else t[:87] + "...", i[3:], exp[1], what), case)
        return
    mi = m if m.startswith("OK ") else "ERR" if m.startswith("ERR") else m
    ii = i if ok_i else "ERR"
    if mi != ii:
        ctx.cov["disagreements_checked"] += 1
        ctx.violation("model-impl-disagreement",
                      "ByteSize.bs_parse and Bytes::from_str differ on %r (impl %s, model %s); the property's own conditions hold there"
                      % (t, ii, mi), case)


def judge_display(ctx, n, i, m, where="hook"):
    case = {"value": n, "impl": i, "model": m,
            "reproduce": "printf 'bdisp %d\\n' | $VERIF_CACHE/target/debug/imdl-verif-harness | cut -d' ' -f2 | xxd -r -p" % n}
    if not i.startswith("OK "):
        ctx.violation("oracle-failure", "printing %d did not return normally: %s" % (n, i[:80]), case)
        return
    out = lib.unhex(i[3:]).decode("utf-8", "replace")
    case["printed"] = out
    bad = oracle_display(n, out)
    ctx.count("display_unit_" + out.split(" ")[-1])
    if bad:
        ctx.violation("oracle-failure", "%d printed as %r: %s" % (n, out, "; ".join(bad)), case)
        return
    if m != i:
        ctx.cov["disagreements_checked"] += 1
        mo = lib.unhex(m[3:]).decode("utf-8", "replace") if m.startswith("OK ") else m
        ctx.violation("model-impl-disagreement",
                      "ByteSize.bs_display and Display for Bytes differ at %d (impl %r, model %r); the property's own conditions hold there"
                      % (n, out, mo), case)


def run(ctx):
    ctx.need_coq()
    if not ctx.need_rust() or not ctx.need_runner():
        return finish(ctx)
    # ---- parse: hook vs model vs oracle
    texts = gen_parse(ctx)
    lines = ["bparse " + hx(t) for t in texts]
    impl = ctx.harness(lines)
    model = ctx.model(lines)
    for t, i, m in sorted(zip(texts, impl, model), key=lambda x: (len(x[0]), x[0])):
        ctx.cov["evaluations"] += 1
        ctx.cov["traces_validated_against_impl"] += 1
        exp, facts = oracle_parse(t)
        if exp[0] == "err":
            ctx.distinct(("rej", t[:12]))
        else:
            v = facts["value"]
            ctx.count("parse_valid_unit_1024^%d" % facts["unit_pow"])
            d = facts["decimals"]
            ctx.count("parse_valid_decimals_%s" % (d if d <= 2 else "3..17" if d <= 17 else "18..60" if d <= 60 else "61+"))
            ctx.count("parse_valid_product_" + ("lt_2^46" if v < 1 << 46 else "2^46..2^53" if v < 1 << 53 else "2^53..2^64" if v < 1 << 64 else "ge_2^64")
                      + ("" if v.denominator == 1 else "_fractional"))
            ctx.distinct(("acc", facts["unit_pow"], facts["decimals"], facts["value"].numerator.bit_length() - facts["value"].denominator.bit_length()))
        judge_parse(ctx, t, i, m)
    for t in ("1.5mib", "4503599627370496.75", "1Kib", "1.0.0"):
        j = texts.index(t)
        ctx.sample({"parse": t, "impl": impl[j][:40], "model": model[j]})
    # ---- display: hook vs model vs oracle
    pts = gen_display(ctx)
    dl = ["bdisp %d" % p for p in pts]
    impl_d = ctx.harness(dl)
    model_d = ctx.model(dl)
    for p, i, m in zip(pts, impl_d, model_d):
        ctx.cov["evaluations"] += 1
        ctx.cov["traces_validated_against_impl"] += 1
        ctx.distinct(("disp", i))
        ctx.count("display_value_" + ("le_2^53" if p <= 1 << 53 else "gt_2^53"))
        judge_display(ctx, p, i, m)
    for p in (1, 1536, (1 << 53) + (1 << 47) + 1):
        j = pts.index(p)
        ctx.sample({"display": p, "impl": lib.unhex(impl_d[j][3:]).decode() if impl_d[j].startswith("OK ") else impl_d[j]})
    e2e(ctx)
    if ctx.thorough:
        coqchk(ctx)
    return finish(ctx)


def coqchk(ctx):
    """thorough tier: independent re-check of this property's compiled libraries with coqchk"""
    mods = ["Imdl.Generated.GenBytes", "Imdl.Model.ByteSize", "Imdl.Proofs.ByteSizeProofs"]
    cmd = ["coqchk", "-silent", "-o", "-Q", ".", "Imdl"]
    for m in mods:
        cmd += ["-norec", m]
    rc, out = lib.sh(cmd, cwd=lib.COQ, timeout=900)
    clean = all(("%s: <none>" % k) in out for k in ("relying on type-in-type", "relying on unsafe (co)fixpoints",
                                                   "positivity is assumed"))
    ctx.notes.append("coqchk -o -norec %s: rc=%d, no type-in-type / unsafe fixpoints / assumed positivity: %s" % (" ".join(mods), rc, clean))
    if rc != 0 or not clean:
        ctx.violation("obligation-broken", "coqchk does not accept the compiled C16 libraries", {"theorems": mods, "coq_log": out[-3000:]})


# ------------------------------------------------------------------ the real binary

E2E_TEXTS = [
    "16kib", "16KIB", "32768", "32768b", "32768BYTE", "32768bytes", "1mib", "1MiB", "2.5MiB", "0.5mib", ".5mib", "64.kib",
    "16.00kib", "0.25GiB", "0.015625gib", "0.0000152587890625tib", "0.00000001490116119384765625pib",
    "0.0000000000145519152283668518066406250eib", "0.01gib", "0.000001tib", "0.00000001PiB", "0.00000000001EIB",
    "1000", "1023.99kib", "1Kib", "00016kib",
    # rejected
    "1.0.0", "", ".", "1e3", "1kb", "1 kib", "-1", "+16kib", "1kibs", "16kİb", "kib", "1..5mib",
]


def e2e(ctx):
    r = ctx.rng
    texts = list(E2E_TEXTS)
    for _ in range(ctx.n(20, 300)):
        sp = r.choice(sorted(UNIT_POW))
        k = UNIT_POW[sp]
        target = r.randrange(1, 1 << 26)                     # keep the hasher's buffer small
        if k == 0:
            texts.append("%d%s" % (target, r.choice(case_variants(sp, r, 3))))
        else:
            # a two-decimal (or longer) fraction of the unit whose product is near `target`
            f = r.choice((0, 1, 2, 2, 6))
            q = (target * 10 ** f) >> (10 * k)
            texts.append(("%d.%0*d%s" % (q // 10 ** f, f, q % 10 ** f, sp)) if f else "%d%s" % (max(1, target >> (10 * k)), sp))
    tmp = tempfile.mkdtemp(prefix="c16-")
    try:
        with open(os.path.join(tmp, "f"), "wb") as fh:
            fh.write(b"x")

        def create(t):
            return t, ctx.imdl(["torrent", "create", "--input", os.path.join(tmp, "f"), "--output", "-", "--piece-length", t,
                                "--allow", "uneven-piece-length", "--allow", "small-piece-length"], cwd=tmp, timeout=120)
        for t, (rc, out, err) in lib.pmap(create, texts):
            ctx.cov["evaluations"] += 1
            exp, facts = oracle_parse(t)
            case = {"argv": ["imdl", "torrent", "create", "--input", "f", "--output", "-", "--piece-length", t,
                             "--allow", "uneven-piece-length", "--allow", "small-piece-length"], "text": t, "rc": rc,
                    "stderr": err.decode("utf-8", "replace")[-400:], "reproduce": "printf x > f; imdl torrent create --input f --output - "
                    "--piece-length %r --allow uneven-piece-length --allow small-piece-length" % t}
            ctx.count("e2e_create")
            if rc < 0 or rc == 101:
                ctx.violation("oracle-failure", "create --piece-length %r crashed (rc %d)" % (t, rc), case); continue
            if exp[0] == "err":
                if rc == 0:
                    ctx.violation("oracle-failure", "create accepted the malformed size %r" % t, case)
                continue
            want = exp[1]
            if want == 0 or want >= 1 << 32:
                if rc == 0:
                    ctx.violation("oracle-failure", "create accepted piece length %r = %d" % (t, want), case)
                continue
            if rc != 0:
                ctx.violation("oracle-failure", "create rejected the well-formed size %r (= %d bytes)" % (t, want), case); continue
            try:
                v, _ = lib.bdecode_strict(out)
                pl = lib.dget(lib.dget(v, "info"), "piece length")
            except Exception as ex:
                ctx.violation("oracle-failure", "create output undecodable for --piece-length %r: %r" % (t, ex), case); continue
            ctx.distinct(("create", t))
            if pl != want:
                ctx.violation("oracle-failure", "--piece-length %r recorded piece length %r, expected %d" % (t, pl, want), dict(case, piece_length=pl))
        ctx.sample({"create --piece-length": "0.0000152587890625tib", "expected piece length": 1 << 24})

        # `--terminal torrent show` prints content size and piece size through Display for Bytes
        vals = [0, 1, 2, 1023, 1024, 1025, 1536, 1024 ** 2 - 1, 1024 ** 3 + 1024 ** 3 // 8, 1024 ** 4 * 3 // 2, 1024 ** 5 - 1,
                1024 ** 6, (1 << 60) - 1, (1 << 63) - 1, (1 << 53) + (1 << 47) + 1, 9147936743096321,
                (1 << 53) + 3 * (1 << 47) + 1, 5 * (1 << 57) + 1, 5 * (1 << 57) - 1]   # bencode integers are i64
        for _ in range(ctx.n(25, 400)):
            vals.append(r.getrandbits(r.randrange(1, 64)))
        if len(vals) % 2:
            vals.append(1)
        pairs = list(zip(vals[0::2], vals[1::2]))

        def show(pair):
            n, p = pair
            d = tempfile.mkdtemp(dir=tmp)
            tf = os.path.join(d, "t.torrent")
            with open(tf, "wb") as fh:
                fh.write(b"d4:infod6:lengthi%de4:name1:f12:piece lengthi%de6:pieces20:" % (n, p) + b"a" * 20 + b"ee")
            return pair, ctx.imdl(["--terminal", "torrent", "show", "--input", tf], cwd=d, env={"NO_COLOR": "1"}, timeout=60)
        for (n, p), (rc, out, err) in lib.pmap(show, pairs):
            ctx.cov["evaluations"] += 1
            ctx.count("e2e_show")
            text = re.sub(r"\x1b\[[0-9;]*m", "", out.decode("utf-8", "replace"))
            case = {"torrent": "d4:infod6:lengthi%de4:name1:f12:piece lengthi%de6:pieces20:aaaaaaaaaaaaaaaaaaaaee" % (n, p),
                    "argv": ["imdl", "--terminal", "torrent", "show", "--input", "t.torrent"], "rc": rc, "stdout": text[-600:],
                    "stderr": err.decode("utf-8", "replace")[-300:]}
            if rc != 0:
                ctx.violation("oracle-failure", "show failed (rc %d) on a torrent with length %d, piece length %d" % (rc, n, p), case); continue
            for label, val in (("Content Size", n), ("Piece Size", p)):
                mm = re.search(r"^\s*" + label + r"  (.*)$", text, re.M)
                if not mm:
                    ctx.violation("oracle-failure", "show printed no %s row" % label, case); continue
                bad = oracle_display(val, mm.group(1))
                ctx.distinct(("show", mm.group(1)))
                if bad:
                    ctx.violation("oracle-failure", "show printed %s %d as %r: %s" % (label, val, mm.group(1), "; ".join(bad)),
                                  dict(case, value=val))
    finally:
        shutil.rmtree(tmp, ignore_errors=True)


def finish(ctx):
    ctx.assumptions += [
        "f64::from_str (now only the well-formedness test) accepts exactly D+, D+., .D+, D+.D+ over the characters [0-9.] - modelled by parse_number, exercised through the hook",
        "u64 as f64 is round-to-nearest-even (Model/Float53.round53) - it only selects the printed unit",
        "`{}` / `{:02}` print a u128 in decimal, the latter padded to two digits (fmt2)",
        "str::to_lowercase maps only A-Z and U+212A into the ASCII letters of the table (every scalar with a case mapping is tried in the thorough tier, a seeded sample in quick)",
        "interpretation: a malformed number has no digit or more than one dot; products of 2^64 and more saturate at 2^64-1 (the property is silent there)",
    ]
    return ctx.finish(
        rule="parse: corpus of edge strings incl. the witnesses of the two repaired findings; every unit spelling x every letter-case variant x integers 0, 1, 7, "
             "largest fitting 53 and 64 bits, random; one/two-decimal fractions with products of every size incl. straddling 2^46 and 2^53; "
             "1-60 decimals (all nines, zeros then a one, exact halves, random) with every unit; non-integral products in [2^46, 2^64); whole numbers with "
             "54-64 significant bits; the last values below and the first at/above 2^64 per unit, up to beyond 2^128, whole parts and products just above multiples of 2^128 (wrap-around would look plausible); "
             ".F / I. forms, 20-420 digit numerals, exact dyadic fractions through gib..eib; malformed stream = random short strings over a "
             "digits/letters/unicode alphabet, one-edit mutations of valid inputs, every sampled scalar with a case mapping substituted into a suffix. "
             "display: 0..11999, every 1024^i with +-3, x2, x1000, x1024, top of each unit, eighths (exact ties) +-1, rounding thresholds +-1, tenths +-1, "
             "values within 2^-53 of 2^60/2^63/2^64, every exact tie of PiB/EiB above 2^53 +-2, rounding thresholds above 2^53, halfway points of the "
             "u64->double conversion, random of every bit length. distinct/non-trivial: accepted inputs by "
             "(unit, decimals, magnitude), rejected by prefix, printed by text. E2E: create --piece-length and --terminal show on the real binary",
        trusted_base=["Coq 8.16.1 kernel (coqc), vm_compute for table facts and examples", "tools/rs2v_bytes.py (GenBytes)",
                      "extraction with ExtrOcamlBasic + runner/driver.d/bytesize.ml (UTF-8 decoding)",
                      "Rust hooks bytes_parse / bytes_display + harness line protocol", "Python oracle (fractions.Fraction, float()) in tools/props/c16.py"],
    )


def replay(ctx, path):
    case = json.load(open(path))["case"]
    ctx.need_rust(); ctx.need_runner()
    if "text" in case:
        t = case["text"]
        print("input  : %r" % t)
        print("impl   :", ctx.harness(["bparse " + hx(t)])[0][:200])
        print("model  :", ctx.model(["bparse " + hx(t)])[0])
        print("oracle :", oracle_parse(t)[0])
    elif "value" in case:
        n = case["value"]
        i = ctx.harness(["bdisp %d" % n])[0]
        m = ctx.model(["bdisp %d" % n])[0]
        out = lib.unhex(i[3:]).decode("utf-8", "replace") if i.startswith("OK ") else i
        print("value  :", n)
        print("impl   : %r" % out)
        print("model  : %r" % (lib.unhex(m[3:]).decode("utf-8", "replace") if m.startswith("OK ") else m))
        print("oracle :", oracle_display(n, out) or "fine")
    else:
        print(json.dumps(case, indent=1)[:3000])
    return 0
