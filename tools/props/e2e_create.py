"""X5 - end to end with create: `torrent show` / `torrent link` of a torrent that `torrent create` wrote report exactly what
the command line asked for. Shared helper of tools/props/c07.py (show) and tools/props/c10.py (link); not a property of its
own.

For a sample of `create` command lines (C05's generator: option subsets x small trees, option spelling and order shuffled):
  real binary : `imdl torrent create ... --output out.torrent [--link --peer ..]`, then on the written file
                `imdl torrent show --json`, piped (tab-delimited), `--terminal`   /   `imdl torrent link [--peer ..] [--select-only ..]`
  model       : the extracted composition  Metainfo.build -> encode -> Summary.show   (EndToEndShow.e2e_show)
                                           Metainfo.build -> encode -> link.rs's loader + Infohash -> Magnet.link_cmd, and the
                                           lossy path of `create --link`                 (EndToEndShow.e2e_link)
  oracle      : the command line itself - every reported field is computed here from the options and the tree (hashlib for the
                info hash of the expected info dictionary, urllib.parse for the link), never from the model or the file.
The theorems are c07_created_bytes_show_back / c10_created_bytes_link_back (coq/Properties/C07.v, C10.v).

X5b (the models as X4 left them): the typed record the loader builds carries the MD5 texts; `show` does not print them, so
they are compared on their own - the `md5sum` entries of the written file (independent reader) and the list the extracted
composition build -> encode -> Summary.from_input carries (EndToEndShow.e2e_md5s, theorem c07_created_md5_list) against
hashlib's MD5 of each file's bytes under --md5 and nothing otherwise."""
import hashlib, json, os, re, shlex, shutil, tempfile, time, urllib.parse
import lib
from props import c05, c07

PEERS = ["1.2.3.4:5", "[::1]:80", "d.example:6881", "203.0.113.9:51413", "[2001:db8::2]:6881"]
DEPTH = "2048"       # bendy's limit for the generic decoding in this tree (GenInfohash.max_depth); far above any created file


def gen_cases(ctx, n):
    """C05's valid requests, written to a path (the file is then read by show / link)"""
    import random
    r0 = random.Random(7)
    fixed = [c05.gen_case(r0, set(), "file"), c05.gen_case(r0, set(c05.OPTION_NAMES), "dir"),
             c05.gen_case(r0, set(c05.OPTION_NAMES), "file"), c05.gen_case(r0, set(c05.OPTION_NAMES), "stdin"),
             c05.gen_case(r0, set(), "dir")]
    # every recorded normalisation of the url crate, IPv6 next to domains, repeated trackers, an empty directory
    c = c05.gen_case(r0, set(), "dir")
    c["nodes"] = [["[2001:db8::1]", 6881], ["router.example.com", 6881], ["[::1]", 0], ["203.0.113.5", 65535], ["[2001:DB8:0:0:0:0:0:1]", 2],
                  ["EXAMPLE.COM", 80], ["192.0.2.010", 1]]
    c["announce"] = "HTTP://EXAMPLE.COM/Announce"; c["update_url"] = "http://example.com:80/announce"
    c["tiers"] = ["http://example.com/Announce,udp://tracker.example:1337/announce", "udp://tracker.example:1337/announce,wss://t.example/"]
    fixed.append(c)
    c = c05.gen_case(r0, {"md5", "private", "source"}, "dir"); c["tree"]["files"] = []; c["allow"] = ["private-trackerless"]; fixed.append(c)
    for o in c05.OPTION_NAMES:
        fixed.append(c05.gen_case(r0, {o}))
    out = fixed + [c05.gen_case(ctx.rng) for _ in range(n)]
    for c in out:
        c["output"] = "path"
        c["expect_reject"] = None
    return out


# ---------------------------------------------------------------- the command line's own statement of the report (oracle)

def host_shown(h):
    """url::Host's Display of the stored host: a domain or IPv4 address as it is, an IPv6 address in brackets in the url
    crate's own spelling (hex groups only, longest zero run compressed - `::ffff:192.0.2.1` is stored by create through
    std's Ipv6Addr Display and shown as `[::ffff:c000:201]`)"""
    import ipaddress
    e = c05.host_expected(h)
    return "[" + ipaddress.IPv6Address(e).compressed + "]" if ":" in e else e


def expected_report(c, version):
    """every field `show --json` must print, from the options and the tree alone; ('date',) / ('created-by', regex) / ('size',)
    stand for values judged separately"""
    pl = c05.expected_piece_length(c)
    tree = c["tree"]
    files = c05.tree_paths(tree, c.get("sort_by"))
    total = sum(f["size"] for f in files)
    name = c["name"] if c["name"] is not None else tree["name"]
    top = c05.expected_fields(c, version)
    ih = hashlib.sha1(lib.bencode(top[b"info"])).hexdigest()
    single = tree["kind"] in ("file", "stdin")
    return {
        "name": name, "comment": c["comment"],
        "creation_date": None if c["no_creation_date"] else ("date",),
        "created_by": None if c["no_created_by"] else top[b"created by"],
        "source": c["source"], "info_hash": ih, "torrent_size": ("size",), "content_size": total, "private": bool(c["private"]),
        "tracker": None if c["announce"] is None else c05.url_expected(c["announce"]),
        "announce_list": [t.split(",") for t in c["tiers"]],
        "update_url": None if c["update_url"] is None else c05.url_expected(c["update_url"]),
        "dht_nodes": ["%s:%d" % (host_shown(h), p) for h, p in c["nodes"]],
        "piece_size": pl, "piece_count": (total + pl - 1) // pl,
        "file_count": 1 if single else len(files),
        "files": [name] if single else ["/".join([name] + f["path"]) for f in files],
    }, top


def expected_md5s(c):
    """the MD5 texts the loaded metainfo must carry, from the command line and the contents alone: the hex MD5 of each file's
    bytes in listed order when --md5 was given, no entry otherwise (one entry for a single file / stdin)"""
    files = c05.tree_paths(c["tree"], c.get("sort_by"))
    return [hashlib.md5(c05.content_of(f["size"], f["word"])).hexdigest() if c["md5"] else None for f in files]


def written_md5s(data):
    """the `md5sum` entries of the written file, read with the independent strict reader"""
    v, _ = lib.bdecode_strict(data)
    info = lib.dget(v, "info")
    fl = lib.dget(info, "files")
    got = [lib.dget(info, "md5sum")] if fl is None else [lib.dget(f, "md5sum") for f in fl]
    return [x.decode("latin-1") if isinstance(x, bytes) else (None if x is None else repr(x)) for x in got]


TEXT_LABELS = {"comment": "comment", "creation_date": "creation date", "created_by": "created by", "source": "source",
               "tracker": "tracker", "announce_list": "announce list", "update_url": "update url", "dht_nodes": "dht nodes"}
ALWAYS = ["name", "info hash", "torrent size", "content size", "private", "piece size", "piece count", "file count", "files"]


def judge_show(c, obs, runs, version):
    """the property on one case; returns the list of failures"""
    if obs["rc"] != 0 or obs["bytes"] is None:
        return ["create failed on a valid request (rc %s): %s" % (obs["rc"], obs["stderr"][-200:])]
    rc, out, err = runs["json"]
    if rc != 0:
        return ["show --json refuses the torrent create has just written (rc %s): %s" % (rc, err.decode("utf-8", "replace")[-200:])]
    try:
        got = json.loads(out.decode("utf-8"), object_pairs_hook=list)
    except Exception as e:
        return ["show --json output is not JSON: %r" % e]
    want, _ = expected_report(c, version)
    fails = []
    try:
        if written_md5s(obs["bytes"]) != expected_md5s(c):
            fails.append("md5sum entries of the written file %r, expected %r (hex MD5 of each file under --md5, none otherwise)"
                         % (written_md5s(obs["bytes"]), expected_md5s(c)))
    except Exception as e:
        fails.append("the written file cannot be read by the independent reader: %r" % e)
    if [k for k, _ in got] != list(want):
        fails.append("JSON fields %r, expected %r" % ([k for k, _ in got], list(want)))
    g = dict(got)
    for k, w in want.items():
        x = g.get(k)
        if w == ("date",):
            if isinstance(x, bool) or not isinstance(x, int) or not (obs["t0"] <= x <= obs["t1"]):
                fails.append("creation_date: %r, expected the clock of the create run, within [%d, %d]" % (x, obs["t0"], obs["t1"]))
        elif w == ("size",):
            if x != len(obs["bytes"]):
                fails.append("torrent_size: %r, the file has %d bytes" % (x, len(obs["bytes"])))
        elif isinstance(w, tuple) and w[0] == "created-by":
            if not (isinstance(x, str) and re.fullmatch(w[1], x)):
                fails.append("created_by: %r, expected imdl/<version>[ (<12 hex>)]" % (x,))
        elif isinstance(x, bool) != isinstance(w, bool) or x != w:
            fails.append("%s: show reports %r, the command line asked for %r" % (k, x, w))
    # text form: optional rows present exactly when the option was given
    if runs["tab"][0] == 0:
        lines = runs["tab"][1].decode("utf-8", "replace").split("\n")
        optional = [lab for key, lab in TEXT_LABELS.items() if want[key] not in (None, [])]
        present = [lab for lab in list(TEXT_LABELS.values()) + ALWAYS if sum(1 for ln in lines if ln.startswith(lab + "\t")) >= 1]
        if sorted(present) != sorted(optional + ALWAYS):
            fails.append("text rows %r, expected exactly %r" % (sorted(present), sorted(optional + ALWAYS)))
    else:
        fails.append("show (piped) fails on the created torrent: rc %s" % runs["tab"][0])
    if runs["term"][0] != 0:
        fails.append("show --terminal fails on the created torrent: rc %s" % runs["term"][0])
    return fails


# ---------------------------------------------------------------- running the real binary

def create_in(ctx, c, base, extra=()):
    """make the tree and run create in a fresh directory that is kept; returns (dir, obs)"""
    root = tempfile.mkdtemp(prefix="x5-", dir=base)
    c05.make_tree(root, c["tree"], "given")
    argv = c05.argv_of(c)
    argv = argv[:2] + list(extra) + argv[2:]
    stdin = b""
    if c["tree"]["kind"] == "stdin":
        f = c["tree"]["files"][0]
        stdin = c05.content_of(f["size"], f["word"])
    env = {"NO_COLOR": "1", "TERM": "dumb"}
    t0 = int(time.time())
    rc, out, err = ctx.imdl(argv, cwd=root, stdin=stdin, env=env, timeout=120)
    t1 = int(time.time())
    op = os.path.join(root, "out.torrent")
    data = open(op, "rb").read() if os.path.isfile(op) else None
    return root, {"argv": argv, "rc": rc, "bytes": data, "stdout": out, "stderr": err.decode("utf-8", "replace")[-400:],
                  "t0": t0, "t1": t1}


SHOW_ARGS = {"json": ["torrent", "show", "--input", "out.torrent", "--json"],
             "tab": ["torrent", "show", "--input", "out.torrent"],
             "term": ["--terminal", "torrent", "show", "--input", "out.torrent"]}


def eval_show(ctx, c, base, version):
    root, obs = create_in(ctx, c, base)
    try:
        runs = {}
        if obs["bytes"] is not None:
            for k, argv in SHOW_ARGS.items():
                runs[k] = ctx.imdl(argv, cwd=root, env={"NO_COLOR": "1"}, timeout=60)
        else:
            runs = {k: (1, b"", b"no torrent written") for k in SHOW_ARGS}
        return {"case": c, "obs": obs, "runs": runs, "fails": judge_show(c, obs, runs, version)}
    finally:
        shutil.rmtree(root, ignore_errors=True)


# ---------------------------------------------------------------- the model side

def observed_env(c, obs, version):
    """clock and git suffix for the model, read off the bytes the binary wrote (as C05 does)"""
    now, suffix = obs["t0"], b""
    try:
        v, _ = lib.bdecode_strict(obs["bytes"])
        d = lib.dget(v, "creation date")
        if isinstance(d, int) and not isinstance(d, bool) and d >= 0:
            now = d
        cb = lib.dget(v, "created by")
        pre = ("imdl/" + version).encode()
        if isinstance(cb, bytes) and cb.startswith(pre) and re.fullmatch(rb"( \([0-9a-f]{12}\))?", cb[len(pre):]):
            suffix = cb[len(pre):]
    except Exception:
        pass
    return now, suffix


def env_field(pairs):
    return ",".join("%s:%s" % (lib.hexs(k), lib.hexs(v)) for k, v in pairs) if pairs else "~"


def readback_env(c):
    """what the loader's url crate makes of the texts create stored: IPv6 hosts get their brackets back, stored URLs are
    already in normal form; tier members (stored as written) are normalised only by `link`"""
    env = []
    for h, _ in c["nodes"]:
        e = c05.host_expected(h)
        if ":" in e:
            env.append((b"H" + e.encode(), host_shown(h).encode()))
    for t in c["tiers"]:
        for u in t.split(","):
            if u in c05.URL_NORMALISING:
                env.append((b"U" + u.encode(), c05.URL_NORMALISING[u].encode()))
    return sorted(set(env))


def show_line(c, obs, version):
    now, suffix = observed_env(c, obs, version)
    mi = c05.model_line(c, now, suffix).split(" ")[1:]
    want, top = expected_report(c, version)
    env = readback_env(c)
    cal = c07.calendar(now)
    if cal is not None and cal != str(now):
        env.append((b"c%d" % now, cal.encode()))
    for n in {len(obs["bytes"]), want["content_size"], want["piece_size"]}:
        env.append((b"h%d" % n, c07.human(n).encode()))
    return " ".join(["x5show"] + mi + [lib.hexs(want["info_hash"].encode()), env_field(env)])


def md5_line(c, obs, version):
    now, suffix = observed_env(c, obs, version)
    mi = c05.model_line(c, now, suffix).split(" ")[1:]
    return " ".join(["x5md5"] + mi + [env_field(readback_env(c))])


def compare_md5(reply, res):
    """the MD5 texts the model's loader carries for the bytes vs the `md5sum` entries of the file the binary wrote"""
    parts = reply.split(" ")
    if len(parts) != 3 or parts[0] != "OK":
        return ["model (md5 values carried by the loader): %s" % reply[:200]]
    got = [] if parts[2] == "~" and parts[1] == "0" else [None if x == "~" else lib.unhex(x).decode("latin-1") for x in parts[2].split(",")]
    if str(len(got)) != parts[1]:
        return ["model runner: malformed md5 reply %s" % reply[:200]]
    try:
        wr = written_md5s(res["obs"]["bytes"])
    except Exception as e:
        return ["independent reader on the written file: %r" % e]
    if got != wr:
        return ["md5 values: the model's loader carries %r, the written file holds %r" % (got, wr)]
    return []


def compare_show(reply, res):
    obs, runs = res["obs"], res["runs"]
    if reply == "NONE":
        return ["the model of create refuses the request (build = None)"]
    parts = reply.split(" ")
    if parts[0] != "OK" or len(parts) not in (3, 5):
        return ["model runner: %s" % reply[:200]]
    diffs = []
    if lib.unhex(parts[1]) != obs["bytes"]:
        diffs.append("bytes written differ: " + c07.first_diff(obs["bytes"], lib.unhex(parts[1])))
    if len(parts) == 3:
        diffs.append("model: show %s the created bytes, binary prints a report" % ("rejects" if parts[2] == "REJ" else "panics on"))
        return diffs
    _, _, j, tab, term = parts
    try:
        got = json.loads(runs["json"][1].decode("utf-8"), object_pairs_hook=list)
        if c07.parse_jv(j) != [(k, v) for k, v in got]:
            diffs.append("JSON rows differ: model %r, binary %r" % (c07.parse_jv(j), got))
    except Exception as e:
        diffs.append("binary JSON unparseable: %r" % e)
    if runs["tab"][0] == 0 and lib.unhex(tab) != runs["tab"][1]:
        diffs.append("tab-delimited bytes differ: " + c07.first_diff(runs["tab"][1], lib.unhex(tab)))
    if runs["term"][0] == 0 and lib.unhex(term) != runs["term"][1]:
        diffs.append("terminal bytes differ: " + c07.first_diff(runs["term"][1], lib.unhex(term)))
    return diffs


def case_record(c, obs, **kw):
    rec = {"e2e": kw.pop("e2e"), "options": {k: c[k] for k in c05.OPTION_NAMES + ["allow", "output"]}, "tree": c["tree"],
           "style": c["style"], "create_argv": ["imdl"] + obs["argv"], "create_rc": obs["rc"], "create_stderr": obs["stderr"],
           "torrent_hex": obs["bytes"].hex() if obs["bytes"] is not None else None,
           "reproduce": c05.shell_repro(c) + " && " + kw.pop("then")}
    rec.update(kw)
    return rec


def shrink_case(ctx, c, fails_fn):
    return c05.shrink(ctx, c, None, fails_fn, budget=40)


def run_show(ctx, n):
    """the show half; called from c07.run. Returns nothing; records violations / counts on ctx."""
    version = c05.repo_version()
    cases = gen_cases(ctx, n)
    base = tempfile.mkdtemp(prefix="x5-show-")
    try:
        results = lib.pmap(lambda c: eval_show(ctx, c, base, version), cases)
        ok = [r for r in results if r["obs"]["bytes"] is not None]
        replies = dict(zip([id(r) for r in ok], ctx.model([show_line(r["case"], r["obs"], version) for r in ok])))
        md5_replies = dict(zip([id(r) for r in ok], ctx.model([md5_line(r["case"], r["obs"], version) for r in ok])))
        for res in results:
            c, obs = res["case"], res["obs"]
            ctx.cov["evaluations"] += 1
            ctx.cov["traces_validated_against_impl"] += 1
            ctx.count("x5_create_show")
            ctx.count("x5_md5_%s" % ("given" if c["md5"] else "not_given"))
            ctx.count("x5_tree_" + c["tree"]["kind"])
            ctx.count("x5_options_given_%02d" % len(c05.given_options(c)))
            ctx.distinct(("e2e", c05.given_options(c), c["tree"]["kind"], len(c["tree"]["files"])))
            then = "imdl torrent show --input out.torrent --json; imdl torrent show --input out.torrent | cat"
            if res["fails"]:
                def still(t):
                    t = dict(t); t["output"] = "path"
                    return bool(eval_show(ctx, t, base, version)["fails"])
                small = shrink_case(ctx, c, still); small["output"] = "path"
                rr = eval_show(ctx, small, base, version)
                if not rr["fails"]:
                    small, rr = c, res
                ctx.violation("oracle-failure", "show of a created torrent misreports the request: " + "; ".join(rr["fails"][:3])[:400],
                              case_record(small, rr["obs"], e2e="show", then=then, failures=rr["fails"],
                                          json_stdout=rr["runs"]["json"][1].decode("utf-8", "replace")[:3000],
                                          expected={k: (v if not isinstance(v, tuple) else list(v)) for k, v in expected_report(small, version)[0].items()}))
                continue
            diffs = compare_show(replies[id(res)], res) + compare_md5(md5_replies[id(res)], res)
            if diffs:
                ctx.cov["disagreements_checked"] += 1
                ctx.violation("model-impl-disagreement", "create->show composition and the binary differ: " + diffs[0][:300],
                              case_record(c, obs, e2e="show", then=then, diffs=diffs, model=replies[id(res)][:1500],
                                          model_md5=md5_replies[id(res)][:600],
                                          json_stdout=res["runs"]["json"][1].decode("utf-8", "replace")[:3000]))
        ctx.assumptions.append(
            "end to end with create: the url crate reads back what it printed - Url::parse(norm u).to_string() = norm u for the stored "
            "--update-url, Host::parse of a stored node host followed by Display gives the host back (IPv6 in brackets); the oracle "
            "states the report from the command line with these, every case is compared with the binary")
    finally:
        shutil.rmtree(base, ignore_errors=True)


# ================================================================================================ link

def gen_link_extras(r):
    peers = [r.choice(PEERS) for _ in range(r.choice([0, 0, 1, 2]))]
    sel = [r.choice([0, 1, 2, 3, 7, 2 ** 40]) for _ in range(r.choice([0, 0, 1, 2, 3]))]
    return peers, sel


def expected_link(c, version, peers, sel):
    """the decoded parameters the property asks for, from the command line alone"""
    want, top = expected_report(c, version)
    texts, seen = [], set()
    for t in ([] if c["announce"] is None else [c05.url_expected(c["announce"])]) + [u for tier in c["tiers"] for u in tier.split(",")]:
        if t not in seen:
            seen.add(t); texts.append(t)
    pairs = [("xt", "urn:btih:" + want["info_hash"]), ("dn", want["name"])]
    pairs += [("tr", c05.url_expected(t)) for t in texts]      # Url::parse of the stored text, printed
    pairs += [("x.pe", p) for p in peers]
    if sel:
        pairs.append(("so", ",".join(str(i) for i in sorted(set(sel)))))
    return pairs, top


def parse_link(text, plus):
    """standard query-string reading with urllib (either `+` convention)"""
    if not text.startswith("magnet:?"):
        return None
    q = text[len("magnet:?"):]
    if plus:
        return urllib.parse.parse_qsl(q, keep_blank_values=True, strict_parsing=False, encoding="utf-8", errors="surrogateescape")
    out = []
    for seg in q.split("&"):
        k, _, v = seg.partition("=")
        out.append((urllib.parse.unquote(k, errors="surrogateescape"), urllib.parse.unquote(v, errors="surrogateescape")))
    return out


def eval_link(ctx, c, base, version):
    peers, sel = c["_peers"], c["_sel"]
    extra = ["--link"] + [a for p in peers for a in ("--peer", p)]
    root, obs = create_in(ctx, c, base, extra)
    try:
        res = {"case": c, "obs": obs, "fails": []}
        if obs["rc"] != 0 or obs["bytes"] is None:
            res["fails"] = ["create --link failed on a valid request (rc %s): %s" % (obs["rc"], obs["stderr"][-200:])]
            return res
        argv = ["torrent", "link", "--input", "out.torrent"] + [a for p in peers for a in ("--peer", p)]
        if sel:
            argv += ["--select-only", ",".join(str(i) for i in sel)]
        rc, out, err = ctx.imdl(argv, cwd=root, env={"NO_COLOR": "1"}, timeout=60)
        res["link"] = (rc, out, err)
        res["link_argv"] = argv
        clink = [ln for ln in obs["stdout"].decode("utf-8", "replace").split("\n") if ln.startswith("magnet:")]
        res["create_link"] = clink[0] if len(clink) == 1 else None
        if rc != 0:
            res["fails"].append("link refuses the torrent create has just written (rc %s): %s" % (rc, err.decode("utf-8", "replace")[-200:]))
            return res
        text = out.decode("utf-8", "replace").rstrip("\n")
        res["link_text"] = text
        want, _ = expected_link(c, version, peers, sel)
        for plus in (True, False):
            got = parse_link(text, plus)
            if got != want:
                res["fails"].append("link decodes (%s) to %r, the command line asks for %r" % ("+ as space" if plus else "+ literal", got, want))
                break
        if res["create_link"] is None:
            res["fails"].append("create --link printed %d magnet lines" % len(clink))
        else:
            wc, _ = expected_link(c, version, peers, [])
            if parse_link(res["create_link"], True) != wc:
                res["fails"].append("create --link decodes to %r, the command line asks for %r" % (parse_link(res["create_link"], True), wc))
            if not sel and res["create_link"] != text:
                res["fails"].append("create --link printed %r, link of the written file prints %r" % (res["create_link"], text))
        return res
    finally:
        shutil.rmtree(root, ignore_errors=True)


def link_line(c, obs, version):
    now, suffix = observed_env(c, obs, version)
    mi = c05.model_line(c, now, suffix).split(" ")[1:]
    want, top = expected_report(c, version)
    span = lib.bencode(top[b"info"])
    sha = "%s:%s" % (lib.hexs(span), lib.hexs(hashlib.sha1(span).digest()))
    return " ".join(["x5link"] + mi + [sha, env_field(readback_env(c)), lib.hexlist([p.encode() for p in c["_peers"]]),
                                       ",".join(str(i) for i in c["_sel"]) or "~", DEPTH])


def compare_link(reply, res):
    if reply == "NONE":
        return ["the model of create refuses the request (build = None)"]
    parts = reply.split(" ")
    if parts[0] != "OK" or len(parts) != 5:
        return ["model runner: %s" % reply[:200]]
    _, tb, span, l1, l2 = parts
    diffs = []
    if lib.unhex(tb) != res["obs"]["bytes"]:
        diffs.append("bytes written differ")
    try:
        if span == "~" or lib.unhex(span) != lib.info_span(res["obs"]["bytes"]):
            diffs.append("the span the model hashes is not the info span of the written file")
    except Exception as e:
        diffs.append("independent reader cannot locate the info span: %r" % e)
    if l1 == "~" or lib.unhex(l1).decode("utf-8", "replace") != res.get("link_text"):
        diffs.append("link of the file: model %r, binary %r" % (None if l1 == "~" else lib.unhex(l1).decode("utf-8", "replace"), res.get("link_text")))
    if l2 == "~" or lib.unhex(l2).decode("utf-8", "replace") != res.get("create_link"):
        diffs.append("create --link: model %r, binary %r" % (None if l2 == "~" else lib.unhex(l2).decode("utf-8", "replace"), res.get("create_link")))
    return diffs


def run_link(ctx, n):
    """the link half; called from c10.run"""
    version = c05.repo_version()
    cases = gen_cases(ctx, n)
    import random
    for c in cases:
        c["_peers"], c["_sel"] = gen_link_extras(random.Random(c["style"]))
    base = tempfile.mkdtemp(prefix="x5-link-")
    try:
        results = lib.pmap(lambda c: eval_link(ctx, c, base, version), cases)
        ok = [r for r in results if r["obs"]["bytes"] is not None]
        replies = dict(zip([id(r) for r in ok], ctx.model([link_line(r["case"], r["obs"], version) for r in ok])))
        for res in results:
            c, obs = res["case"], res["obs"]
            ctx.cov["evaluations"] += 1
            ctx.cov["traces_validated_against_impl"] += 1
            ctx.count("x5_create_link")
            ctx.count("x5_tree_" + c["tree"]["kind"])
            if c["_sel"]:
                ctx.count("x5_link_select_only")
            if len({u for t in c["tiers"] for u in t.split(",")} | ({c["announce"]} if c["announce"] else set())) < \
                    len([u for t in c["tiers"] for u in t.split(",")]) + (1 if c["announce"] else 0):
                ctx.count("x5_link_repeated_tracker")
            ctx.distinct(("e2e-link", c05.given_options(c), c["tree"]["kind"], len(c["_peers"]), bool(c["_sel"])))
            then = "imdl " + " ".join(shlex.quote(a) for a in res.get("link_argv", ["torrent", "link", "--input", "out.torrent"]))
            create_then = c05.shell_repro(c).replace("imdl torrent create", "imdl torrent create --link" + "".join(" --peer " + shlex.quote(p) for p in c["_peers"]))
            if res["fails"]:
                def still(t):
                    t = dict(t); t["output"] = "path"; t["_peers"], t["_sel"] = c["_peers"], c["_sel"]
                    return bool(eval_link(ctx, t, base, version)["fails"])
                small = shrink_case(ctx, c, still); small["output"] = "path"; small["_peers"], small["_sel"] = c["_peers"], c["_sel"]
                rr = eval_link(ctx, small, base, version)
                if not rr["fails"]:
                    small, rr = c, res
                rec = case_record(small, rr["obs"], e2e="link", then=then, failures=rr["fails"], peers=c["_peers"], select_only=c["_sel"],
                                  link_stdout=rr.get("link_text"), create_link_stdout=rr.get("create_link"),
                                  expected=expected_link(small, version, c["_peers"], c["_sel"])[0])
                rec["reproduce"] = create_then + " && " + then
                ctx.violation("oracle-failure", "link of a created torrent does not carry the request: " + "; ".join(rr["fails"][:2])[:400], rec)
                continue
            diffs = compare_link(replies[id(res)], res)
            if diffs:
                ctx.cov["disagreements_checked"] += 1
                rec = case_record(c, obs, e2e="link", then=then, diffs=diffs, model=replies[id(res)][-1500:], peers=c["_peers"],
                                  select_only=c["_sel"], link_stdout=res.get("link_text"), create_link_stdout=res.get("create_link"))
                ctx.violation("model-impl-disagreement", "create->link composition and the binary differ: " + diffs[0][:300], rec)
        ctx.assumptions.append(
            "end to end with create: SHA-1 is instantiated by hashlib on the one span that is hashed (the oracle's own encoding of the "
            "expected info dictionary; the model must hash exactly that); Url::parse of a stored tracker text printed back is the text "
            "itself for the generated normal-form URLs and the recorded normal form otherwise")
    finally:
        shutil.rmtree(base, ignore_errors=True)


def replay(ctx, case):
    """re-run one recorded end-to-end case on the real binary and the model"""
    ctx.need_rust(); ctx.need_runner()
    version = c05.repo_version()
    c = dict(case["options"]); c["tree"] = case["tree"]; c["style"] = case["style"]; c["expect_reject"] = None; c["output"] = "path"
    base = tempfile.mkdtemp(prefix="x5-replay-")
    try:
        if case["e2e"] == "show":
            res = eval_show(ctx, c, base, version)
            print("create:", " ".join(shlex.quote(a) for a in ["imdl"] + res["obs"]["argv"]), "-> rc", res["obs"]["rc"])
            for k, (rc, out, err) in res["runs"].items():
                print("show %-5s rc=%d %s" % (k, rc, out.decode("utf-8", "replace")[:1500]))
            print("expected:", expected_report(c, version)[0])
            print("oracle  :", res["fails"])
            if res["obs"]["bytes"] is not None:
                m = ctx.model([show_line(c, res["obs"], version)])[0]
                print("model   :", m[:1500]); print("compare :", compare_show(m, res))
                m5 = ctx.model([md5_line(c, res["obs"], version)])[0]
                print("md5     : expected", expected_md5s(c), "written", written_md5s(res["obs"]["bytes"]), "model", m5[:600],
                      "compare", compare_md5(m5, res))
        else:
            c["_peers"], c["_sel"] = case.get("peers", []), case.get("select_only", [])
            res = eval_link(ctx, c, base, version)
            print("create:", " ".join(shlex.quote(a) for a in ["imdl"] + res["obs"]["argv"]), "-> rc", res["obs"]["rc"])
            print("create --link:", res.get("create_link")); print("link         :", res.get("link_text"))
            print("expected:", expected_link(c, version, c["_peers"], c["_sel"])[0])
            print("oracle  :", res["fails"])
            if res["obs"]["bytes"] is not None:
                m = ctx.model([link_line(c, res["obs"], version)])[0]
                print("model   :", m[-1500:]); print("compare :", compare_link(m, res))
    finally:
        shutil.rmtree(base, ignore_errors=True)
    return 0
