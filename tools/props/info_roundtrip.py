"""X16 (C11): the tie between Model/InfoRoundTrip.v and serde's typed round trip of the Info dictionary as the real peer
client runs it (`verify_info_dict`: from_bytes::<Info> then to_bytes; what the `peer_fetch` hook returns IS that
re-serialisation).

Three independent voices per dictionary d:
  * the extracted model: `info_norm` (verdict + bytes) and the syntactic predicates `typed_normal`,
    `modelled_keys_only`, `c11_known_class`;
  * this module's own reading of serde/bendy/hex/FilePath (`py_norm`, written from the Rust sources, never from the
    Coq text), with the url crate itself (the `urlnorm` hook: Url::parse + to_string) for the update-url text;
  * the real client: a scripted honest peer serves d, the magnet asks for sha1(candidate) - the client answers with
    the candidate exactly when the candidate is its re-serialisation of d (SHA-1 collisions aside).
"""
import hashlib, struct, sys
import lib

sys.setrecursionlimit(max(sys.getrecursionlimit(), 20000))      # the nesting bound of 2048 is probed from both sides

MODELLED = [b"files", b"length", b"md5sum", b"name", b"piece length", b"pieces", b"private", b"source", b"update-url"]
FILE_KEYS = [b"length", b"md5sum", b"path"]
I63, U64 = 1 << 63, 1 << 64


# ---------------------------------------------------------------- the oracle's own round trip (from the Rust sources)

class Reject(Exception):
    pass


def _utf8(b):
    if not isinstance(b, bytes):
        raise Reject("not a string")
    try:
        b.decode("utf-8")
    except UnicodeDecodeError:
        raise Reject("not utf-8")
    return b


def _all_i64(v):
    if isinstance(v, int):
        return -I63 <= v < I63
    if isinstance(v, list):
        return all(_all_i64(x) for x in v)
    if isinstance(v, tuple):
        return all(_all_i64(x) for _, x in v[1])
    return True


def _depth(v):
    if isinstance(v, list):
        return 1 + max([_depth(x) for x in v] or [0])
    if isinstance(v, tuple):
        return 1 + max([_depth(x) for _, x in v[1]] or [0])
    return 0


def _md5(v):
    s = _utf8(v)
    if len(s) != 32 or any(c not in b"0123456789abcdefABCDEF" for c in s):
        raise Reject("md5")
    return s.lower()


def _buffered_u64(v):
    if not isinstance(v, int) or not (0 <= v < I63):
        raise Reject("length")
    return v


def _path(v):
    if not isinstance(v, list):
        raise Reject("path")
    out = []
    for c in v:
        c = _utf8(c)
        if c in (b"", b".", b"..") or b"/" in c:
            raise Reject("component")
        out.append(c)
    return out


def _file(v):
    if isinstance(v, tuple):
        d = dict(v[1])
        if b"length" not in d or b"path" not in d:
            raise Reject("file")
        f = [(b"length", _buffered_u64(d[b"length"]))]
        if b"md5sum" in d:
            f.append((b"md5sum", _md5(d[b"md5sum"])))
        f.append((b"path", _path(d[b"path"])))
        return ("d", f)
    if isinstance(v, list) and 2 <= len(v) <= 3:            # serde's sequence form of a struct read from buffered content
        f = [(b"length", _buffered_u64(v[0]))]
        p = _path(v[1])
        if len(v) == 3:
            f.append((b"md5sum", _md5(v[2])))
        f.append((b"path", p))
        return ("d", f)
    raise Reject("file shape")


def py_norm(b, url_of):
    """("OK", bytes) | ("REJECT", why) | ("UNKNOWN", why): own statement of from_bytes::<Info> then to_bytes.
    url_of: text bytes -> normalised bytes | None (the url crate itself, through the urlnorm hook); a text that was not
    looked up gives UNKNOWN."""
    try:
        v, _ = lib.bdecode_strict(b)                        # trailing bytes are not looked at
    except Exception as e:
        return ("REJECT", "bencode: %r" % (e,))
    try:
        if not (isinstance(v, tuple) and v[0] == "d"):
            raise Reject("not a dictionary")
        if _depth(v) > 2048:
            raise Reject("nesting")
        d = dict(v[1])
        out = {}
        for k, x in v[1]:
            _utf8(k)
            if k not in (b"private", b"piece length", b"name", b"source", b"pieces", b"update-url") and not _all_i64(x):
                raise Reject("buffered integer outside i64")
        if b"private" in d:
            if d[b"private"] not in (0, 1) or not isinstance(d[b"private"], int):
                raise Reject("private")
            out[b"private"] = d[b"private"]
        pl = d.get(b"piece length")
        if not isinstance(pl, int) or not (0 <= pl < U64):
            raise Reject("piece length")
        out[b"piece length"] = pl
        if b"name" not in d:
            raise Reject("name")
        out[b"name"] = _utf8(d[b"name"])
        if b"source" in d:
            out[b"source"] = _utf8(d[b"source"])
        ps = d.get(b"pieces")
        if not isinstance(ps, bytes) or len(ps) % 20:
            raise Reject("pieces")
        out[b"pieces"] = ps
        mode = None
        try:                                                # untagged: Single first
            if b"length" not in d:
                raise Reject("no length")
            single = {b"length": _buffered_u64(d[b"length"])}
            if b"md5sum" in d:
                single[b"md5sum"] = _md5(d[b"md5sum"])
            mode = single
        except Reject:
            fs = d.get(b"files")
            if not isinstance(fs, list):
                raise Reject("neither Single nor Multiple")
            mode = {b"files": [_file(f) for f in fs]}
        out.update(mode)
        if b"update-url" in d:
            t = _utf8(d[b"update-url"])
            if t not in url_of:
                return ("UNKNOWN", "url not looked up")
            if url_of[t] is None:
                raise Reject("url")
            out[b"update-url"] = url_of[t]
        return ("OK", lib.bencode(out))
    except Reject as e:
        return ("REJECT", str(e))


def py_modelled_keys_only(b):
    """canonical dictionary, nothing after it, only the keys imdl models (file entries: dictionaries of their three keys)"""
    try:
        v, end = lib.bdecode_strict(b)
    except Exception:
        return False
    if end != len(b) or not (isinstance(v, tuple) and v[0] == "d"):
        return False
    if any(k not in MODELLED for k, _ in v[1]):
        return False
    fs = lib.dget(v, b"files")
    if fs is None:
        return True
    return isinstance(fs, list) and all(isinstance(f, tuple) and all(k in FILE_KEYS for k, _ in f[1]) for f in fs)


def url_texts_of(dicts):
    out = set()
    for b in dicts:
        try:
            v, _ = lib.bdecode_strict(b)
            t = lib.dget(v, b"update-url")
            if isinstance(t, bytes):
                t.decode("utf-8"); out.add(t)
        except Exception:
            pass
    return sorted(out)


def crate_urls(ctx, texts):
    """text -> what Url::parse(text).to_string() gives (None: parse error), from the real url crate"""
    replies = ctx.harness(["urlnorm %s" % lib.hexs(t) for t in texts])
    out = {}
    for t, r in zip(texts, replies):
        if r.startswith("OK "):
            out[t] = lib.unhex(r[3:])
        elif r.startswith("ERR"):
            out[t] = None
    return out


# ---------------------------------------------------------------- the structured generator over the Info schema

def _ben_raw(v):
    """like lib.bencode, with ('raw', bytes) spliced in verbatim (non-canonical spellings)"""
    if isinstance(v, tuple) and v[0] == "raw":
        return v[1]
    if isinstance(v, list):
        return b"l" + b"".join(_ben_raw(x) for x in v) + b"e"
    if isinstance(v, tuple) and v[0] == "d":
        return b"d" + b"".join(lib.bencode(k) + _ben_raw(x) for k, x in v[1]) + b"e"
    return lib.bencode(v)


MD5S = ["0123456789abcdef0123456789abcdef", "0123456789ABCDEF0123456789ABCDEF", "0123456789abcdeF0123456789Abcdef",
        "d41d8cd98f00b204e9800998ecf8427e", "D41D8CD98F00B204E9800998ECF8427E", "00000000000000000000000000000000",
        "ffffffffffffffffffffffffffffffff", "FFFFFFFFFFFFFFFFFFFFFFFFFFFFFFFF", "0123456789abcdef0123456789abcde", "0123456789abcdef0123456789abcdef0",
        "g123456789abcdef0123456789abcdef", "", "0x23456789abcdef0123456789abcdef", "0123456789abcdef 123456789abcdef",
        "\u00e9123456789abcdef0123456789abcde"]
GOOD_URLS = ["https://example.com/update", "http://example.com/", "udp://tracker.example:6969/announce", "udp://tracker.example:6969",
             "http://a.b/c?d=e#f", "wss://h:8443/", "x://h", "http://127.0.0.1:8080/a/b", "http://[::1]/"]
ODD_URLS = ["http://example.com", "http://EXAMPLE.com/x", "HTTP://example.com/", "http://example.com:80/", "https://example.com:443/x",
            "http://example.com/a/../b", "http://example.com/a/./b", "http://example.com/a b", " http://example.com/", "http://example.com/\t",
            "http:example.com", "http:\\\\example.com\\x", "udp://TRACKER.example:6969", "http://user:@example.com/", "http://example.com/%7e",
            "http://example.com/?q=a b", "http://0x7f.1/", "http://example.com:080/", "", "not a url", "mailto:x@y", "file:///etc/passwd",
            "http://b\u00fccher.example/", "http://example.com/\u00e9", "//example.com/", "http://", "http://[::1", "http://a b/"]


def gen_structured(ctx, urlcorpus):
    """every key present/absent, both modes, 0..many files, md5 upper/lower/mixed, private 0/1/2/absent, normal and non-normal
    update-urls (X10 corpus + the lists above), unknown keys, non-canonical spellings. Returns [(label, bytes)]."""
    r = ctx.rng
    out = []

    def name():
        return r.choice(["n", "", "a b", "x.iso", "dir", "\u00e9t\u00e9", "n" * 70, ".", "..", "a/b"]).encode()

    def pieces():
        return bytes(r.getrandbits(8) for _ in range(20 * r.choice([0, 0, 1, 2, 5])))

    def length():
        return r.choice([0, 1, 5, 16384, (1 << 32) - 1, 1 << 32, (1 << 53) + 1, I63 - 1, r.randrange(0, 1 << 40)])

    def comp():
        return r.choice(["a", "b", "f.bin", "d1", "x y", "\u00fc", "a" * 40, "...", ".a", "a.", "~", "\x00", "\\"]).encode()

    def file_entry(md5mode):
        f = [(b"length", length())]
        if md5mode != "absent":
            f.append((b"md5sum", r.choice(MD5S[:8] if md5mode == "valid" else MD5S).encode()))
        f.append((b"path", [comp() for _ in range(r.choice([1, 1, 2, 3, 0]))]))
        return ("d", f)

    def base(multi=None, md5mode=None, private="absent", source=False, url=None, nfiles=None):
        multi = r.random() < 0.45 if multi is None else multi
        md5mode = r.choice(["absent", "absent", "valid"]) if md5mode is None else md5mode
        d = {b"name": name(), b"piece length": r.choice([16384, 32768, 1 << 20, 1, 0, 7, (1 << 32) - 1]), b"pieces": pieces()}
        if multi:
            n = r.choice([0, 1, 1, 2, 3, 8]) if nfiles is None else nfiles
            d[b"files"] = [file_entry(md5mode) for _ in range(n)]
        else:
            d[b"length"] = length()
            if md5mode != "absent":
                d[b"md5sum"] = r.choice(MD5S[:8] if md5mode == "valid" else MD5S).encode()
        if private != "absent":
            d[b"private"] = private
        if source:
            d[b"source"] = r.choice(["SRC", "", "x", "tracker.example", "s\u00f8urce"]).encode()
        if url is not None:
            d[b"update-url"] = url if isinstance(url, bytes) else url.encode()
        return d

    def emit(label, d, raw=None):
        b = raw if raw is not None else _ben_raw(("d", sorted(d.items())))
        out.append((label, b)); ctx.count("info_" + label)

    urls_good = [u.encode() for u in GOOD_URLS]
    urls_any = urls_good + [u.encode() for u in ODD_URLS] + [u for u in urlcorpus]
    n_sys = 0
    # systematic: optional keys x modes x md5 x private
    for multi in (False, True):
        for md5mode in ("absent", "valid", "any"):
            for private in ("absent", 0, 1, 2, -1):
                for source in (False, True):
                    for url in (None, r.choice(urls_good), r.choice(urls_any)):
                        emit("systematic", base(multi, md5mode, private, source, url)); n_sys += 1
    # every url of the corpus under `update-url`
    for u in urls_any:
        emit("url", base(url=u))
    for nf in (0, 1, 2, 5, 40):
        for md5mode in ("absent", "valid", "any"):
            emit("files-%d" % min(nf, 9), base(True, md5mode, nfiles=nf))
    n = ctx.n(3200, 30000)
    while len(out) < n:
        k = r.random()
        d = base(private=r.choice(["absent", "absent", 0, 1, 1, 2]), source=r.random() < 0.3,
                 url=r.choice([None, None, r.choice(urls_good), r.choice(urls_any)]), md5mode=r.choice(["absent", "valid", "valid", "any"]))
        if k < 0.45:
            emit("random", d)
        elif k < 0.60:                                      # unknown keys of every type, before / between / after the known ones
            for _ in range(r.randrange(1, 4)):
                d[r.choice(["a", "zzz", "meta version", "piece layers", "file tree", "name.utf-8", "publisher", "md5", "Length", "\u00e9",
                            "private ", "pieces root", "collections", "similar"]).encode()] = r.choice(
                    [0, -1, I63 - 1, -I63, I63, b"", b"\xff\xfe", [1, b"x", []], ("d", [(b"a", ("d", [(b"b", [0])]))]), b"text", [I63]])
            emit("unknown-keys", d)
        elif k < 0.70:                                      # wrong types / ranges under the modelled keys
            key = r.choice([b"name", b"piece length", b"pieces", b"length", b"files", b"private", b"source", b"update-url", b"md5sum"])
            d[key] = r.choice([0, 1, -1, I63, U64 - 1, U64, b"", b"x", b"\xff", [], [b"a"], ("d", []), b"a" * 19, [[5, [b"a"]]], [[5, [b"a"], b"0" * 32]],
                               [[5, [b"a"], b"0" * 32, 1]], [("d", [(b"length", 1)])], [("d", [(b"length", I63), (b"path", [b"a"])])]])
            emit("mistyped-" + key.decode().replace(" ", "-"), d)
        elif k < 0.76:                                      # both modes at once / mode keys in odd combinations
            d2 = base(not (b"files" in d), r.choice(["absent", "valid", "any"]))
            for key in (b"files", b"length", b"md5sum"):
                if key in d2 and r.random() < 0.8:
                    d.setdefault(key, d2[key])
            if r.random() < 0.3:
                d.pop(b"length", None)
            emit("mixed-modes", d)
        elif k < 0.82:                                      # file entries: unknown / non-UTF-8 keys, sequence form, missing fields
            fs = []
            for _ in range(r.randrange(1, 4)):
                f = dict(file_entry(r.choice(["absent", "valid", "any"]))[1])
                c = r.random()
                if c < 0.3:
                    f[r.choice([b"attr", b"\xff", b"zz", b"path.utf-8"])] = r.choice([1, b"x", [b"y"], I63])
                    fs.append(("d", sorted(f.items())))
                elif c < 0.5:
                    fs.append([f[b"length"], f[b"path"]] + ([f[b"md5sum"]] if b"md5sum" in f else []) + ([1] if r.random() < 0.1 else []))
                elif c < 0.6:
                    f.pop(r.choice([b"length", b"path"])); fs.append(("d", sorted(f.items())))
                else:
                    fs.append(("d", sorted(f.items())))
            d.pop(b"length", None); d.pop(b"md5sum", None); d[b"files"] = fs
            emit("file-entries", d)
        elif k < 0.88:                                      # a required key missing
            d.pop(r.choice([b"name", b"piece length", b"pieces", r.choice([b"length", b"files"])]), None)
            emit("missing-key", d)
        else:                                               # non-canonical spellings of an otherwise fine dictionary
            items = sorted(d.items())
            c = r.choice(["reversed", "swapped", "duplicate", "leading-zero-int", "minus-zero", "leading-zero-len", "trailing", "truncated",
                          "not-dict", "nonutf8-key", "plus-int", "empty-int", "space"])
            good = _ben_raw(("d", items))
            if c == "reversed":
                raw = _ben_raw(("d", list(reversed(items))))
            elif c == "swapped" and len(items) > 1:
                i = r.randrange(len(items) - 1); items[i], items[i + 1] = items[i + 1], items[i]; raw = _ben_raw(("d", items))
            elif c == "duplicate":
                i = r.randrange(len(items)); raw = _ben_raw(("d", items[:i + 1] + items[i:]))
            elif c == "leading-zero-int":
                raw = good.replace(b"12:piece lengthi", b"12:piece lengthi0", 1)
            elif c == "minus-zero":
                d2 = dict(d); d2[b"private"] = ("raw", b"i-0e"); raw = _ben_raw(("d", sorted(d2.items())))
            elif c == "leading-zero-len":
                raw = good.replace(b"4:name", b"04:name", 1)
            elif c == "trailing":
                raw = good + r.choice([b"e", b"junk", b"\x00", good, b"i1e"])
            elif c == "truncated":
                raw = good[:r.randrange(0, len(good))]
            elif c == "not-dict":
                raw = r.choice([b"le", b"i1e", b"4:spam", b"", b"l" + good + b"e"])
            elif c == "nonutf8-key":
                raw = _ben_raw(("d", sorted(items + [(b"\xff\xfe", 1)])))
            elif c == "plus-int":
                raw = good.replace(b"12:piece lengthi", b"12:piece lengthi+", 1)
            elif c == "empty-int":
                d2 = dict(d); d2[b"private"] = ("raw", b"ie"); raw = _ben_raw(("d", sorted(d2.items())))
            else:
                raw = good.replace(b"12:piece lengthi", b"12:piece lengthi ", 1)
            emit("noncanonical-" + c, None, raw=raw)
    # fixed corpus: the cases established by hand against the real client while the model was written (X16)
    fixed = [
        b"d6:lengthi5e4:name1:x12:piece lengthi16384e6:pieces0:7:privatei0ee",
        b"d6:lengthi5e4:name1:x12:piece lengthi9223372036854775808e6:pieces0:e",
        b"d6:lengthi5e4:name1:x12:piece lengthi18446744073709551615e6:pieces0:e",
        b"d6:lengthi5e4:name1:x12:piece lengthi18446744073709551616e6:pieces0:e",
        b"d6:lengthi9223372036854775808e4:name1:x12:piece lengthi16384e6:pieces0:e",
        b"d6:lengthi9223372036854775807e4:name1:x12:piece lengthi16384e6:pieces0:e",
        b"d5:filesle6:lengthi5e4:name1:x12:piece lengthi16384e6:pieces0:e",
        b"d5:filesle6:md5sum32:000102030405060708090a0b0c0d0e0f4:name1:x12:piece lengthi16384e6:pieces0:e",
        b"d5:filesle6:lengthi5e6:md5sum2:zz4:name1:x12:piece lengthi16384e6:pieces0:e",
        b"d5:filesld6:lengthi5e4:pathleee4:name1:x12:piece lengthi16384e6:pieces0:e",
        b"d5:filesld6:lengthi9223372036854775807e4:pathl1:aeed6:lengthi9223372036854775807e4:pathl1:beed6:lengthi9223372036854775807e4:pathl1:ceee4:name1:x12:piece lengthi16384e6:pieces0:e",
        b"d6:lengthi5e4:name1:x12:piece lengthi16384e6:pieces0:3:zzzi9223372036854775808ee",
        b"d6:lengthi5e4:name1:x12:piece lengthi16384e6:pieces0:3:zzz" + b"l" * 2047 + b"e" * 2047 + b"e",
        b"d6:lengthi5e4:name1:x12:piece lengthi16384e6:pieces0:3:zzz" + b"l" * 2048 + b"e" * 2048 + b"e",
    ]
    for b in fixed:
        out.append(("fixed", b)); ctx.count("info_fixed")
    return out


# ---------------------------------------------------------------- model replies

def parse_info_norm(reply):
    f = reply.split(" ")
    if f[0] != "OK" or len(f) != 6:
        return None
    return dict(code=int(f[1]), bytes=lib.unhex(f[2]), typed_normal=f[3] == "1", modelled_keys=f[4] == "1", known_class=f[5] == "1")


def model_info_norm(ctx, dicts):
    """dictionary bytes -> parsed model reply (None: the runner failed on it)"""
    uniq = sorted(set(dicts))
    replies = ctx.model(["info_norm %s" % lib.hexs(d) for d in uniq])
    return {d: parse_info_norm(r) for d, r in zip(uniq, replies)}


def url_corpus(ctx, n):
    """update-url texts from the X10 corpus (tools/props/urlnorm.py: fixed rows of C05, generated trackers, composed and
    edited URLs), as bytes"""
    from props import urlnorm, c05, c10, c17
    r = ctx.rng
    out = []
    seen = set()

    def add(s):
        b = s.encode("utf-8") if isinstance(s, str) else s
        if b not in seen and len(b) < 300:
            seen.add(b); out.append(b)
    for u in list(c05.URLS) + sorted(c05.URL_NORMALISING) + list(c05.URL_NORMALISING.values()) + list(c05.BAD_URLS):
        add(u)
    guard = 0
    while len(out) < n and guard < 20 * n:
        guard += 1
        k = r.random()
        if k < 0.3:
            add(c10.gen_tracker(r))
        elif k < 0.45:
            add(urlnorm.edits(r, c10.gen_tracker(r)))
        elif k < 0.85:
            add(urlnorm.compose(r, c17))
        else:
            add(urlnorm.edits(r, urlnorm.compose(r, c17)))
    return out
