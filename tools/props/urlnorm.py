"""X10 (C05 / C10 / C07): the tie between Model/UrlNorm.v and the url crate as imdl calls it.

Every generated text goes through the `url_norm` hook (`Url::parse` + `to_string`, src/verif.rs) and through the extracted
`UrlNorm.u_norm`. Inside the modelled fragment the two must agree exactly (refusal vs normal form, byte for byte); outside
it the model answers UNMODELLED and the text is only counted. The syntactic predicate `is_normal_url` of the theorems is
extracted too: a text it accepts must come back unchanged from the hook (`u_norm_fixed`), and a normal form the hook
returns must be accepted by it when it lies in the fragment (`u_norm_normal`).

The direct oracle is independent of the model: (1) what the hook returns is a fixed point of the hook (`create` from a
stored value stores the same value; `file:` URLs, on which url 2.5.2 is not idempotent, are counted instead) and, when it has an authority (`scheme://`), contains no space / tab / newline and is ASCII when
the input was; (2) a text that a
conservative regular expression recognises as already normal (lower-case scheme, plain host name, non-default decimal port,
unreserved path characters, no dot segment) comes back unchanged; (3) the recorded rows of c05.URL_NORMALISING."""
import re
import lib

SPECIAL = {"http": 80, "https": 443, "ws": 80, "wss": 443, "ftp": 21}
SCHEMES = ["http", "https", "udp", "ws", "wss", "ftp", "HTTP", "hTTpS", "UDP", "Ws", "file", "mailto", "magnet", "x", "a+b-c.d", "tcp",
           "gopher", "http2", "httpss", "ud", "1a", "", "ht tp", "+a", "a_b", "ftps", "FILE", "w"]
SEPS = ["://", "://", "://", "://", ":", ":/", ":///", ":////", ":\\\\", ":/\\", ":\\/", ":\\", "//", "", ":// ", ":/ /"]
USERINFO = ["", "", "", "", "", "u@", "user:pw@", ":p@", "u:@", ":@", "@", "@@", "a@b@", "a:b:c@", "u%40:p%3a@", "U S:p w@", "a/b@", "a?b@", "a#b@",
            "a\\b@", "[u]:{p}@", "u;x=y:^|@", "a:@b:@", ":::@", "u:p@@", "%zz:%@", "\"<>`:'@"]
PORTS = ["", "", "", ":", ":80", ":443", ":21", ":0", ":1", ":080", ":00000000000000000080", ":0443", ":65535", ":65536", ":065535",
         ":99999999999999999999", ":8a", ":a", ":-1", ":+1", ": 80", ":80 ", ":8 0", ":6969", ":1337", ":8080", ":00", ":0x50", ":80:80", "::80",
         ":\uff18\uff10"]
DOTS = [".", "..", "%2e", "%2E", "%2e%2e", "%2E%2e", "%2e%2E", "%2E%2E", ".%2e", ".%2E", "%2e.", "%2E.", "...", "%2e%2e%2e", "..%2e", ".%2", "%2",
        "%2e%", "%252e", ".a", "a.", "%2e%2e.", " .", ". ", ".\t.", "%2\te"]
DRIVES = ["c:", "c|", "C:", "z|", "cc:", "c:d", "1:", "c;", ":", "|", "c:|", "c"]
SEGS = ["a", "announce", "b", "x y", "", "", "a%20b", "%41", "%zz", "%", "~user", "a;b=c", "a:b", "a@b", "[x]", "{x}", "<x>", "\"q\"", "`", "^", "|", "'",
        "a+b", "a,b", "$", "!", "*", "(x)", "_", "-", "=", "&", "\x01", "\x7f", "\x00", "a\tb", "a\nb", "\r", "\x1f", "~"]
QUERIES = ["", "", "", "?", "?x=1", "?x=1&y=2", "?q=a b", "?a'b", "?a\"b", "?<>", "?a#b", "?a?b", "?/../x", "?%zz%", "?a\\b", "?{}|^`", "?\x01\x7f",
           "?a\tb\nc", "?passkey=0123456789abcdef", "?[]", "?@:;=", "? "]
FRAGS = ["", "", "", "#", "#frag", "#a b", "#a'b", "#a\"b", "#<>`", "#a#b", "#?x", "#/../x", "#%zz%", "#{}|^\\", "#\x00\x01\x7f", "#a\tb", "# "]
HOSTS = ["example.com", "EXAMPLE.com", "tracker.example.org", "h", "a.b", "a..b", "a.", ".", "-", "_", "x_y.example", "localhost", "LOCALHOST",
         "127.0.0.1", "192.0.2.7", "1.2.3", "0x7f.1", "0177.0.0.1", "1.2.3.4.", "1.2.3.4.5", "256.1.1.1", "4294967295", "4294967296", "[::1]",
         "[2001:db8::1]", "[2001:DB8:0:0:0:0:0:1]", "[::ffff:1.2.3.4]", "[1:2:3:4:5:6:7:8]", "[::]", "[::1", "::1", "[]", "[", "]", "[::1]x",
         "x[::1]", "[::1]]", "", "", "a b", "a\tb", "a%41", "a%", "xn--bcher-kva.example", "XN--A.b", "b\u00fccher.example", "a!b", "a\"b",
         "a'b", "a(b)", "a*b", "a+b", "a,b", "a;b", "a=b", "a`b", "a{b}", "a~b", "a$b", "a&b", "a<b", "a>b", "a^b", "a|b", "a\x01b", "a\x7fb", "a\x00b",
         "1", "1.", "0", "09", "0x", "a.1", "1.a", "1e3"]
WS = [" ", "\t", "\n", "\r", "\x00", "\x1f", "\x0b", "\x0c", "  ", " \t\n"]
LOOKS_NORMAL = re.compile(
    r"^(?P<scheme>[a-z][a-z0-9+.-]*)://(?P<host>[a-z][a-z0-9-]*(\.[a-z][a-z0-9-]*)*)(:(?P<port>0|[1-9][0-9]{0,4}))?"
    r"(?P<path>(/[A-Za-z0-9_~!$&'()*+,;=:@-]*)*)(\?(?P<query>[A-Za-z0-9._~!$&()*+,;=:@/?-]*))?(#(?P<frag>[A-Za-z0-9._~!$&'()*+,;=:@/?-]*))?\Z")


def looks_normal(text):
    """a conservative, model-independent recognition of URLs already in normal form (None: no opinion)"""
    m = LOOKS_NORMAL.match(text)
    if not m or m.group("scheme") == "file":
        return False
    if any(l.startswith("xn--") for l in m.group("host").split(".")):
        return False
    sp = m.group("scheme") in SPECIAL
    if m.group("port") is not None and (int(m.group("port")) > 65535 or SPECIAL.get(m.group("scheme")) == int(m.group("port"))):
        return False
    if sp and not m.group("path"):
        return False
    return True


# ---------------------------------------------------------------- generators

def pick_host(r, c17):
    k = r.random()
    if k < 0.45:
        return r.choice(HOSTS)
    if k < 0.6:
        return c17.host_domain(r)
    if k < 0.75:
        return c17.host_ipv4(r)
    if k < 0.8:
        return r.choice(c17.V4_EDGES)
    return "[" + c17.host_ipv6(r) + "]"


def pick_path(r):
    k = r.random()
    if k < 0.15:
        return ""
    n = r.choice([1, 1, 2, 3, 4, 6])
    out = ""
    for i in range(n):
        out += r.choice(["/", "/", "/", "/", "\\", "//", "/\\", "\\\\"])
        kk = r.random()
        out += r.choice(DOTS) if kk < 0.3 else r.choice(DRIVES) if kk < 0.42 else r.choice(SEGS)
    if r.random() < 0.3:
        out += r.choice(["/", "\\", "//"])
    return out


def compose(r, c17):
    scheme = r.choice(SCHEMES) if r.random() < 0.5 else r.choice(["http", "https", "udp", "wss", "ftp", "ws"])
    sep = r.choice(SEPS) if r.random() < 0.4 else "://"
    ui = r.choice(USERINFO) if r.random() < 0.35 else ""
    host = pick_host(r, c17)
    port = r.choice(PORTS) if r.random() < 0.6 else ":%d" % r.choice([80, 443, 21, 6969, r.randrange(65536), r.randrange(70000)])
    return scheme + sep + ui + host + port + pick_path(r) + r.choice(QUERIES) + r.choice(FRAGS)


def edits(r, u):
    """one or two small edits of a text: whitespace / tab / newline anywhere, a byte replaced, inserted or removed, case"""
    s = u
    for _ in range(r.choice([1, 1, 2])):
        k = r.random()
        i = r.randrange(len(s) + 1)
        if k < 0.3:
            s = s[:i] + r.choice(WS) + s[i:]
        elif k < 0.5:
            s = s[:i] + chr(r.randrange(128)) + s[i:]
        elif k < 0.65:
            s = s[:i] + s[i + 1:]
        elif k < 0.8:
            s = s[:i] + chr(r.randrange(128)) + s[i + 1:]
        elif k < 0.9:
            s = s.upper() if r.random() < 0.5 else s.swapcase()
        else:
            s = r.choice(WS) + s + r.choice(WS)
    return s


def systematic(bases):
    """the edits the brief lists, applied to every base URL"""
    out = []
    for u in bases:
        m = re.match(r"^([A-Za-z][A-Za-z0-9+.-]*)://([^/?#]*)(.*)$", u)
        if not m:
            out.append(("base", u)); continue
        scheme, auth, tail = m.groups()
        hostport = auth.rsplit("@", 1)[-1]
        host = re.sub(r":[0-9]*$", "", hostport)
        out += [("base", u), ("case", u.upper()), ("case", scheme.upper() + "://" + auth + tail), ("case", scheme + "://" + auth.upper() + tail)]
        for p in ["", ":", ":80", ":443", ":21", ":0", ":080", ":0000443", ":65535", ":65536", ":6969", ":06969", ":x", ":1x"]:
            out.append(("port", scheme + "://" + host + p + tail))
        for ui in ["u@", "u:p@", ":p@", "u:@", ":@", "@", "a@b@", "a:b:c@", "u s:p/w@", "a%40b@"]:
            out.append(("userinfo", scheme + "://" + ui + hostport + tail))
            out.append(("empty-host", scheme + "://" + ui + tail))
        out += [("empty-host", scheme + "://" + tail), ("empty-host", scheme + "://:80" + tail), ("scheme-only", scheme + ":"),
                ("scheme-only", scheme), ("scheme-only", scheme + "://"), ("missing-slashes", scheme + ":" + auth + tail),
                ("missing-slashes", scheme + ":/" + auth + tail), ("missing-slashes", auth + tail), ("missing-slashes", "//" + auth + tail),
                ("slash-runs", scheme + ":///" + auth + tail), ("slash-runs", scheme + ":\\\\" + auth + tail),
                ("slash-runs", scheme + ":/\\/" + auth + tail), ("slash-runs", u.replace("/", "\\")), ("slash-runs", scheme + "://" + auth + tail.replace("/", "//"))]
        for sch in ["udp", "http", "https", "ws", "wss", "ftp", "file", "x", "tcp", "magnet", "mailto"]:
            out.append(("scheme-swap", sch + "://" + auth + tail))
        for d in DOTS[:14]:
            for pos in ["/%s", "/%s/", "/a/%s", "/a/%s/b", "/a/b/%s/%s/c", "/%s/%s/%s", "/a/%s?q", "/a/%s#f", "/c:/%s", "/c|/%s/x", "/a/c:/%s", "\\a\\%s\\b",
                        "/a//%s", "//%s", "/a/b/%s"]:
                out.append(("dot-segments", scheme + "://" + auth + pos.replace("%s", d)))
        for c in range(128):
            ch = chr(c)
            out += [("ascii-path", scheme + "://" + auth + "/a" + ch + "b"), ("ascii-query", scheme + "://" + auth + "/p?a" + ch + "b"),
                    ("ascii-fragment", scheme + "://" + auth + "/p#a" + ch + "b"), ("ascii-userinfo", scheme + "://a" + ch + "b:c" + ch + "d@" + hostport + tail),
                    ("ascii-host", scheme + "://a" + ch + "b" + tail), ("ascii-port", scheme + "://" + host + ":8" + ch + "0" + tail),
                    ("ascii-scheme", scheme[:1] + ch + scheme[1:] + "://" + auth + tail), ("ascii-after-host", scheme + "://" + host + ch + "x"),
                    ("ascii-lead", ch + u), ("ascii-trail", u + ch)]
        for w in ["\t", "\n", "\r", " ", "\r\n"]:
            for i in range(0, len(u) + 1, 1 if len(u) < 30 else 3):
                out.append(("whitespace-inside", u[:i] + w + u[i:]))
            out += [("whitespace-around", w + u), ("whitespace-around", u + w), ("whitespace-around", w + w + u + w)]
    return out


def generate(ctx):
    from props import c05, c10, c17
    r = ctx.rng
    texts = {}
    def add(cls, s):
        b = s.encode("utf-8") if isinstance(s, str) else s
        texts.setdefault(b, cls)
    fixed = list(c05.URLS) + sorted(c05.URL_NORMALISING) + list(c05.URL_NORMALISING.values()) + list(c05.BAD_URLS) + \
        ["http://foo.com/announce", "udp://tracker.example:6969", "HTTP://EXAMPLE.COM:80/A?b=c", "udp://127.0.0.1:6969/announce",
         "udp://127.0.0.1/announce?n=1", "http://t.example/announce?x=1&y=%20+z#f", "udp://[::1]:1337/announce", "wss://127.0.0.1:443/announce",
         "tracker.example.com/announce", "//host/announce", "not a url", "::"]
    for u in fixed:
        add("fixed", u)
    short = ["http://example.com/announce", "udp://tracker.example:1337/announce", "https://u:p@[2001:db8::1]:8443/a/b?x=1#f", "ws://192.0.2.7", "x://h/p"]
    for cls, s in systematic(short if not ctx.thorough else short + fixed[:14]):
        add(cls, s)
    for s in c17.V4_EDGES:
        add("host-ipv4-edge", "http://" + s + "/x"); add("host-ipv4-edge", "udp://" + s + ":1/x")
    for s in c17.host_ipv6_sweep(r)[::1 if ctx.thorough else 5]:
        add("host-ipv6-sweep", "http://[" + s + "]/"); add("host-ipv6-sweep", "udp://[" + s + "]:1")
    n = ctx.n(14000, 520000)
    for i in range(n):
        k = r.random()
        if k < 0.25:
            add("tracker", c10.gen_tracker(r))
        elif k < 0.4:
            add("tracker-edited", edits(r, c10.gen_tracker(r)))
        elif k < 0.85:
            add("composed", compose(r, c17))
        else:
            add("composed-edited", edits(r, compose(r, c17)))
    return texts


# ---------------------------------------------------------------- the run

def parse_reply(x):
    """-> ('ok', bytes) | ('err', None) | ('unmodelled', None) | ('other', raw)"""
    p = x.split()
    if p and p[0] == "OK":
        return ("ok", lib.unhex(p[1]) if len(p) > 1 else b"")
    if p and p[0] == "ERR":
        return ("err", None)
    if p and p[0] == "UNMODELLED":
        return ("unmodelled", None)
    return ("other", x)


def case_of(t, cls, **kw):
    c = {"url_text": t, "url_text_hex": lib.hexs(t), "generator": "url/" + cls,
         "reproduce": "printf 'urlnorm %s\\n' | imdl-verif-harness   # model: printf 'u_norm %s\\n' | modelrun" % (lib.hexs(t), lib.hexs(t))}
    c.update(kw)
    return c


def run_urlnorm(ctx):
    from props import c05
    texts = generate(ctx)
    ts = list(texts)
    impl = [parse_reply(x) for x in ctx.harness(["urlnorm " + lib.hexs(t) for t in ts])]
    model = [parse_reply(x) for x in ctx.model(["u_norm " + lib.hexs(t) for t in ts])]
    isn = [x.split()[-1] == "1" for x in ctx.model(["u_isnormal " + lib.hexs(t) for t in ts])]
    # second pass: what the hook returned goes through hook, model and predicate again
    outs = sorted({v for k, v in impl if k == "ok"} - set(ts))
    impl2 = dict(zip(outs, [parse_reply(x) for x in ctx.harness(["urlnorm " + lib.hexs(t) for t in outs])]))
    model2 = dict(zip(outs, [parse_reply(x) for x in ctx.model(["u_norm " + lib.hexs(t) for t in outs])]))
    isn2 = dict(zip(outs, [x.split()[-1] == "1" for x in ctx.model(["u_isnormal " + lib.hexs(t) for t in outs])]))
    for t, i, m, n_ in zip(ts, impl, model, isn):
        impl2.setdefault(t, i); model2.setdefault(t, m); isn2.setdefault(t, n_)
    infrag = unmod = 0
    file_samples = [0]
    for t, i, m, normal in zip(ts, impl, model, isn):
        cls = texts[t]
        ctx.cov["evaluations"] += 1
        ctx.count("gen:url/" + cls)
        if i[0] == "other" or m[0] == "other":
            ctx.violation("infrastructure", "url_norm tie: unexpected reply for %r: %r / %r" % (t, i, m), case_of(t, cls)); continue
        # --- the direct oracle, on the implementation alone
        if i[0] == "ok":
            v = i[1]
            again = impl2[v]
            if again != ("ok", v) and v.startswith(b"file:"):
                # url 2.5.2 is not idempotent on file: URLs with a drive-letter-like segment after an empty one
                # (`file://h//c:|/x` -> `file://h/c:|/x` -> `file://h/c:/|/x`); file: is outside the fragment and outside
                # what a tracker URL can be: counted and sampled, not judged
                ctx.count("urlnorm:file-url-not-a-fixed-point")
                if file_samples[0] < 2:
                    file_samples[0] += 1
                    ctx.sample({"url_text": t.decode("latin1"), "stored": v.decode("latin1"), "stored_again": repr(again[1]),
                                "note": "file: URL, url crate not idempotent (outside the fragment)"})
            elif again != ("ok", v):
                ctx.violation("oracle-failure", "the stored form %r of URL %r is not stored unchanged when given again (it becomes %r)" % (v, t, again[1]),
                              case_of(t, cls, stored=v, stored_again=again[1]))
            # (a cannot-be-a-base URL such as `x: y` keeps its spaces: only URLs with an authority are judged)
            if re.match(rb"^[a-z][a-z0-9+.-]*://", v) and (any(b in v for b in b" \t\n\r") or (all(b < 128 for b in t) and any(b >= 128 for b in v))):
                ctx.violation("oracle-failure", "the stored form %r of URL %r contains white space or non-ASCII bytes" % (v, t), case_of(t, cls, stored=v))
        try:
            txt = t.decode("ascii")
        except UnicodeDecodeError:
            txt = None
        if txt is not None and looks_normal(txt) and i != ("ok", t):
            ctx.violation("oracle-failure", "URL %r is written in normal form but is stored as %r" % (t, i[1]), case_of(t, cls, stored=i[1]))
        if txt in c05.URL_NORMALISING and i != ("ok", c05.URL_NORMALISING[txt].encode()):
            ctx.violation("oracle-failure", "URL %r: recorded normal form %r, stored %r" % (t, c05.URL_NORMALISING[txt], i[1]), case_of(t, cls, stored=i[1]))
        # --- model vs implementation
        if m[0] == "unmodelled":
            unmod += 1
            ctx.count("urlnorm:unmodelled/" + ("accepted" if i[0] == "ok" else "refused"))
            if normal:
                ctx.violation("model-impl-disagreement", "is_normal_url accepts %r, which u_norm places outside the fragment" % t, case_of(t, cls))
            continue
        infrag += 1
        ctx.cov["traces_validated_against_impl"] += 1
        ctx.count("urlnorm:in-fragment/" + ("refused" if m[0] == "err" else "unchanged" if m[1] == t else "normalised"))
        ctx.distinct(("url", cls, m[0], t[:6], len(t) // 8, m[1] == t if m[0] == "ok" else None))
        if i != m:
            ctx.violation("model-impl-disagreement", "url_norm %r: the url crate answers %r, UrlNorm.u_norm answers %r" % (t, i, m),
                          case_of(t, cls, impl=i[1], model=m[1]))
            continue
        if normal and i != ("ok", t):
            ctx.violation("model-impl-disagreement", "is_normal_url accepts %r but the url crate stores %r (u_norm_fixed)" % (t, i[1]), case_of(t, cls, impl=i[1]))
        if i[0] == "ok":
            v = i[1]
            if model2[v][0] != "unmodelled":
                if not isn2[v]:
                    ctx.violation("model-impl-disagreement", "the normal form %r of %r is not accepted by is_normal_url (u_norm_normal)" % (v, t), case_of(t, cls, impl=v))
                if model2[v] != ("ok", v):
                    ctx.violation("model-impl-disagreement", "u_norm is not idempotent on %r -> %r -> %r" % (t, v, model2[v][1]), case_of(t, cls, impl=v))
            else:
                ctx.violation("model-impl-disagreement", "the normal form %r of the in-fragment text %r is outside the fragment" % (v, t), case_of(t, cls, impl=v))
    ctx.count("urlnorm:texts", len(ts))
    ctx.count("urlnorm:in-fragment", infrag)
    ctx.count("urlnorm:unmodelled", unmod)
    for t in ts[:3] + [x for x in ts if texts[x] == "dot-segments"][:2]:
        ctx.sample({"url_text": t.decode("latin1"), "impl": repr(impl2[t]), "model": repr(model2[t])})
    ctx.assumptions += [
        "url crate outside the fragment of Model/UrlNorm.v (non-ASCII text and IDNA, percent-escapes / xn-- labels in special-scheme hosts, "
        "file: URLs, URLs without `//` after a non-special scheme, relative references): Url::parse + to_string is whatever it is "
        "(Section variable norm); inside the fragment it is UrlNorm.u_norm, compared with the `url_norm` hook on every generated text "
        "(%d in the fragment, %d counted as unmodelled in this run)" % (infrag, unmod)]
    return infrag, unmod


def replay_url(ctx, case):
    ctx.need_rust(); ctx.need_runner()
    t = lib.unhex(case["url_text_hex"])
    print("text  :", repr(t))
    print("impl  :", parse_reply(ctx.harness(["urlnorm " + lib.hexs(t)])[0]))
    print("model :", parse_reply(ctx.model(["u_norm " + lib.hexs(t)])[0]))
    print("is_normal_url:", ctx.model(["u_isnormal " + lib.hexs(t)])[0])
    return 0
