"""C02 — a created torrent verifies against its content and fails after any real change.

Obligations: coq/Properties/C02.v (create-then-verify; on any later filesystem the verdict is
success exactly when every listed path is a regular file with its creation-time bytes;
unlisted files irrelevant; undoing edits restores success; what a failure names; histories;
default locations of create and verify are inverse).
Correspondence: the real binary only. Histories of `create [--force]` / edit / `verify` on
generated trees in a sandbox. Per verify step the observed (exit status, listed paths named on
stderr) is compared with
  * the composed model (Model/CreateVerify.v: hasher loop then verifier loop, digests
    uninterpreted) run on a mirror of the tree as it was at the last creation and as it is now,
  * the verifier model with real SHA-1 (Model/Verify.v, command vcmd) on the torrent bytes the
    binary wrote, and
  * the direct oracle below, which only looks at the disk: every listed path is a regular file
    holding the bytes it held when create last ran.
Default locations: where the torrent appears and where verify looks, against Model/Paths.v, the
string-level rule of Model/Verify.v, and os.path.
End to end (Model/EndToEnd.v, command c02e2e): per create step the extracted composition
create -> Metainfo.build -> encode -> load (real SHA-1/MD5, a seed-drawn set of metainfo options)
is evaluated on the mirror of the tree and must give the creation result back (the theorem
c02_created_bytes_load_back, executed); the loader model on the bytes the binary wrote must give
that same torrent (name, piece length, piece list, files); the model's info dictionary must be
byte-identical to the binary's when the drawn options leave info alone; and the direct oracle
(lib.bdecode_strict + hashlib over the files on disk) states what the written file must contain.
The whole pipeline (Model/CreateWalk.v, tools/props/create_walk.py, command cwalk): the selection create hashes is the
walker's own listing of the same tree (C06 composed with C01, C05 and the above); C06-style trees with contents x flags x
globs x sort keys: create, verify, edit an excluded file (still 0), edit an included file (1), undo (0), against the
extracted walk -> hasher -> build -> encode -> load composition (byte-identical file) and a documented-rules oracle."""
import copy, hashlib, json, os, re, shutil, stat, tempfile
import lib
from props import vfy, create_walk

MANIFEST = dict(
    text="Machine-checked proof over a model that composes the hasher loop of create (C01's model, any schedule of short reads) with "
         "the verifier (C03's model, any schedule) over an abstract tree: a torrent just created verifies; on ANY later filesystem the "
         "verdict is success exactly when every listed path is a regular file with its creation-time bytes (SHA-1 collision-freeness "
         "of the compared blocks is the only hypothesis, used in one direction); unlisted files are irrelevant, undoing edits restores "
         "success, every missing/resized/MD5-failing file is named, and create's default output and verify's default content root are "
         "inverse for every working directory and input path. End to end: the bytes create writes (C05's assembled value, C04's "
         "encoding) load back through C03's loader as the very torrent the composed model verifies, for every tree, selection, piece "
         "length, --md5, read schedule and metainfo option set, so create-then-verify and verdict-tracks-content hold of the written "
         "file. The whole pipeline: create_walk = create on the walker's own selection (C06's Walk.walk on the size-erased "
         "tree): the torrent lists exactly the documented files in the walker's order with the piece hashes of their contents in that "
         "order, verifies whatever the flags excluded, and on any later filesystem succeeds iff every file the walker selected still "
         "holds its bytes; enumeration order is irrelevant. Tied to the code by running histories of create/edit/verify/re-create "
         "on the real binary against the extracted models and an independent disk-reading oracle. Right level: the claim quantifies "
         "over all trees x all edit histories, which the repository's single-tree, single-edit tests cannot reach.",
    ref="DESIGN.md section 5, C02",
    technique="Coq proof over a Gallina model + model/implementation correspondence run on the real binary + independent oracle",
    note="Assumed: SHA-1/MD5 are functions (Section variables) and no two different compared blocks collide under SHA-1 (explicit "
         "hypothesis of the only-if direction). In the history part the walker's selection and order are taken from the torrent "
         "as written; the create-walk part proves and checks that they are C06's (link-free trees with distinct plain names). End-to-end hypotheses: digest lengths 20/16, UTF-8 names and components, i64 lengths (each shown necessary by an "
         "example). Not modelled: symlinks, permissions, FIFOs, concurrent modification. "
         "Trusted: Coq kernel, extraction, OCaml drivers, Python oracle.")

SMALL_P = [1, 2, 3, 4, 5, 7, 8, 16, 31, 32, 64]
BIG_P = [16384, 32768]
CREATE_FLAGS = ["--allow", "small-piece-length", "--allow", "uneven-piece-length"]
INPUT_STYLES_DIR = ["plain", "dot-slash", "trailing", "updown", "abs", "dot"]
INPUT_STYLES_FILE = ["plain", "dot-slash", "updown", "abs"]
EDIT_KINDS = ["flip", "truncate", "append", "delete", "todir", "same", "add", "parent_to_file", "rm_root"]


# ------------------------------------------------------------------ mirror trees
def walk_files(node, prefix=()):
    """[(comps, bytes)] of the regular files of a mirror node, sorted by component vector"""
    if isinstance(node, (bytes, bytearray)):
        return [(list(prefix), bytes(node))]
    out = []
    for k in sorted(node):
        out += walk_files(node[k], prefix + (k,))
    return out


def walk_dirs(node, prefix=()):
    out = []
    if isinstance(node, dict):
        if prefix:
            out.append(list(prefix))
        for k in sorted(node):
            out += walk_dirs(node[k], prefix + (k,))
    return out


def locate(world, full):
    """(parent dict, key) of a path below the sandbox mirror, or None when a parent is missing / not a directory"""
    cur = world
    for c in full[:-1]:
        if not isinstance(cur, dict) or c not in cur:
            return None
        cur = cur[c]
    if not isinstance(cur, dict):
        return None
    return cur, full[-1]


def apply_mirror(world, name, op):
    """apply one edit to the mirror; False when it does not apply in the current state"""
    kind = op[0]
    if kind == "rm_root":
        if name not in world:
            return False
        del world[name]
        return True
    if kind == "add":
        full = list(op[1])
        loc = None
        cur = world
        for c in full[:-1]:
            if not isinstance(cur, dict):
                return False
            cur = cur.setdefault(c, {})
        if not isinstance(cur, dict) or full[-1] in cur:
            return False
        cur[full[-1]] = bytes(op[2])
        return True
    full = [name] + list(op[1])
    loc = locate(world, full)
    if loc is None:
        return False
    parent, key = loc
    if key not in parent:
        return False
    node = parent[key]
    if kind == "delete":
        del parent[key]
        return True
    if kind == "parent_to_file":
        if not isinstance(node, dict) or len(full) < 2:
            return False
        parent[key] = bytes(op[2])
        return True
    if not isinstance(node, (bytes, bytearray)):
        return False
    if kind == "flip":
        if not (0 <= op[2] < len(node)):
            return False
        b = bytearray(node); b[op[2]] ^= 0xFF; parent[key] = bytes(b)
    elif kind == "truncate":
        if not (0 <= op[2] < len(node)):
            return False
        parent[key] = bytes(node[:op[2]])
    elif kind == "append":
        if not op[2]:
            return False
        parent[key] = bytes(node) + bytes(op[2])
    elif kind == "todir":
        parent[key] = {}
    elif kind == "todir_holding":
        # the listed file becomes a directory that holds copies of it under the given names (`mkdir h; mv f h/f; mv h f`)
        parent[key] = {bytes(n): bytes(node) for n in op[2]}
    elif kind == "same":
        parent[key] = bytes(node)
    else:
        return False
    return True


def apply_disk(S, name, op):
    """the same edit on the real files (called only after apply_mirror said it applies)"""
    kind = op[0]
    if kind == "rm_root":
        rm(os.path.join(S, name)); return
    if kind == "add":
        p = os.path.join(S, *op[1])
        os.makedirs(os.path.dirname(p), exist_ok=True)
        with open(p, "wb") as f:
            f.write(op[2])
        return
    p = os.path.join(S, name, *op[1]) if op[1] else os.path.join(S, name)
    if kind == "delete":
        rm(p)
    elif kind == "parent_to_file":
        rm(p)
        with open(p, "wb") as f:
            f.write(op[2])
    elif kind == "flip":
        with open(p, "r+b") as f:
            f.seek(op[2]); b = f.read(1); f.seek(op[2]); f.write(bytes([b[0] ^ 0xFF]))
    elif kind == "truncate":
        os.truncate(p, op[2])
    elif kind == "append":
        with open(p, "ab") as f:
            f.write(op[2])
    elif kind == "todir":
        os.remove(p); os.mkdir(p)
    elif kind == "todir_holding":
        with open(p, "rb") as f:
            data = f.read()
        os.remove(p); os.mkdir(p)
        for n in op[2]:
            with open(os.path.join(p, n), "wb") as f:
                f.write(data)
    elif kind == "same":
        with open(p, "rb") as f:
            data = f.read()
        with open(p + b".tmp~", "wb") as f:
            f.write(data)
        os.replace(p + b".tmp~", p)


def rm(p):
    if os.path.isdir(p) and not os.path.islink(p):
        shutil.rmtree(p)
    elif os.path.lexists(p):
        os.remove(p)


# ------------------------------------------------------------------ running one history on the real binary
class History:
    def __init__(self, ctx, case, tmp):
        self.ctx, self.case = ctx, case
        self.S = os.path.realpath(tempfile.mkdtemp(dir=tmp)).encode()
        self.name = case["input_name"]
        self.world = {self.name: copy.deepcopy(case["content"])}
        vfy.materialise(self.world, self.S)
        if case.get("via_link"):
            # the input is a symbolic link to the content, which lives under another name (`current -> payload-2024`), followed with
            # --follow-symlinks: torrent name and default locations belong to the name the input was GIVEN by (added after seeded
            # change C02-18: the name was taken from the canonicalised root, so the fresh torrent looked for `payload-2024` next to it)
            os.rename(os.path.join(self.S, self.name), os.path.join(self.S, b"payload-2024-target"))
            os.symlink(b"payload-2024-target", os.path.join(self.S, self.name))
        os.mkdir(os.path.join(self.S, b"out"))
        self.inp_abs = os.path.join(self.S, self.name)
        st = case["input_style"]
        self.cwd = self.inp_abs if st == "dot" else self.S
        self.arg = {"plain": self.name, "dot-slash": b"./" + self.name, "trailing": self.name + b"/",
                    "updown": b"x/../" + self.name, "abs": self.inp_abs, "dot": b"."}[st]
        self.tname = case["new_name"] if case["layout"] == "name" else self.name
        if case["layout"] == "output":
            self.torrent_abs = os.path.join(self.S, b"out", b"t.torrent")
        else:
            self.torrent_abs = os.path.join(self.S, self.tname + b".torrent")
        self.torrent_arg = self.torrent_abs if case["verify_style"] == "abs" else os.path.relpath(self.torrent_abs, self.cwd)
        self.content_arg = None if case["layout"] == "default" else (self.inp_abs if case["verify_style"] == "abs" else self.arg)
        self.undo = []
        self.steps = []          # transcript
        self.fail = []           # oracle failures: (summary)
        self.model_lines = []    # (step index, kind, line)
        self.created = None      # dict(listed=[(comps, bytes)], tree0=mirror, torrent=bytes, multi=bool, md5=bool)

    # -- create ------------------------------------------------------------
    def create_argv(self, force):
        c = self.case
        a = ["torrent", "create", "--input", os.fsdecode(self.arg), "--piece-length", str(c["p"])] + CREATE_FLAGS
        if c["md5"]:
            a.append("--md5")
        if c.get("via_link"):
            a.append("--follow-symlinks")
        if c["layout"] == "name":
            a += ["--name", os.fsdecode(c["new_name"])]
        if c["layout"] == "output":
            a += ["--output", os.fsdecode(os.path.relpath(self.torrent_abs, self.cwd))]
        if force:
            a.append("--force")
        return a

    def do_create(self, force):
        if not os.path.isdir(self.cwd):
            self.steps.append({"op": "recreate (working directory is gone, skipped)"}); return
        argv = self.create_argv(force)
        before = read_file(self.torrent_abs)
        rc, out, err = self.ctx.imdl(argv, cwd=os.fsdecode(self.cwd), timeout=120)
        rec = {"op": "recreate" if force else "create", "argv": ["imdl"] + argv, "cwd": self.cwd, "exit_status": rc,
               "stderr_tail": err.decode("utf-8", "replace")[-300:]}
        self.steps.append(rec)
        root_there = os.path.lexists(self.inp_abs)
        if rc != 0:
            if root_there:
                self.fail.append("`%s` exited %d although the input exists" % (" ".join(rec["argv"]), rc))
            elif read_file(self.torrent_abs) != before:
                self.fail.append("a failed create changed the torrent file")
            return
        tb = read_file(self.torrent_abs)
        if tb is None:
            self.fail.append("create exited 0 but there is no torrent at %s (%s layout): it is not written %s"
                             % (os.fsdecode(self.torrent_abs), self.case["layout"],
                                "next to the input" if self.case["layout"] != "output" else "where --output says"))
            return
        t, why = vfy.read_torrent(tb)
        if t is None:
            self.fail.append("the torrent create wrote is not readable: %s" % why)
            return
        listed = []
        for comps, n, m in t["files"]:
            p = os.path.join(self.inp_abs, *(comps or []))
            data = read_file(p)
            listed.append((list(comps or []), data if data is not None else b""))
        self.created = {"listed": listed, "tree0": copy.deepcopy(self.world), "torrent": tb, "multi": not t["single"],
                        "md5": any(m is not None for _, _, m in t["files"]), "name": t["name"], "p": t["p"]}
        rec["listed"] = [b"/".join(c) for c, _ in listed]
        rec["torrent_bytes"] = tb
        if t["name"] != self.tname:
            self.fail.append("the torrent's name is %r, expected %r" % (t["name"], self.tname))
        if t["p"] != self.case["p"]:
            self.fail.append("the torrent's piece length is %r, expected %r" % (t["p"], self.case["p"]))
        self.written_oracle(t, listed)
        self.e2e_line()
        # every regular file of the input is listed exactly once (order and filtering are C06's)
        want = sorted(c for c, _ in walk_files(self.world[self.name])) if self.name in self.world else []
        if sorted(c for c, _ in listed) != want:
            rec["note"] = "listed paths differ from the regular files of the input (left to C06)"
        if not force:
            self.locations()

    def written_oracle(self, t, listed):
        """direct oracle for the written file, independent of every model: the strict Python reader's view of it equals
        what hashlib computes from the files on disk in listed order"""
        blob = b"".join(d for _, d in listed)
        p = self.case["p"]
        want = [hashlib.sha1(blob[i:i + p]).digest() for i in range(0, len(blob), p)]
        if t["pieces"] != want:
            k = next((i for i, (a, b) in enumerate(zip(t["pieces"], want)) if a != b), min(len(want), len(t["pieces"])))
            self.fail.append("the written torrent lists %d piece hashes, SHA-1 of the listed files cut at %d gives %d; first difference at piece %d"
                             % (len(t["pieces"]), p, len(want), k))
        for (comps, n, m), (_, data) in zip(t["files"], listed):
            what = os.fsdecode(b"/".join(comps or [self.name]))
            if n != len(data):
                self.fail.append("the written torrent gives %s the length %d, on disk it has %d bytes" % (what, n, len(data)))
            want_m = hashlib.md5(data).digest() if self.case["md5"] else None
            if m != want_m:
                self.fail.append("the written torrent gives %s the md5sum %s, expected %s"
                                 % (what, m.hex() if m else "none", want_m.hex() if want_m else "none (no --md5)"))

    def e2e_line(self):
        """the extracted composition create -> build -> encode -> load on the mirror, and load on the written bytes"""
        h = lib.hexs
        cr = self.created
        sel = ",".join(("/".join(h(c) for c in comps) if comps else "-") for comps, _ in cr["listed"]) if cr["multi"] else "~"
        if cr["multi"] and not cr["listed"]:
            sel = "~"
        i = len(self.steps) - 1
        self.model_lines.append((i, "e2e", "c02e2e %d %d %d %s %s %s %s %d %s" % (
            1 if self.case["md5"] else 0, self.case["p"], self.case["seed"] + i, h(self.tname),
            h(os.path.normpath(self.inp_abs)), sel, vfy.model_fs(self.S, cr["tree0"]),
            (self.case["seed"] * 31 + i) & 0xFFFFFF, h(cr["torrent"]))))

    def locations(self):
        """default locations: model (component level), verifier model (string level), os.path"""
        h = lib.hexs
        self.model_lines.append((len(self.steps) - 1, "loc", "c02loc %s %s" % (h(self.cwd), h(self.arg))))
        self.model_lines.append((len(self.steps) - 1, "root", "c02root %s %s %s" % (h(self.cwd), h(self.torrent_arg), h(self.tname))))
        self.model_lines.append((len(self.steps) - 1, "vroot", "vroot %s ~ ~ %s %s" % (h(self.cwd), h(self.torrent_arg), h(self.tname))))

    # -- verify ------------------------------------------------------------
    def verify_argv(self):
        a = ["torrent", "verify", "--input", os.fsdecode(self.torrent_arg)]
        if self.content_arg is not None:
            a += ["--content", os.fsdecode(self.content_arg)]
        return a

    def do_verify(self):
        if self.created is None:
            return
        if not os.path.isdir(self.cwd):
            self.steps.append({"op": "verify (working directory is gone, skipped)"}); return
        argv = self.verify_argv()
        cr = self.created
        # the oracle looks at the disk only
        expect_ok, must_name, state = True, [], []
        for comps, data0 in cr["listed"]:
            p = os.path.join(self.inp_abs, *comps) if comps else self.inp_abs
            try:
                st = os.stat(p)
            except OSError:
                expect_ok = False; must_name.append(comps); state.append("missing"); continue
            if not stat.S_ISREG(st.st_mode):
                expect_ok = False; must_name.append(comps); state.append("not a regular file"); continue
            data = read_file(p)
            if data == data0:
                state.append("same"); continue
            expect_ok = False
            if len(data) != len(data0):
                must_name.append(comps); state.append("resized %d -> %d" % (len(data0), len(data)))
            elif cr["md5"]:
                must_name.append(comps); state.append("same length, other bytes (md5sum recorded)")
            else:
                state.append("same length, other bytes")
        rc, out, err = self.ctx.imdl(argv, cwd=os.fsdecode(self.cwd), timeout=120)
        text = re.sub(r"\x1b\[[0-9;]*m", "", err.decode("utf-8", "replace"))
        named = [comps for comps, _ in cr["listed"] if (is_named(os.fsdecode(b"/".join(comps)), text) if comps else os.fsdecode(self.name) in text)]
        # a listed file whose whole path is the content root's own name (a file `my content` inside the directory `my content`)
        # cannot be told from the step banner, which shows the root: it counts as named exactly when it has to be named
        # (false alarm of the vp check with seed 1 after the edit `todir_holding` was added: the banner was read as a file's name)
        amb = {os.path.basename(os.path.normpath(os.fsdecode(x))) for x in (self.name, self.tname)}
        named = [c for c in named if not (len(c) == 1 and os.fsdecode(c[0]) in amb and c not in must_name)]
        rec = {"op": "verify", "argv": ["imdl"] + argv, "cwd": self.cwd, "exit_status": rc, "stderr_tail": text[-400:],
               "oracle_expects": "exit 0" if expect_ok else "exit 1", "listed_state": state,
               "named": [b"/".join(c) for c in named], "multi": cr["multi"]}
        self.steps.append(rec)
        what = "verify #%d (after %s)" % (sum(1 for s in self.steps if s["op"] == "verify"), self.last_edits())
        if rc not in (0, 1):
            self.fail.append("%s: exit status %d is neither 0 nor 1" % (what, rc))
        elif expect_ok and rc != 0:
            self.fail.append("%s: every listed file holds its creation-time bytes but verify exited %d" % (what, rc))
        elif not expect_ok and rc == 0:
            self.fail.append("%s: verify exited 0 although %s" % (what, "; ".join(
                "%s is %s" % (os.fsdecode(b"/".join(c) or self.name), s) for (c, _), s in zip(cr["listed"], state) if s != "same")))
        elif rc == 1:
            for comps in must_name:
                if comps not in named:
                    self.fail.append("%s: failed without naming %s on standard error" % (what, os.fsdecode(b"/".join(comps) or self.name)))
        if out:
            self.fail.append("%s: verify wrote to standard output" % what)
        rec["observed"] = (rc, sorted(b"/".join(c) for c in named))
        # model lines
        h = lib.hexs
        root = h(os.path.normpath(self.inp_abs))
        sel = ",".join(("/".join(h(c) for c in comps) if comps else "-") for comps, _ in cr["listed"]) if cr["multi"] else "~"
        if cr["multi"] and not cr["listed"]:
            sel = "~"
        i = len(self.steps) - 1
        self.model_lines.append((i, "composed", "c02run %d %d %d %s %s %s %s" % (
            1 if self.case["md5"] else 0, self.case["p"], self.case["seed"] + i, root, sel,
            vfy.model_fs(self.S, cr["tree0"]), vfy.model_fs(self.S, self.world))))
        self.model_lines.append((i, "verifier", "vcmd %s %s %s ~ %s %s %d" % (
            vfy.model_fs(self.S, self.world), h(self.cwd), h(self.content_arg) if self.content_arg is not None else "~",
            h(self.torrent_arg), h(cr["torrent"]), self.case["seed"] + i)))

    def last_edits(self):
        out = []
        for s in reversed(self.steps[:-1]):
            if s["op"] in ("verify", "create", "recreate"):
                break
            out.append(s["op"])
        return ", ".join(reversed(out)) or ("create" if len(self.steps) <= 1 else "nothing")

    # -- edits ---------------------------------------------------------------
    def do_edit(self, op):
        snap = copy.deepcopy(self.world)
        if not apply_mirror(self.world, self.name, op):
            self.steps.append({"op": op[0] + " (not applicable, skipped)"})
            return
        self.undo.append(snap)
        apply_disk(self.S, self.name, op)
        self.steps.append({"op": op[0], "detail": vfy.to_js(op[1:])})

    def do_revert(self):
        if not self.undo:
            self.steps.append({"op": "revert (nothing to revert, skipped)"})
            return
        old = self.undo.pop()
        for k in set(self.world) | set(old):
            rm(os.path.join(self.S, k))
        self.world = old
        vfy.materialise(self.world, self.S)
        self.steps.append({"op": "revert"})

    def run(self):
        self.do_create(False)
        for op in self.case["ops"]:
            if self.fail and self.created is None:
                break
            k = op[0]
            if k == "verify":
                self.do_verify()
            elif k == "recreate":
                self.do_create(True)
            elif k == "revert":
                self.do_revert()
            else:
                self.do_edit(op)
        return self


def is_named(path, text):
    """the path occurs on standard error as a whole (not as part of a longer path or word); for a
    single-file torrent the step banner that shows the content path counts (DESIGN, C02)"""
    return re.search(r"(?<![\w/.-])" + re.escape(path) + r"(?![\w/-])", text) is not None


def read_file(p):
    try:
        with open(p, "rb") as f:
            return f.read()
    except OSError:
        return None


# ------------------------------------------------------------------ judging model replies
def judge_models(hist, replies):
    """replies: the answers to hist.model_lines, in order -> list of disagreement summaries"""
    dis = []
    loc = {}
    for (i, kind, line), rep in zip(hist.model_lines, replies):
        st = hist.steps[i]
        st.setdefault("model", {})[kind] = rep
        if kind in ("loc", "root", "vroot"):
            loc[kind] = rep
            continue
        if kind == "e2e":
            dis += judge_e2e(hist, i, st, rep)
            continue
        rc, named = st["observed"]
        if kind == "composed":
            f = rep.split()
            if len(f) != 5 or f[0] != "OK":
                dis.append("the composed model gave no verdict at step %d: %s" % (i, rep)); continue
            good = f[1] == "1"
            mnamed = sorted(bytes(b"/".join(bytes.fromhex(c) for c in x.split(":")[0].split("/"))) if x.split(":")[0] != "-" else b""
                            for x in ([] if f[4] == "~" else f[4].split(",")))
            if good != (rc == 0):
                dis.append("step %d: composed model says %s, `imdl torrent verify` exited %d" % (i, "success" if good else "failure", rc))
            elif st.get("multi") and rc == 1 and mnamed != named:     # the creation in force at this step, not the last one
                dis.append("step %d: the model names %r, standard error names %r" % (i, mnamed, named))
        elif kind == "verifier":
            if not rep.startswith("OK ") or rep == "OK fuel":
                dis.append("the verifier model gave no verdict at step %d: %s" % (i, rep)); continue
            if (rep == "OK success") != (rc == 0) or (rep == "OK rejected"):
                dis.append("step %d: verifier model on the written torrent says %s, `imdl torrent verify` exited %d" % (i, rep[3:], rc))
    # default locations
    if "loc" in loc and hist.created is not None:
        want_root = os.path.normpath(hist.inp_abs)
        os_root = os.path.normpath(os.path.join(hist.cwd, hist.torrent_arg, b"..", hist.tname))
        f = loc["loc"].split()
        if hist.case["layout"] == "default":
            want = "OK %s %s %s" % (lib.hexs(hist.name), lib.hexs(hist.torrent_abs), lib.hexs(want_root))
            if loc["loc"] != want:
                dis.append("default locations: model says %s, expected name/torrent/root %s" % (loc["loc"], want))
            if os_root != want_root:
                dis.append("default locations: os.path puts verify's default root at %r, the input is %r" % (os_root, want_root))
        if loc["root"] != "OK " + lib.hexs(os_root) or loc["vroot"] != loc["root"]:
            dis.append("verify's default content root: component-level model %s, string-level model %s, os.path %s"
                       % (loc["root"], loc["vroot"], lib.hexs(os_root)))
    return dis


def parse_flat(txt):
    """'<name> <plen> <pieces> <S|M> <files>' of driver.d/endtoend.ml -> the shape of vfy.read_torrent"""
    f = txt.split()
    if len(f) != 5:
        return None
    files = []
    for x in ([] if f[4] == "~" else f[4].split(";")):
        pa, n, m = x.split(":")
        comps = None if f[3] == "S" else ([] if pa == "-" else [bytes.fromhex(c) for c in pa.split("/")])
        files.append((comps, int(n), None if m == "~" else lib.unhex(m)))
    return {"name": lib.unhex(f[0]), "p": int(f[1]), "pieces": lib.unhexlist(f[2]), "files": files, "single": f[3] == "S"}


def judge_e2e(hist, i, st, rep):
    """the reply of c02e2e for the create step i -> disagreement summaries; records what was compared in the step"""
    out = []
    rec = st.setdefault("e2e", {})
    parts = [x.strip() for x in rep.split("|")]
    f = parts[0].split()
    if len(parts) != 3 or len(f) != 6 or f[0] != "OK":
        return ["end to end, step %d: the model created nothing although `imdl torrent create` succeeded: %s" % (i, rep[:80])]
    ok, back, real, info_free = f[1] == "1", f[2] == "1", f[3], f[4] == "1"
    mb = lib.unhex(f[5])
    mt = parse_flat(parts[1])
    rec.update(side_conditions=ok, model_loads_back=back, real_loads=real, info_free=info_free)
    tb = st.get("torrent_bytes")
    it, _ = vfy.read_torrent(tb) if tb is not None else (None, None)
    if ok and not back:
        out.append("end to end, step %d: the side conditions hold but load (encode (build ..)) is not the creation result "
                   "(the extracted model contradicts c02_created_bytes_load_back)" % i)
    if real != "1":
        out.append("end to end, step %d: the loader model %s; the model's create gives %s" % (
            i, "refuses the bytes the binary wrote" if real == "~" else "reads the written bytes as " + parts[2][:300], parts[1][:300]))
    # the model's torrent against the independent Python reading of the written file
    if mt is None or it is None:
        out.append("end to end, step %d: nothing to compare (model %r, independent reader %r)" % (i, mt is not None, it is not None))
    else:
        for key, what in (("name", "name"), ("p", "piece length"), ("pieces", "piece list"), ("single", "mode"), ("files", "files")):
            a, b = mt[key], it[key]
            if key == "files":
                a, b = [(c or [], n, m) for c, n, m in a], [(c or [], n, m) for c, n, m in b]
            if a != b:
                out.append("end to end, step %d: %s of the model's torrent differs from the written file's: %r vs %r" % (i, what, a if key != "pieces" else len(a), b if key != "pieces" else len(b)))
                break
    # canonical bytes, and a byte-identical info dictionary when the drawn options do not touch it
    try:
        v, end = lib.bdecode_strict(mb)
        if end != len(mb):
            out.append("end to end, step %d: the independent strict reader leaves %d bytes of the model's output unread" % (i, len(mb) - end))
        elif info_free and tb is not None:
            rec["info_compared"] = True
            if lib.info_span(mb) != lib.info_span(tb):
                out.append("end to end, step %d: the model's info dictionary differs from the one `imdl torrent create` wrote" % i)
    except Exception as e:
        if ok:
            out.append("end to end, step %d: the independent strict reader refuses the model's bytes: %s" % (i, e))
    return out


# ------------------------------------------------------------------ generation
def gen_content(r, p, single, flavour):
    pp = min(p, 20000)

    def size():
        return r.choice([0, 1, max(pp - 1, 0), pp, pp + 1, 2 * pp - 1, 2 * pp, 2 * pp + 1, r.randint(0, 3 * pp + 7)])
    if single:
        n = size() if flavour != "last-partial" else pp + r.randint(1, max(pp - 1, 1))
        return r.randbytes(n)
    n = r.randint(1, 6) if p < 1000 else r.randint(1, 3)
    sizes = [size() for _ in range(n)]
    if flavour == "empty-file":
        sizes[r.randrange(n)] = 0
    if flavour == "last-partial":
        sizes[-1] = r.randint(1, max(pp - 1, 1))         # the file sorted last lies wholly inside the last, partial piece
        if n > 1 and sum(sizes[:-1]) % pp == 0:
            sizes[0] += 1 if pp > 1 else 0
    if n > 1 and r.random() < 0.3:
        # identical files (same bytes, same MD5, same length) listed apart: each copy is judged on its own bytes (added after seeded
        # change C02-19: an intact earlier copy vouched for an edited later one)
        sizes = [max(sizes[0], 1)] * n if r.random() < 0.5 else [max(sizes[0], 1), max(sizes[0], 1)] + sizes[2:]
        same_bytes = r.randbytes(sizes[0])
    else:
        same_bytes = None
    tree = {}
    for i in range(n):
        d = r.choice([[], [], [b"d1"], [b"d2"], [b"d1", b"deep"]])
        if flavour == "last-partial" and i == n - 1:
            d = [b"zz"]
        # names a shell or another platform would treat specially are ordinary bytes here (a back-slash is not a separator)
        # ... and names that are valid UTF-8 but not in Unicode normal form C (decomposed accents as macOS and many archivers
        # write them, OHM SIGN, conjoining jamo) are listed and opened byte for byte (added after seeded change C02-14: the
        # written path components were composed to NFC, so the fresh torrent named files that do not exist)
        leaf = b"zq%d" % i + r.choice([b"", b".bin", " é".encode(), b" sp", b"", b".bin", b" back\\slash", b"'q\"", b"#h", b"a:b", b"%41", b"-x",
                                       "e\u0301".encode(), "\u2126".encode(), "\u1112\u1161\u11ab".encode(), "u\u0308.bin".encode()])
        if d and r.random() < 0.25:
            d = d[:-1] + [d[-1] + r.choice(["a\u030a".encode(), "\u212b".encode()])]
        vfy.tree_set(tree, d + [leaf], same_bytes if same_bytes is not None and sizes[i] == len(same_bytes) else r.randbytes(sizes[i]))
    return tree


def gen_edit(r, world, name, p, counter, malformed):
    """one edit that applies to the current mirror"""
    node = world.get(name)
    files = walk_files(node) if node is not None else []
    dirs = walk_dirs(node) if node is not None else []
    single = isinstance(node, (bytes, bytearray))
    kinds = ["flip", "flip", "truncate", "append", "delete", "todir", "same", "add", "todir_holding"]
    if malformed:
        kinds += ["parent_to_file", "rm_root", "add", "delete"]
    for _ in range(20):
        k = r.choice(kinds)
        if k == "add":
            counter[0] += 1
            leaf = b"unlisted%d" % counter[0]
            if isinstance(node, dict) and r.random() < 0.7:
                d = r.choice([[]] + dirs + [[b"newdir"]])
                return ["add", [name] + d + [leaf], r.randbytes(r.randint(0, 2 * min(p, 64) + 1))]
            return ["add", [leaf], r.randbytes(r.randint(0, 9))]
        if k == "rm_root":
            if node is not None:
                return ["rm_root"]
            continue
        if k == "parent_to_file":
            if dirs:
                return ["parent_to_file", r.choice(dirs), r.randbytes(r.randint(0, 5))]
            continue
        if not files:
            continue
        # aim at piece boundaries of the concatenation in listed (sorted) order
        comps, data = r.choice(files)
        if k == "flip":
            if r.random() < 0.6:
                total = sum(len(d) for _, d in files)
                if total:
                    npieces = (total + p - 1) // p
                    g = r.choice([0, total - 1, (npieces - 1) * p, min(total - 1, (npieces - 1) * p + 1)] +
                                 [x for kk in (r.randint(1, max(npieces, 1)),) for x in (kk * p - 1, kk * p, kk * p + 1)])
                    g = min(max(g, 0), total - 1)
                    for c, d in files:
                        if g < len(d):
                            comps, data = c, d
                            return ["flip", comps, g]
                        g -= len(d)
            if data:
                return ["flip", comps, r.choice([0, len(data) - 1, r.randrange(len(data))])]
            continue
        if k == "truncate":
            if data:
                return ["truncate", comps, r.choice([0, len(data) - 1, len(data) // 2])]
            continue
        if k == "append":
            return ["append", comps, r.randbytes(r.choice([1, 1, 2, p]))[: max(1, min(p, 70))]]
        if k in ("delete", "todir", "same"):
            return [k, comps]
        if k == "todir_holding":
            # a directory in the file's place that holds the original bytes under the file's own name, the torrent's possible
            # names and the input's name: still not "a regular file holding the bytes" (added after seeded change C02-13: a
            # single-file torrent pointed at a directory was looked up inside it under the torrent's name)
            own = comps[-1] if comps else name
            return [k, comps, sorted({own, name, b"renamed", b"other name"})]
    return ["add", [b"unlisted-fallback%d" % counter[0]], b"x"]


def gen_case(r, idx):
    flavour = ["random", "random", "last-partial", "empty-file", "random", "malformed"][idx % 6]
    single = (idx % 4 == 1) and flavour != "empty-file"
    p = r.choice(BIG_P) if idx % 9 == 8 else r.choice(SMALL_P)
    if flavour == "last-partial" and p == 1:
        p = r.choice(SMALL_P[1:])
    content = gen_content(r, p, single, flavour)
    name = r.choice([b"in", b"in", b"my content", "näme".encode(), b"x"])
    layout = r.choice(["default", "default", "default", "name", "output"])
    style = r.choice(INPUT_STYLES_FILE if single else INPUT_STYLES_DIR)
    case = {"tag": flavour + ("/single" if single else "/multi"), "seed": r.randrange(1 << 24), "input_name": name,
            "content": content, "p": p, "md5": r.random() < 0.5, "layout": layout, "input_style": style,
            "verify_style": r.choice(["rel", "rel", "abs"]), "new_name": r.choice([b"renamed", b"other name"]), "ops": []}
    if not single and flavour != "malformed" and style in ("plain", "dot-slash", "abs", "trailing") and r.random() < 0.15:
        case["via_link"] = True
    # simulate to choose edits that apply
    world = {name: copy.deepcopy(content)}
    undo, counter = [], [0]
    ops = [["verify"]]
    nedits = r.randint(1, 8)
    for j in range(nedits):
        x = r.random()
        if undo and x < 0.18:
            world = undo.pop(); ops.append(["revert"])
        elif x < 0.28:
            ops.append(["recreate"])
        else:
            op = gen_edit(r, world, name, p, counter, flavour == "malformed")
            if flavour == "last-partial" and j == 0:
                fl = walk_files(world[name])
                if fl and fl[-1][1]:
                    op = r.choice([["flip", fl[-1][0], len(fl[-1][1]) - 1], ["truncate", fl[-1][0], len(fl[-1][1]) - 1],
                                   ["append", fl[-1][0], b"\x00"]])
            if flavour == "empty-file" and j == 0:
                em = [c for c, d in walk_files(world[name]) if not d]
                if em:
                    op = r.choice([["append", em[0], b"\x00"], ["todir", em[0]], ["delete", em[0]], ["same", em[0]]])
            snap = copy.deepcopy(world)
            if apply_mirror(world, name, op):
                undo.append(snap)
            ops.append(op)
        if r.random() < 0.8 or j == nedits - 1:
            ops.append(["verify"])
    if undo and r.random() < 0.5:
        while undo and r.random() < 0.8:
            undo.pop(); ops.append(["revert"])
        ops.append(["verify"])
    case["ops"] = ops
    return case


def corpus():
    """hand-written histories that run first in every tier"""
    tree = {b"a": b"abcde", b"d": {b"b": b"fghijkl"}, b"e": b""}
    base = {"seed": 1, "input_name": b"in", "content": tree, "p": 4, "md5": True, "layout": "default",
            "input_style": "plain", "verify_style": "rel", "new_name": b"renamed"}
    return [
        dict(base, tag="corpus: the example of Properties/C02.v",
             ops=[["verify"], ["flip", [b"d", b"b"], 6], ["verify"], ["add", [b"in", b"z"], b"\x01"], ["verify"],
                  ["recreate"], ["verify"], ["revert"], ["revert"], ["verify"]]),
        dict(base, tag="corpus: empty file replaced by a directory, then undone", md5=False,
             ops=[["verify"], ["todir", [b"e"]], ["verify"], ["revert"], ["verify"]]),
        dict(base, tag="corpus: single file, same-length change inside the last partial piece, no md5", content=b"0123456789", md5=False,
             ops=[["verify"], ["flip", [], 9], ["verify"], ["revert"], ["verify"], ["append", [], b"!"], ["verify"],
                  ["recreate"], ["verify"]]),
        dict(base, tag="corpus: input given as `.`, name taken from the working directory", input_style="dot", verify_style="rel",
             ops=[["verify"], ["delete", [b"a"]], ["verify"]]),
        dict(base, tag="corpus: --name with --content", layout="name",
             ops=[["verify"], ["truncate", [b"d", b"b"], 4], ["verify"]]),
    ]


# ------------------------------------------------------------------ shrinking
def fails(ctx, case, tmp, want_model):
    h = History(ctx, case, tmp).run()
    if h.fail:
        return h, list(h.fail)
    if want_model:
        rep = ctx.model([l for _, _, l in h.model_lines], nproc=1) if h.model_lines else []
        d = judge_models(h, rep)
        if d:
            return h, d
    return None, []


def shrink(ctx, case, tmp, want_model, budget=40):
    """drop steps while the history still fails"""
    best = case
    changed = True
    while changed and budget > 0:
        changed = False
        for i in range(len(best["ops"]) - 1, -1, -1):
            if budget <= 0:
                break
            cand = dict(best, ops=best["ops"][:i] + best["ops"][i + 1:])
            budget -= 1
            h, why = fails(ctx, cand, tmp, want_model)
            if h is not None:
                best, changed = cand, True
    return best


def describe(ctx, case, hist, why, models=True):
    script = reproduce_script(case, hist)
    return {"tag": case["tag"], "why": why, "case": vfy.to_js(case), "steps": hist.steps,
            "sandbox": hist.S, "reproduce": "./check C02 --replay <this file>", "shell": script}


def sh_bytes(b):
    return "'" + "".join("\\%03o" % x for x in b) + "'"


def reproduce_script(case, hist):
    """the implementation side as shell commands (only for small cases)"""
    total = sum(len(d) for _, d in walk_files(case["content"]))
    if total > 600:
        return None
    q = lambda b: "'" + os.fsdecode(b).replace("'", "'\\''") + "'"
    lines = ["S=$(mktemp -d); cd $S; mkdir out"]
    name = case["input_name"]
    if isinstance(case["content"], dict):
        lines.append("mkdir -p " + q(name))
        for d in walk_dirs(case["content"]):
            lines.append("mkdir -p " + q(os.path.join(name, *d)))
    for comps, data in walk_files(case["content"]):
        lines.append("printf %s > %s" % (sh_bytes(data), q(os.path.join(name, *comps) if comps else name)))
    for st in hist.steps:
        if "argv" in st:
            rel = os.path.relpath(st["cwd"], hist.S)
            lines.append("(cd %s && %s); echo \"exit $?\"" % (q(rel), " ".join(q(os.fsencode(a)) for a in st["argv"])))
        else:
            lines.append("# %s %s" % (st["op"], json.dumps(st.get("detail", ""))[:200]))
    return lines


# ------------------------------------------------------------------ the check
def hash_selftest(ctx):
    """the SHA-1 / MD5 of driver.d/endtoend.ml (they instantiate H and MD5 of the end-to-end composition) against hashlib;
    fixed messages and a private generator: ctx.rng is left alone so that the histories of a seed do not move"""
    import random
    r = random.Random(20261001)
    msgs = [b"", b"abc", b"a" * 55, b"a" * 56, b"a" * 63, b"a" * 64, b"a" * 119, b"a" * 120] + \
           [r.randbytes(r.randrange(0, 700)) for _ in range(16)]
    got = ctx.model(["e2esha1 " + lib.hexs(m) for m in msgs] + ["e2emd5 " + lib.hexs(m) for m in msgs], nproc=1)
    want = ["OK " + hashlib.sha1(m).hexdigest() for m in msgs] + ["OK " + hashlib.md5(m).hexdigest() for m in msgs]
    for m, g, wv in zip(msgs + msgs, got, want):
        if g != wv:
            ctx.violation("assumption-broken", "the end-to-end driver's SHA-1/MD5 differs from hashlib on %r" % m[:40],
                          {"message": m, "driver": g, "hashlib": wv})
            return


def run(ctx):
    ctx.need_coq()
    if not ctx.need_rust() or not ctx.need_runner():
        return finish(ctx)
    hash_selftest(ctx)
    vfy.big_piece_cases(ctx)
    vfy.platform_limit_cases(ctx)
    r = ctx.rng
    cases = corpus() + [gen_case(r, i) for i in range(ctx.n(170, 9000))]
    tmp = tempfile.mkdtemp(prefix="c02-")
    try:
        hists = lib.pmap(lambda c: History(ctx, c, tmp).run(), cases)
        lines = [l for h in hists for _, _, l in h.model_lines]
        replies = ctx.model(lines)
        k = 0
        reported_oracle = reported_model = 0
        for case, h in zip(cases, hists):
            rep = replies[k:k + len(h.model_lines)]
            k += len(h.model_lines)
            dis = judge_models(h, rep)
            account(ctx, case, h)
            if h.fail:
                if reported_oracle < 3:
                    small = shrink(ctx, case, tmp, False)
                    h2, why = fails(ctx, small, tmp, False)
                    if h2 is None:
                        small, h2, why = case, h, h.fail
                    ctx.violation("oracle-failure", "%s [%s]" % (why[0], small["tag"]), describe(ctx, small, h2, why))
                else:
                    ctx.violation("oracle-failure", "%s [%s]" % (h.fail[0], case["tag"]), describe(ctx, case, h, h.fail))
                reported_oracle += 1
            elif dis:
                ctx.cov["disagreements_checked"] += 1
                if reported_model < 2:
                    small = shrink(ctx, case, tmp, True, budget=25)
                    h2, why = fails(ctx, small, tmp, True)
                    if h2 is None:
                        small, h2, why = case, h, dis
                else:
                    small, h2, why = case, h, dis
                reported_model += 1
                ctx.violation("model-impl-disagreement", "%s; the disk-reading oracle finds nothing wrong [%s]" % (why[0], small["tag"]),
                              describe(ctx, small, h2, why))
    finally:
        shutil.rmtree(tmp, ignore_errors=True)
    # the whole pipeline (X7): the walker's own selection of the tree that is hashed, then verify
    create_walk.run(ctx, ctx.n(110, 2500))
    return finish(ctx)


def account(ctx, case, h):
    ctx.count("layout: " + case["layout"])
    ctx.count("input style: " + case["input_style"])
    ctx.count("flavour: " + case["tag"].split(":")[0])
    ctx.count("piece length %d" % case["p"])
    ctx.count("md5 " + ("on" if case["md5"] else "off"))
    sig = []
    for st in h.steps:
        op = st["op"]
        ctx.count("step: " + op.split(" (")[0] + (" (skipped)" if "skipped" in op else ""))
        if op == "verify" and "argv" in st:
            ctx.cov["evaluations"] += 1
            ctx.cov["traces_validated_against_impl"] += 1
            ctx.count("verify: exit %d" % st["exit_status"])
            for s in st["listed_state"]:
                ctx.count("listed file at verify: " + s.split(" ")[0] + (" length" if s.startswith("same length") else ""))
            ctx.distinct((case["tag"], case["layout"], tuple(sig), st["exit_status"], tuple(sorted(set(x.split(" ")[0] for x in st["listed_state"])))))
        elif op in ("create", "recreate") and "argv" in st:
            ctx.cov["evaluations"] += 1
            sig = sig + [op] if op == "recreate" else sig
            e = st.get("e2e")
            if e:
                ctx.cov["evaluations"] += 1
                ctx.cov["traces_validated_against_impl"] += 1
                ctx.count("end to end: create steps compared (model's torrent = loader model on the written bytes = independent reading)")
                ctx.count("end to end: side conditions " + ("hold, load (encode (build ..)) = creation result evaluated" if e["side_conditions"]
                                                            else "violated by the drawn options (malformed stream, nothing claimed)"))
                ctx.count("end to end: info dictionary " + ("compared byte for byte with the binary's" if e.get("info_compared")
                                                            else "not comparable (drawn options add private/source/update-url)"))
                ctx.count("end to end: %s, md5 %s" % ("multi-file" if (h.created or {}).get("multi") else "single file", "on" if case["md5"] else "off"))
                ctx.distinct(("e2e", case["tag"], case["layout"], case["p"], case["md5"], e["side_conditions"], e["info_free"], len(st.get("listed", []))))
        elif "skipped" not in op:
            sig = sig + [op]
    nfiles = len(walk_files(case["content"]))
    ctx.count("files: %d" % nfiles)
    if case["tag"].startswith("corpus: the example"):
        ctx.sample({"tag": case["tag"], "steps": [{k: v for k, v in st.items() if k in ("op", "argv", "exit_status", "named", "oracle_expects", "model")}
                                                  for st in h.steps]}, cap=3)
    elif h.steps and len(ctx.cov["samples"]) < 4 and any(st.get("exit_status") == 1 for st in h.steps):
        ctx.sample({"tag": case["tag"], "layout": case["layout"], "input_style": case["input_style"], "p": case["p"],
                    "steps": [(st["op"], st.get("exit_status"), st.get("named")) for st in h.steps]}, cap=4)


def finish(ctx):
    ctx.assumptions += [
        "SHA-1 and MD5 are functions of the bytes (Section variables H, MD5); the only-if direction of verify_tracks_content assumes "
        "that no two different blocks among those compared have the same SHA-1 (collision_free)",
        "a read on a regular file returns 0 only at end of file or for an empty window, otherwise between 1 and min(window, rest) "
        "bytes (both loops, every schedule)",
        "histories: the walker's selection and order are taken from the written torrent; create-walk cases: they are Walk.walk's (C06), proved and compared",
        "end to end (c02_created_bytes_load_back, c02_end_to_end): SHA-1 yields 20 bytes, MD5 yields 16 bytes each < 256 (Section "
        "hypotheses); the name and every selected component are valid UTF-8 (create refuses others before hashing; the composed model "
        "leaves them open) and every written integer fits i64 (C05's opts_ok / input_ok) - the examples c02_ex_needs_* show each is needed",
        "no symlinks, FIFOs, permission failures or concurrent modification among the listed paths",
    ] + create_walk.ASSUMPTIONS
    return ctx.finish(
        rule="seeded histories on the real binary: a tree of 1-6 files (or a single file) with sizes around multiples of the piece "
             "length incl. empty files and a last file wholly inside the last partial piece, piece lengths 1..64 and 16/32 KiB, --md5 "
             "on/off, default locations (six ways of writing the input, verify without --content) or --name/--output with --content; "
             "then 1-8 edits (flip a byte at first/last/piece boundary +-1, truncate, append, delete, replace by directory, rewrite "
             "same bytes, add unrelated file, revert, re-create --force) interleaved with verify; a malformed stream replaces parent "
             "directories by files and removes the input; five hand-written histories run first. One evaluation = one create or "
             "verify command; a verify step is distinct/non-trivial by (flavour, layout, edit kinds since creation, exit status, "
             "states of the listed files). End to end: every successful create / re-create step is also one evaluation of the extracted "
             "create -> build -> encode -> load composition with real digests and a seed-drawn set of metainfo options (announce, tiers, "
             "comment, nodes, created-by, date, allows; private/source/update-url in a third; about one in 17 leaves opts_ok: the "
             "malformed stream), compared with the loader model on the written bytes, the independent strict reader and hashlib; distinct "
             "by (flavour, layout, piece length, md5, side conditions, info-free, number of files). " + create_walk.RULE,
        trusted_base=["Coq 8.16.1 kernel (coqc)", "extraction with ExtrOcamlBasic + runner/driver.d/createverify.ml, verify.ml, endtoend.ml, createwalk.ml (SHA-1 in OCaml, checked against hashlib on every run)",
                      "Python oracle in tools/props/c02.py (os.stat, file reads, lib.bdecode_strict via vfy.read_torrent)"],
    )


def replay(ctx, path):
    doc = json.load(open(path))
    ctx.need_rust(); ctx.need_runner()
    if doc["case"].get("kind") == "create-walk":
        return create_walk.replay(ctx, doc["case"])
    case = vfy.from_js(doc["case"]["case"])
    tmp = tempfile.mkdtemp(prefix="c02-replay-")
    try:
        h = History(ctx, case, tmp).run()
        rep = ctx.model([l for _, _, l in h.model_lines], nproc=1) if h.model_lines else []
        dis = judge_models(h, rep)
        print("case  :", case["tag"], "| layout", case["layout"], "| input", case["input_style"], "| p", case["p"], "| md5", case["md5"])
        for st in h.steps:
            if "argv" in st:
                print("impl  : %-8s %s -> exit %s%s" % (st["op"], " ".join(st["argv"]), st["exit_status"],
                                                        ("  named " + repr(st["named"])) if st.get("named") else ""))
                if st["op"] == "verify":
                    print("oracle: expects %s (%s)" % (st["oracle_expects"], "; ".join(st["listed_state"])))
                    print("model :", st.get("model"))
            else:
                print("edit  :", st["op"], json.dumps(st.get("detail", ""))[:160])
        print("oracle failures :", h.fail or "none")
        print("model disagreements:", dis or "none")
    finally:
        shutil.rmtree(tmp, ignore_errors=True)
    return 0
