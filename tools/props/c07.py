"""C07 — `torrent show` reports what the file says.

Obligations: coq/Properties/C07.v (every JSON field = direct lookup in the decoded file; content size = unbounded
sum of the listed lengths, never a wrapped one; piece/file counts; the tab and terminal tables are the JSON values
under the documented rendering maps; sorted text file list is a permutation; stdin = path; labels and serde keys
regenerated from the Rust source).
Correspondence: the real binary (`show --json`, `show` piped = tab-delimited, `--terminal show`, the same bytes on
stdin) against the extracted Summary model on generated torrents, and against an independent Python reading of the
file (lib.bdecode_strict + hashlib + datetime + posixpath) which is the direct oracle.
Since X11 the model side runs with the concrete calendar (Model/Calendar.v, chrono 0.4.38's text and range) and the concrete
Display for Bytes (Model/ByteSize.v); `calendar_sweep` puts a deterministic boundary sweep and a few thousand random second
counts to the real binary, the extracted `Calendar.cal` / `cal_parse` and the Python calendar of this file."""
import zlib
import datetime, hashlib, ipaddress, json, os, posixpath, re, shutil, tempfile
import lib
import sys
sys.setrecursionlimit(max(sys.getrecursionlimit(), 30000))     # the corpus holds values nested ~2050 deep

MANIFEST = dict(
    text="Machine-checked proof over a Gallina model of the typed metainfo loader and of TorrentSummary (JSON fields, text "
         "table, tab and terminal renderers): for every decoded value the loader accepts, each reported field equals the "
         "direct lookup in the file, content size is the exact (unbounded) sum of the listed lengths and the loader rejects "
         "sums that do not fit 64 bits, counts are exact, and both text renderings carry the JSON values under the documented "
         "maps. Tied to the code by a translator (field order, labels, serde keys) and a correspondence run of the real binary "
         "in all three renderings and on stdin against the extracted model and an independent Python reader.",
    ref="DESIGN.md section 5, C07",
    technique="Coq proof over a Gallina model + translator-generated tables + model/implementation correspondence run",
    note="Modelled and proved since X11 (no longer assumed): chrono 0.4.38's calendar rendering of the creation date for every "
         "second count (text denotes exactly the stored integer, valid proleptic-Gregorian fields, strictly monotone, defined "
         "exactly up to 8210266876799 = 262142-12-31 23:59:59, the Creation Date row determines the stored integer) and Bytes "
         "Display (C16's model); both tied to the real binary by the run (boundary sweep + random second counts). Since X14 the "
         "url crate is concrete too inside stated fragments (Model/UrlConcrete.v: c_url_norm, c_host_disp over the X9 / X10 models): show "
         "prints update_url / dht_nodes as the normal form of what the file says and a file written in normal form byte for byte "
         "(c07_concrete_*), and show with no library variable left is compared with the binary on every file of the run inside the "
         "fragments. Assumed (Section variables of the general theorems, validated in the runs): url-crate normal forms of update-url and "
         "node hosts outside those fragments (IDNA / non-ASCII hosts, file: URLs, URLs without `//`). Trusted: Coq kernel, tools/rs2v_summary.py, extraction + runner/driver.d/summary.ml, calendar.ml, Python oracle "
         "in tools/props/c07.py. Info hash itself is C04's.")

U63 = (1 << 63) - 1
LABELS = ["Name", "Comment", "Creation Date", "Created By", "Source", "Info Hash", "Torrent Size", "Content Size",
          "Private", "Tracker", "Announce List", "Update URL", "DHT Nodes", "Piece Size", "Piece Count", "File Count", "Files"]
JSON_KEYS = ["name", "comment", "creation_date", "created_by", "source", "info_hash", "torrent_size", "content_size",
             "private", "tracker", "announce_list", "update_url", "dht_nodes", "piece_size", "piece_count", "file_count",
             "files"]


# ---------------------------------------------------------------- generators

WORDS = ["foo", "bar", "baz", "data", "x", "The Quick Brown", "archive.tar.gz", "a b", "linux-6.1", "README", "0", "-"]
UNI = ["é", "日本語", "🎉", "naïve café", "e\u0301", "Ω≈ç", "\u202eabc", "ß", "\u00a0", "\ufeff", "𝔘𝔫𝔦"]
CTRL = ["\t", "\n", "\r", "\x00", "\x1b[31m", "\x7f", "\x01", "\x0c", "\x08", "\r\n", " \n  x"]
PUNCT = ['"', "\\", "'", "</script>", "\\u0041", "{}", "%41", "a/b", "..", ".", "/", "│ └─", "Tier 1:", "yes", "null"]


def gstr(r, allow_empty=True):
    k = r.random()
    if k < 0.45:
        return r.choice(WORDS).encode()
    if k < 0.6:
        return r.choice(UNI).encode()
    if k < 0.72:
        return (r.choice(WORDS) + r.choice(CTRL) + r.choice(WORDS)).encode()
    if k < 0.82:
        return r.choice(PUNCT).encode()
    if k < 0.86 and allow_empty:
        return b""
    if k < 0.9:
        return "".join(chr(r.choice([r.randrange(1, 0x80), r.randrange(0x80, 0x800), r.randrange(0x800, 0xD800),
                                     r.randrange(0xE000, 0x10000), r.randrange(0x10000, 0x110000)]))
                       for _ in range(r.randrange(1, 6))).encode()
    return "".join(r.choice(WORDS + UNI + CTRL + PUNCT) for _ in range(r.randrange(2, 5))).encode()


def gcomp(r):
    """a path component the (repaired) loader accepts: non-empty, not . or .., no slash"""
    for _ in range(50):
        s = gstr(r, allow_empty=False)
        if s and s not in (b".", b"..") and b"/" not in s:
            return s
    return b"f"


def glen(r):
    k = r.random()
    if k < 0.5:
        return r.randrange(0, 1 << 20)
    if k < 0.7:
        return r.getrandbits(r.randrange(1, 64))
    if k < 0.8:
        return r.choice([0, 1, 1023, 1024, 1025, 1 << 32, (1 << 32) - 1, 1 << 53, (1 << 53) + 1])
    return r.choice([U63, U63 - 1, 1 << 62, (1 << 62) - 1, (1 << 62) + 1])


def gdate(r):
    k = r.random()
    if k < 0.55:
        return r.randrange(0, 253402300800)           # 1970 .. 9999
    if k < 0.7:
        return r.choice([0, 1, 59, 86399, 86400, 951782400, 951868799, 4102444800, 253402300799, 1 << 31, (1 << 31) - 1, 1 << 32])
    if k < 0.8:
        return r.randrange(253402300800, 6000000000000)  # years 10000 .. ~190000 (chrono prints +YYYYY)
    if k < 0.87:
        return r.choice([CHRONO_MAX, CHRONO_MAX - 1, CHRONO_MAX + 1, CHRONO_MAX - 86400, r.randrange(6000000000000, CHRONO_MAX + 1)])
    return r.choice([U63, 1 << 62, 1 << 50, 1 << 44, r.getrandbits(63) | (1 << 50)])  # outside chrono's range


def ghost(r):
    k = r.random()
    if k < 0.4:
        return ".".join(r.choice(["router", "dht", "a", "node-1", "x9", "tracker"]) for _ in range(r.randrange(1, 3))) + r.choice([".com", ".org", ".example", ".io"])
    if k < 0.7:
        return str(ipaddress.IPv4Address(r.getrandbits(32)))
    if r.random() < 0.3:
        # the corners of the IPv6 space where two printers disagree (IPv4-mapped and IPv4-compatible blocks, loopback,
        # unspecified, NAT64), in several spellings (added after seeded change C07-7: std's printer instead of the url crate's)
        return r.choice(["::1", "::", "::ffff:1.2.3.4", "::ffff:102:304", "::ffff:c000:201", "::1.2.3.4", "::102:304", "64:ff9b::1.2.3.4",
                         "fe80::1", "2001:db8::", "0:0:0:0:0:ffff:a00:1", "::ffff:0:0", "::ffff:255.255.255.255", "1::", "::1:0:0:0"])
    v = r.getrandbits(128) | (1 << 125)
    if r.random() < 0.5:                                  # runs of zero groups to exercise :: compression
        groups = [(v >> (16 * i)) & 0xffff for i in range(8)]
        for i in range(1, 8):
            if r.random() < 0.5:
                groups[i - 1] = 0
        v = sum(g << (16 * i) for i, g in enumerate(groups)) | (1 << 125)
    return ipaddress.IPv6Address(v).compressed


def gurl(r):
    scheme = r.choice(["http", "https", "udp", "ws"])
    host = r.choice(["example.com", "a.b", "tracker.example.org", "x", "10.1.2.3"])
    port = r.choice(["", "", ":8080", ":6969", ":1"])
    segs = [r.choice(["announce", "a", "b.c", "x_y", "feed-1", "v2", ""]) for _ in range(r.randrange(0, 4))]
    q = r.choice(["", "", "?x=1", "?a=b&c=d", "#frag"])
    return ("%s://%s%s/%s%s" % (scheme, host, port, "/".join(segs), q)).encode()


def gextra(r, depth=0):
    k = r.random()
    if k < 0.4 or depth > 2:
        return r.choice([0, 1, -1, U63, -(1 << 63), r.getrandbits(40)])
    if k < 0.7:
        return r.choice([b"", b"\xff\xfe", gstr(r)])
    if k < 0.85:
        return [gextra(r, depth + 1) for _ in range(r.randrange(0, 3))]
    return {gstr(r) + bytes([65 + i]): gextra(r, depth + 1) for i in range(r.randrange(0, 3))}


BIG_SUMS = [  # (lengths, fits in u64)
    ([U63, U63], True), ([U63, U63, 1], True), ([U63, U63, 2], False), ([U63, U63, U63], False),
    ([1 << 62] * 4, False), ([1 << 62] * 3 + [(1 << 62) - 1], True), ([U63, 1], True), ([U63, 0, U63, 0, 1, 1], False),
    ([1, U63, U63], True), ([2, U63, U63], False), ([U63] * 5, False), ([1 << 62] * 8, False), ([U63, 1 << 62], True),
]


def corpus():
    """hand-written cases that run before anything generated: the confirmed defect of DESIGN.md section 6 (three files
    of 2^63-1 bytes: the u64 `+=` fold overflowed - no report in debug, a wrapped content size in release) first, then
    the other sums around 2^64, then an unrepresentable creation date (the text forms used to panic)."""
    def t(lens, **top):
        d = {b"info": {b"name": b"n", b"piece length": 16384, b"pieces": b"",
                       b"files": [{b"length": n, b"path": [b"f%d" % i]} for i, n in enumerate(lens)]}}
        d.update({k.replace("_", " ").encode(): v for k, v in top.items()})
        return d
    out = [("corpus-sum-3x(2^63-1)", "reject", t([U63, U63, U63]))]
    for lens, fits in BIG_SUMS:
        if lens != [U63, U63, U63]:
            out.append(("corpus-sum", "accept" if fits else "reject", t(lens)))
    out.append(("corpus-date-2^63-1", "accept", t([1], creation_date=U63)))
    # inputs larger than the buffers between the file / the pipe and the loader (8 KiB BufReader, 64 KiB pipe): the same
    # report must come out for a path and for standard input (added after seeded change C07-6, a single fill_buf on stdin)
    def big(npieces, nfiles=0):
        info = {b"name": b"big", b"piece length": 16384, b"pieces": bytes((i * 7 + 3) % 251 for i in range(20 * npieces))}
        if nfiles:
            info[b"files"] = [{b"length": i + 1, b"path": [b"d%d" % (i % 9), b"f%05d" % i]} for i in range(nfiles)]
        else:
            info[b"length"] = 16384 * npieces
        return {b"info": info, b"comment": b"larger than the stdio buffers"}
    for npieces, nfiles in ((405, 0), (406, 0), (409, 0), (410, 0), (820, 0), (3300, 0), (15000, 0), (1, 300), (1, 2500)):
        out.append(("corpus-big-%d-pieces-%d-files" % (npieces, nfiles), "accept", big(npieces, nfiles)))
    out.append(("corpus-date-year-10000", "accept", t([1], creation_date=253402300800)))
    return out


def gen_spec(r, big=None):
    """a torrent the repaired loader should accept unless the length sum overflows. Returns (top, expect_fit)."""
    info = {b"name": gstr(r), b"pieces": bytes(r.getrandbits(8) for _ in range(20 * r.choice([0, 1, 1, 2, 3, 7])))}
    info[b"piece length"] = r.choice([1 << k for k in range(14, 25)] + [0, 1, 1000, U63, r.getrandbits(r.randrange(1, 64))])
    fits = True
    if big is not None:
        lens, fits = big
        info[b"files"] = [{b"length": n, b"path": [gcomp(r) for _ in range(r.randrange(1, 3))]} for n in lens]
    elif r.random() < 0.4:
        info[b"length"] = glen(r)
        if r.random() < 0.3:
            info[b"md5sum"] = "".join(r.choice("0123456789abcdefABCDEF") for _ in range(32)).encode()
    else:
        n = r.choice([0, 1, 1, 2, 2, 3, 3, 4, 5, 8, 13])
        files, dirs = [], [[]]
        for _ in range(n):
            base = list(r.choice(dirs))
            path = base + [gcomp(r) for _ in range(r.randrange(1, 3 if base else 4))]
            dirs.append(path[:-1]); dirs.append(path)   # later files may sit under (or collide with) earlier ones
            f = {b"length": glen(r) if r.random() < 0.8 else r.randrange(0, 1 << 61), b"path": path}
            if r.random() < 0.2:
                f[b"md5sum"] = ("%032x" % r.getrandbits(128)).encode()
            if r.random() < 0.15:
                f[r.choice([b"attr", b"\xffraw", b"mtime"])] = gextra(r)
            files.append(f)
        if r.random() < 0.1 and files:
            files.append({b"length": 1, b"path": []})   # an empty path list is accepted by the loader
        while sum(f[b"length"] for f in files) >= 1 << 64:
            files.pop()
        info[b"files"] = files
    if r.random() < 0.5:
        info[b"private"] = r.choice([0, 1, 1])
    if r.random() < 0.5:
        info[b"source"] = gstr(r)
    if r.random() < 0.4:
        info[b"update-url"] = gurl(r)
    for _ in range(r.choice([0, 0, 0, 1, 2])):
        info[r.choice([b"x-extra", b"collections", "ключ".encode(), b"file tree", b"meta version", b"zzz"])] = gextra(r)
    top = {b"info": info}
    if r.random() < 0.5:
        top[b"announce"] = r.choice([gurl(r), gstr(r), b"HTTP://Example.COM:80/../a", b"udp://[::1]:80"])
    if r.random() < 0.5:
        k = r.random()
        if k < 0.15:
            tiers = []
        elif k < 0.3:
            tiers = [[]]
        elif k < 0.4:
            tiers = [[gurl(r)] for _ in range(r.choice([10, 11, 12]))]     # two-digit tier numbers change the padding
        else:
            tiers = [[r.choice([gurl(r), gstr(r)]) for _ in range(r.choice([0, 1, 1, 2, 3]))] for _ in range(r.randrange(1, 4))]
        top[b"announce-list"] = tiers
    if r.random() < 0.5:
        top[b"comment"] = gstr(r)
    if r.random() < 0.5:
        top[b"created by"] = gstr(r)
    if r.random() < 0.5:
        top[b"creation date"] = gdate(r)
    if r.random() < 0.3:
        top[b"encoding"] = r.choice([b"UTF-8", b"", gstr(r)])
    if r.random() < 0.5:
        top[b"nodes"] = [[ghost(r).encode(), r.choice([0, 1, 80, 6881, 65535, r.randrange(65536)])] for _ in range(r.choice([0, 1, 2, 3]))]
    for _ in range(r.choice([0, 0, 0, 1, 2])):
        top[r.choice([b"url-list", b"httpseeds", b"azureus_properties", "ключ".encode(), b"a", b"zzz", b"publisher"])] = gextra(r)
    return top, fits


def gen_malformed(r):
    """mutate an acceptable torrent; returns (kind, bytes). Some mutants stay acceptable on purpose."""
    top, _ = gen_spec(r)
    info = top[b"info"]
    multi = b"files" in info and info[b"files"]
    muts = ["private2", "privateneg", "privatestr", "neglen", "strlen", "pieces19", "noname", "nopl", "nopieces", "noinfo",
            "nomode", "badutf8name", "badutf8comment", "datestr", "dateneg", "port65536", "portneg", "node1", "node3",
            "tiersflat", "announceint", "encodingint", "toplist", "infolist", "badkeytop", "badkeyinfo", "bothvalid",
            "truncate", "trailing", "flip", "unsorted", "md5short", "md5odd", "md5nonhex", "md5long", "overflow", "wideint",
            "nodehostbad", "urlbad", "plneg", "dupkey"]
    if multi:
        muts += ["compempty", "compdot", "compdotdot", "compslash", "compabs", "badutf8path", "pathstr", "fileneglen",
                 "badkeyfile", "bothneglen", "filemd5bad"] * 2
    m = r.choice(muts)
    raw = None
    f0 = info[b"files"][r.randrange(len(info[b"files"]))] if multi else None
    if m == "private2": info[b"private"] = r.choice([2, 255, 10])
    elif m == "privateneg": info[b"private"] = -1
    elif m == "privatestr": info[b"private"] = b"1"
    elif m == "neglen":
        info.pop(b"files", None); info[b"length"] = -r.randrange(1, 100)
    elif m == "strlen":
        info.pop(b"files", None); info[b"length"] = b"5"
    elif m == "pieces19": info[b"pieces"] = info[b"pieces"] + bytes(r.choice([1, 19, 21]))
    elif m == "noname": info.pop(b"name")
    elif m == "nopl": info.pop(b"piece length")
    elif m == "nopieces": info.pop(b"pieces")
    elif m == "noinfo": top.pop(b"info")
    elif m == "nomode":
        info.pop(b"files", None); info.pop(b"length", None)
    elif m == "badutf8name": info[b"name"] = r.choice([b"\xff", b"a\xc0\x80", b"\xed\xa0\x80", b"\xf4\x90\x80\x80", b"\xe2\x82", b"ok\x80"])
    elif m == "badutf8comment": top[b"comment"] = r.choice([b"\xfe", b"\xc3", b"\xe0\x80\x80", b"\xf0\x80\x80\x80"])
    elif m == "datestr": top[b"creation date"] = b"2020"
    elif m == "dateneg": top[b"creation date"] = -1
    elif m == "port65536": top[b"nodes"] = [[b"a.example", 65536]]
    elif m == "portneg": top[b"nodes"] = [[b"a.example", -1]]
    elif m == "node1": top[b"nodes"] = [[b"a.example"]]
    elif m == "node3": top[b"nodes"] = [[b"a.example", 1, 2]]
    elif m == "tiersflat": top[b"announce-list"] = [b"http://a/"]
    elif m == "announceint": top[b"announce"] = 7
    elif m == "encodingint": top[b"encoding"] = 7
    elif m == "toplist": raw = lib.bencode([top])
    elif m == "infolist": top[b"info"] = [info]
    elif m == "badkeytop": top[b"\xffkey"] = 1
    elif m == "badkeyinfo": info[b"\xffkey"] = 1
    elif m == "bothvalid":
        info[b"length"] = r.randrange(100); info[b"files"] = [{b"length": 7, b"path": [b"q"]}]
    elif m == "md5short": info.pop(b"files", None); info[b"length"] = 1; info[b"md5sum"] = b"abc"
    elif m == "md5odd": info.pop(b"files", None); info[b"length"] = 1; info[b"md5sum"] = b"0" * 31
    elif m == "md5nonhex": info.pop(b"files", None); info[b"length"] = 1; info[b"md5sum"] = b"g" * 32
    elif m == "md5long": info.pop(b"files", None); info[b"length"] = 1; info[b"md5sum"] = b"0" * 33
    elif m == "overflow":
        lens, _ = r.choice([b for b in BIG_SUMS if not b[1]])
        info.pop(b"length", None); info[b"files"] = [{b"length": n, b"path": [b"f%d" % i]} for i, n in enumerate(lens)]
    elif m == "wideint": top[r.choice([b"creation date", b"zzz"])] = r.choice([1 << 63, (1 << 64) - 1, 1 << 64, -(1 << 63) - 1])
    elif m == "nodehostbad": top[b"nodes"] = [[r.choice([b"", b"a b", b"[::1", b"1::2::3", b"x:y"]), 1]]
    elif m == "urlbad": info[b"update-url"] = r.choice([b"", b"not a url", b"http://", b"//x", b"http://[::1"])
    elif m == "plneg": info[b"piece length"] = -16384
    elif m == "compempty": f0[b"path"] = f0[b"path"] + [b""]
    elif m == "compdot": f0[b"path"] = [b"."] + f0[b"path"]
    elif m == "compdotdot": f0[b"path"] = [b".."] + f0[b"path"]
    elif m == "compslash": f0[b"path"] = [r.choice([b"a/b", b"a/", b"a/.", b"./a"])]
    elif m == "compabs": f0[b"path"] = [b"/etc/passwd"]
    elif m == "badutf8path": f0[b"path"] = [b"\xff\xfe"]
    elif m == "pathstr": f0[b"path"] = b"a"
    elif m == "fileneglen": f0[b"length"] = -5
    elif m == "badkeyfile": f0[b"\xffkey"] = 1
    elif m == "bothneglen": info[b"length"] = -1          # Single fails, Multiple is tried next and succeeds
    elif m == "filemd5bad": f0[b"md5sum"] = b"zz"
    if raw is None:
        raw = lib.bencode(top)
    if m == "truncate":
        raw = raw[:r.randrange(0, len(raw))]
    elif m == "trailing":
        raw = raw + r.choice([b"x", b"e", b"i0e", b"\n", b"garbage"])
    elif m == "flip":
        i = r.randrange(len(raw)); raw = raw[:i] + bytes([raw[i] ^ (1 << r.randrange(8))]) + raw[i + 1:]
    elif m == "unsorted":
        raw = b"d" + lib.bencode(b"zz") + b"i1e" + raw[1:]
    elif m == "dupkey":
        raw = raw[:-1] + lib.bencode(b"zzzz") + b"i1e" + lib.bencode(b"zzzz") + b"i2e" + b"e"
    return m, raw


# ---------------------------------------------------------------- the direct oracle (independent reading of the file)

def human(n):
    """Bytes Display as documented: binary units, two decimals, trailing zeros trimmed"""
    # the unit is judged on the value as a double (C16); the two decimals are the exact hundredths of the integer, rounded
    # half to even (C16 after fix 29789b9: computed from the integer, so exact above 2^53 too)
    v, i = float(n), 0
    while v >= 1024.0:
        v /= 1024.0; i += 1
    suffix = ("byte" if n == 1 else "bytes") if i == 0 else ["KiB", "MiB", "GiB", "TiB", "PiB", "EiB"][i - 1]
    unit = 1024 ** i
    q, r = divmod(100 * n, unit)
    h = q + (1 if 2 * r > unit or (2 * r == unit and q % 2) else 0)
    return ("%d.%02d" % (h // 100, h % 100)).rstrip("0").rstrip(".") + " " + suffix


def civil(days):
    """days since 1970-01-01 -> (y, m, d), proleptic Gregorian (own code; used beyond datetime's year 9999)"""
    z = days + 719468
    era = z // 146097
    doe = z - era * 146097
    yoe = (doe - doe // 1460 + doe // 36524 - doe // 146096) // 365
    y = yoe + era * 400
    doy = doe - (365 * yoe + yoe // 4 - yoe // 100)
    mp = (5 * doy + 2) // 153
    d = doy - (153 * mp + 2) // 5 + 1
    m = mp + 3 if mp < 10 else mp - 9
    return (y + (1 if m <= 2 else 0), m, d)


# the largest second count chrono 0.4.38 has a date for: 262142-12-31 23:59:59 (NaiveDate's MAX_YEAR = (i32::MAX >> 13) - 1).
# Measured on the real binary (8210266876799 prints `+262142-12-31 23:59:59 UTC`, 8210266876800 prints the integer), equal to
# Calendar.cal_max, and re-measured in every run by calendar_sweep.
CHRONO_MAX = 8210266876799


def days_from_civil(y, m, d):
    """(y, m, d), proleptic Gregorian -> days since 1970-01-01, by counting: whole years, their leap days, whole months
    (own code, deliberately not the inverse of `civil` above: a table of month lengths and the 4/100/400 rule)"""
    leap = lambda yy: yy % 4 == 0 and (yy % 100 != 0 or yy % 400 == 0)
    y0 = y - 1
    days = 365 * y0 + y0 // 4 - y0 // 100 + y0 // 400                 # days before 1 January of year y, from 0001-01-01
    days += sum([31, 29 if leap(y) else 28, 31, 30, 31, 30, 31, 31, 30, 31, 30, 31][:m - 1]) + d - 1
    return days - 719162                                              # 1970-01-01 is day 719162 from 0001-01-01


def calendar(ts):
    """text of the `creation date` row: chrono's `YYYY-MM-DD HH:MM:SS UTC` (`+` and five or more digits from the year 10000),
    or the plain number of seconds when chrono has no date for it (beyond the year 262142)"""
    if ts > CHRONO_MAX:
        return str(ts)
    if ts < 253402300800:
        return (datetime.datetime(1970, 1, 1) + datetime.timedelta(seconds=ts)).strftime("%Y-%m-%d %H:%M:%S UTC")
    y, m, d = civil(ts // 86400)
    s = ts % 86400
    return "+%d-%02d-%02d %02d:%02d:%02d UTC" % (y, m, d, s // 3600, s // 60 % 60, s % 60)


CAL_TEXT = re.compile(r"(\d{4}|\+[1-9]\d{4,})-(\d\d)-(\d\d) (\d\d):(\d\d):(\d\d) UTC")


def calendar_read(text):
    """the second count a printed calendar text denotes (None when it is not one): the oracle's own reading of the row"""
    m = CAL_TEXT.fullmatch(text)
    if not m:
        return None
    y, mo, d, hh, mi, ss = (int(x) for x in m.groups())
    leap = y % 4 == 0 and (y % 100 != 0 or y % 400 == 0)
    if not (1 <= mo <= 12 and 1 <= d <= [31, 29 if leap else 28, 31, 30, 31, 30, 31, 31, 30, 31, 30, 31][mo - 1]
            and hh < 24 and mi < 60 and ss < 60):
        return None
    return days_from_civil(y, mo, d) * 86400 + hh * 3600 + mi * 60 + ss


def host_display(h):
    """how `show` prints a node's host: an IPv6 literal, in whatever spelling the file has it, comes out in the URL standard's
    serialisation (hex groups, the first longest run of two or more zero groups compressed, never a dotted-quad tail) in
    brackets - which is what Python's `compressed` computes, independently of imdl and of the url crate"""
    if ":" in h:
        try:
            return "[" + ipaddress.IPv6Address(h).compressed + "]"
        except ValueError:
            return "[" + h + "]"
    return h


URL_NORMAL = re.compile(r"(http|https|udp|ws)://[a-z0-9.]+(:[1-9][0-9]*)?/[a-z0-9._/-]*(\?[a-z0-9=&]*)?(#[a-z]*)?")
DOMAIN_NORMAL = re.compile(r"[a-z][a-z0-9-]*(\.[a-z][a-z0-9-]*)*")


def url_is_normal(u):
    """conservative: spellings this oracle knows the url crate prints unchanged (what the generator emits)"""
    return bool(URL_NORMAL.fullmatch(u)) and "/./" not in u and "/../" not in u and not re.search(r"/\.\.?($|[?#])", u) \
        and not re.fullmatch(r"(http|ws)://[^/]*:80/.*|https://[^/]*:443/.*", u)


def host_is_normal(h):
    if DOMAIN_NORMAL.fullmatch(h) and not h.startswith("xn--") and ".xn--" not in h:
        return True
    try:
        a = ipaddress.ip_address(h)
    except ValueError:
        return False
    if a.version == 6:
        return True                                    # any spelling: host_display states the serialisation
    return a.compressed == h


class Unreadable(Exception):
    pass


def read_file(data):
    """What an independent bencode reader extracts (no typing beyond what is needed to name a field)."""
    try:
        v, _end = lib.bdecode_strict(data)
        span = lib.info_span(data)
    except Exception as e:
        raise Unreadable("independent reader cannot read an accepted file: %r" % e)
    info = lib.dget(v, "info")
    g = lambda d, k: lib.dget(d, k)

    def s(x):
        if x is None:
            return None
        if not isinstance(x, bytes):
            raise Unreadable("expected a string, found %r" % (x,))
        return x.decode("utf-8")

    length = g(info, "length")
    files = g(info, "files")
    name = s(g(info, "name"))
    # a `length` that is a non-negative integer makes it a single-file torrent (md5sum, when present, must be 32 hex digits)
    md5 = g(info, "md5sum")
    single = isinstance(length, int) and length >= 0 and (md5 is None or (isinstance(md5, bytes) and re.fullmatch(rb"[0-9a-fA-F]{32}", md5)))
    if single:
        paths, lens = None, [length]
    else:
        if not isinstance(files, list):
            raise Unreadable("neither length nor files")
        # a file entry is a dictionary or (serde's sequence form of a struct, which imdl reads; X4) the list [length, path, ...]
        fpath = lambda f: f[1] if isinstance(f, list) else g(f, "path")
        flen = lambda f: f[0] if isinstance(f, list) else g(f, "length")
        paths = [[c.decode("utf-8") for c in fpath(f)] for f in files]
        lens = [flen(f) for f in files]
    nodes = g(v, "nodes")
    al = g(v, "announce-list")
    return {
        "name": name, "comment": s(g(v, "comment")), "creation_date": g(v, "creation date"),
        "created_by": s(g(v, "created by")), "source": s(g(info, "source")),
        "info_hash": hashlib.sha1(span).hexdigest(), "torrent_size": len(data), "content_size": sum(lens),
        "private": g(info, "private") == 1, "tracker": s(g(v, "announce")),
        "announce_list": [[s(u) for u in tier] for tier in al] if al is not None else [],
        "update_url": s(g(info, "update-url")),
        "dht_nodes": ["%s:%d" % (host_display(s(h)), p) for h, p in nodes] if nodes is not None else [],
        "piece_size": g(info, "piece length"), "piece_count": len(g(info, "pieces")) // 20,
        "file_count": 1 if single else len(paths),
        "files": [name] if single else [posixpath.join(name, *p) if p else name for p in paths],
        # for the text forms
        "_paths": paths, "_has_al": al is not None, "_has_nodes": nodes is not None,
        "_pieces_len": len(g(info, "pieces")),
        "_url_normal": g(info, "update-url") is None or url_is_normal(s(g(info, "update-url"))),
        "_hosts_normal": nodes is None or all(host_is_normal(s(h)) for h, _ in nodes),
    }


def text_rows(x, size=str):
    """(label, [values]) in the documented order; optional rows absent; sizes through `size`."""
    rows = [("Name", [x["name"]])]
    if x["comment"] is not None: rows.append(("Comment", [x["comment"]]))
    if x["creation_date"] is not None: rows.append(("Creation Date", [calendar(x["creation_date"])]))
    if x["created_by"] is not None: rows.append(("Created By", [x["created_by"]]))
    if x["source"] is not None: rows.append(("Source", [x["source"]]))
    rows += [("Info Hash", [x["info_hash"]]), ("Torrent Size", [size(x["torrent_size"])]),
             ("Content Size", [size(x["content_size"])]), ("Private", ["yes" if x["private"] else "no"])]
    if x["tracker"] is not None: rows.append(("Tracker", [x["tracker"]]))
    if x["_has_al"]: rows.append(("Announce List", x["announce_list"]))
    if x["update_url"] is not None: rows.append(("Update URL", [x["update_url"]]))
    if x["_has_nodes"]: rows.append(("DHT Nodes", x["dht_nodes"]))
    rows += [("Piece Size", [size(x["piece_size"])]), ("Piece Count", [str(x["piece_count"])]),
             ("File Count", [str(x["file_count"])])]
    return rows


def sorted_paths(x):
    return sorted(x["_paths"], key=lambda p: [c.encode() for c in p])


def expected_tab(x):
    out = []
    for label, vals in text_rows(x):
        if label == "Announce List":
            vals = [u for tier in vals for u in tier]
        out.append(label.lower() + "\t" + "\t".join(vals) + "\n")
    files = [x["name"]] if x["_paths"] is None else [x["name"] + "/" + "/".join(p) for p in sorted_paths(x)]
    out.append("files\t" + "\t".join(files) + "\n")
    return "".join(out).encode()


def tree_tokens(x):
    """node names of the file tree, depth first, children in first-insertion order of the sorted paths, each with
    its box-drawing prefix"""
    root = {}
    for p in sorted_paths(x):
        d = root
        for c in p:
            d = d.setdefault(c, {})
    toks = [x["name"]]

    def walk(d, last):
        items = list(d.items())
        for i, (k, sub) in enumerate(items):
            fin = i == len(items) - 1
            toks.append("".join("  " if l else "│ " for l in last) + ("└─" if fin else "├─") + k)
            walk(sub, last + [fin])
    walk(root, [])
    return toks


def canon_ws(b):
    return re.sub(rb"[ \n]+", b" ", b).strip(b" ")


def expected_term_canon(x):
    toks = []
    for label, vals in text_rows(x, size=human):
        toks.append(label)
        if label == "Announce List":
            for i, tier in enumerate(vals):
                toks.append("Tier %d:" % (i + 1)); toks += tier
        else:
            toks += vals
    toks.append("Files")
    toks += [x["name"]] if x["_paths"] is None else tree_tokens(x)
    return canon_ws(" ".join(toks).encode())


def judge(data, runs):
    """The property, stated on the binary's outputs for one input. `runs` maps json/tab/term/stdin_json/stdin_tab to
    (rc, stdout, stderr). Returns (accepted, [failure strings], expected-reading or None)."""
    rcs = {k: v[0] for k, v in runs.items()}
    fails = []
    abnormal = {k: rc for k, rc in rcs.items() if rc not in (0, 1)}
    if abnormal:
        fails.append("no report: abnormal exit %s (%s)" % (abnormal, (runs[sorted(abnormal)[0]][2] or b"")[-160:].decode("utf-8", "replace").strip()))
    if all(rc == 1 for rc in rcs.values()):
        return False, fails, None
    if len(set(rcs.values())) > 1 and not abnormal:
        fails.append("the renderings disagree about accepting the file: %s" % rcs)
    try:
        x = read_file(data)
    except Unreadable as e:
        return True, fails + [str(e)], None
    except Exception as e:
        return True, fails + ["independent reader cannot interpret an accepted file: %r" % e], None
    if sum(1 for _ in [0]) and x["content_size"] >= 1 << 64 and rcs["json"] == 0:
        pass  # reported below through the field comparison (the printed number cannot equal the sum)
    skip = set()
    if not x["_url_normal"]: skip.add("update_url")
    if not x["_hosts_normal"]: skip.add("dht_nodes")
    if skip:
        # fields typed Url / Host are printed in url-crate normal form: take the printed spelling as the normaliser's
        # answer (it still has to be the same in every rendering) - counted by the caller
        try:
            got0 = json.loads(runs["json"][1].decode("utf-8"))
            for k in skip:
                if isinstance(got0.get(k), type(x[k])) and (k != "dht_nodes" or len(got0[k]) == len(x[k])):
                    x[k] = got0[k]
        except Exception:
            pass
    x["_skipped"] = sorted(skip)
    for which in ("json", "stdin_json", "devstdin_json", "fifo_json"):
        if which not in runs:
            continue
        rc, out, _ = runs[which]
        if rc != 0:
            continue
        try:
            if not out.endswith(b"\n") or b"\n" in out[:-1]:
                raise ValueError("not exactly one line")
            pairs = json.loads(out.decode("utf-8"), object_pairs_hook=list)
            got = dict(pairs)
            if not isinstance(pairs, list) or len(got) != len(pairs):
                raise ValueError("not one JSON object with distinct keys")
        except Exception as e:
            fails.append("%s: stdout is not one JSON object (%r)" % (which, e)); continue
        for k in JSON_KEYS:
            if k not in got:
                fails.append("%s: field %s missing" % (which, k))
            elif got[k] != x[k] or type(got[k]) is not type(x[k]):
                fails.append("%s: %s is %r, the file says %r" % (which, k, got[k], x[k]))
    if runs["json"][0] == 0 and runs["stdin_json"][0] == 0 and runs["json"][1] != runs["stdin_json"][1]:
        fails.append("the same bytes on stdin give a different JSON report")
    for which in ("devstdin_json", "fifo_json"):
        if which in runs and runs["json"][0] == 0 and runs[which][0] == 0:
            a, b = json.loads(runs["json"][1]), json.loads(runs[which][1])
            if a != b:
                fails.append("the same bytes through %s give a different JSON report" % ("/dev/stdin" if which == "devstdin_json" else "a named pipe"))
    et = expected_tab(x)
    for which in ("tab", "stdin_tab"):
        rc, out, _ = runs[which]
        if rc == 0 and et is not None and out != et:
            fails.append("%s: tab-delimited report differs from the file's values: first difference at %s" % (which, first_diff(out, et)))
    if runs["tab"][0] == 0 and runs["stdin_tab"][0] == 0 and runs["tab"][1] != runs["stdin_tab"][1]:
        fails.append("the same bytes on stdin give a different tab-delimited report")
    ec = expected_term_canon(x)
    rc, out, _ = runs["term"]
    if rc == 0 and ec is not None and canon_ws(out) != ec:
        fails.append("terminal report differs from the file's values: first difference at %s" % first_diff(canon_ws(out), ec))
    return True, fails, x


def first_diff(a, b):
    i = 0
    while i < min(len(a), len(b)) and a[i] == b[i]:
        i += 1
    return "byte %d: printed %r, expected %r" % (i, a[max(0, i - 20):i + 30], b[max(0, i - 20):i + 30])


# ---------------------------------------------------------------- running the binary and the model

ARGS = {
    "json": (["torrent", "show", "--input", "t.torrent", "--json"], False),
    "tab": (["torrent", "show", "--input", "t.torrent"], False),
    "term": (["--terminal", "torrent", "show", "--input", "t.torrent"], False),
    "stdin_json": (["torrent", "show", "--input", "-", "--json"], True),
    "stdin_tab": (["torrent", "show", "-"], True),
    # the same bytes through a path that is not a regular file: standard input spelled /dev/stdin, and a named pipe
    # (added after seeded change C07-14: a stat() before the read refused "empty" inputs, i.e. everything whose size is 0 to stat)
    "devstdin_json": (["torrent", "show", "--input", "/dev/stdin", "--json"], True),
    "fifo_json": (["torrent", "show", "--input", "t.fifo", "--json"], "fifo"),
}


TIME_ZONES = [None, "UTC", "XXX-5", "YYY8", "ZZZ-5:30", "AAA-14", None]


def run_binary(ctx, tmp, data):
    d = tempfile.mkdtemp(dir=tmp)
    with open(os.path.join(d, "t.torrent"), "wb") as f:
        f.write(data)
    runs = {}
    # the report must not depend on the process's time zone (dates are shown in UTC): POSIX TZ strings, chosen from the input
    tz = TIME_ZONES[zlib.crc32(data) % len(TIME_ZONES)]
    env = {"NO_COLOR": "1"}
    if tz is not None:
        env["TZ"] = tz
    for k, (argv, stdin) in ARGS.items():
        if stdin == "fifo":
            runs[k] = run_with_fifo(ctx, d, argv, data, env)
            continue
        runs[k] = ctx.imdl(argv, cwd=d, stdin=data if stdin else b"", env=env, timeout=60)
    shutil.rmtree(d, ignore_errors=True)
    return runs


def run_with_fifo(ctx, d, argv, data, env):
    """the input is the named pipe d/t.fifo; a thread feeds it the bytes once the binary has opened it (and gives up when the
    binary ends without ever opening it)"""
    import threading, time as _t
    path = os.path.join(d, "t.fifo")
    if not os.path.exists(path):
        os.mkfifo(path)
    stop = threading.Event()

    def feed():
        fd = None
        while not stop.is_set():
            try:
                fd = os.open(path, os.O_WRONLY | os.O_NONBLOCK); break
            except OSError:
                _t.sleep(0.003)
        if fd is None:
            return
        try:
            os.set_blocking(fd, True)
            view = memoryview(data)
            while view:
                n = os.write(fd, view[:65536]); view = view[n:]
        except OSError:
            pass
        finally:
            os.close(fd)
    th = threading.Thread(target=feed, daemon=True)
    th.start()
    try:
        return ctx.imdl(argv, cwd=d, env=env, timeout=60)
    finally:
        stop.set(); th.join(5)


def model_line(data, runs=None):
    """request for the extracted model: input, info hash (computed here with hashlib; C04 owns it), and the tables that
    instantiate the two Section variables still abstract: host display and url normal form. The calendar text and the
    humanised sizes are the model's own since X11 (Calendar.cal, ByteSize.bs_display through ShowConcrete.show_concrete)."""
    env = []
    ih = b""
    try:
        v, _ = lib.bdecode_strict(data)
        ih = hashlib.sha1(lib.info_span(data)).hexdigest().encode()
        info = lib.dget(v, "info")
        nodes = lib.dget(v, "nodes")
        if isinstance(nodes, list):
            for nd in nodes:
                if isinstance(nd, list) and nd and isinstance(nd[0], bytes) and b":" in nd[0]:
                    try:
                        env.append((b"H" + nd[0], host_display(nd[0].decode("utf-8")).encode()))   # the oracle's own serialisation
                    except UnicodeDecodeError:
                        env.append((b"H" + nd[0], b"[" + nd[0] + b"]"))
        if runs is not None and runs["json"][0] == 0:
            got = json.loads(runs["json"][1].decode("utf-8"))
            uu = lib.dget(info, "update-url")
            if isinstance(uu, bytes) and isinstance(got.get("update_url"), str) and not url_is_normal(uu.decode("utf-8")):
                env.append((b"U" + uu, got["update_url"].encode()))
            if isinstance(nodes, list) and isinstance(got.get("dht_nodes"), list) and len(nodes) == len(got["dht_nodes"]):
                for nd, shown in zip(nodes, got["dht_nodes"]):
                    h = nd[0].decode("utf-8")
                    if not host_is_normal(h) and shown.endswith(":%d" % nd[1]):
                        env = [e for e in env if e[0] != b"H" + nd[0]]
                        env.append((b"H" + nd[0], shown[:-len(":%d" % nd[1])].encode()))
    except Exception:
        pass
    envs = ",".join("%s:%s" % (lib.hexs(k), lib.hexs(val)) for k, val in env) if env else "~"
    return "c07showc %s %s %s" % (lib.hexs(data), lib.hexs(ih), envs)


def parse_jv(text):
    """the driver's compact printing of the model's JSON rows -> [(key, python value)]"""
    def val(s, i):
        c = s[i]
        if c == "~":
            return None, i + 1
        if c in "tf":
            return c == "t", i + 1
        if c == "n":
            m = re.compile(r"\d+").match(s, i + 1)
            return int(m.group(0)), m.end()
        if c == "s":
            m = re.compile(r"-|[0-9a-f]*").match(s, i + 1)
            return lib.unhex(m.group(0) or "-").decode("utf-8", "surrogateescape"), m.end()
        if c == "[":
            i += 1; out = []
            while s[i] != "]":
                v, i = val(s, i); out.append(v)
                if s[i] == "|":
                    i += 1
            return out, i + 1
        raise ValueError("bad jv at %d in %r" % (i, s[:80]))
    rows = []
    for item in text.split(";"):
        k, _, rest = item.partition("=")
        v, end = val(rest, 0)
        if end != len(rest):
            raise ValueError("trailing text in %r" % item[:80])
        rows.append((lib.unhex(k).decode(), v))
    return rows


def compare_model(reply, runs):
    """model vs implementation on the observables: accept/reject, JSON rows (parsed), tab bytes, terminal bytes"""
    diffs = []
    accepted = runs["json"][0] == 0
    if reply.startswith("REJ"):
        if accepted:
            diffs.append("model rejects (%s) but the binary prints a report" % reply)
        return "rej", diffs
    if reply.startswith("PANIC"):
        diffs.append("model reaches an arithmetic panic")
        return "panic", diffs
    if not reply.startswith("OK "):
        return "fail", ["model runner: %s" % reply[:200]]
    if not accepted:
        return "ok-implrej", diffs
    _, j, tab, term = reply.split(" ")
    try:
        got = json.loads(runs["json"][1].decode("utf-8"), object_pairs_hook=list)
        if parse_jv(j) != [(k, v) for k, v in got]:
            diffs.append("JSON rows differ: model %r, binary %r" % (parse_jv(j), got))
    except Exception as e:
        diffs.append("binary JSON unparseable: %r" % e)
    if runs["tab"][0] == 0 and lib.unhex(tab) != runs["tab"][1]:
        diffs.append("tab-delimited bytes differ: " + first_diff(runs["tab"][1], lib.unhex(tab)))
    if runs["term"][0] == 0 and lib.unhex(term) != runs["term"][1]:
        diffs.append("terminal bytes differ: " + first_diff(runs["term"][1], lib.unhex(term)))
    return "ok", diffs


# ---------------------------------------------------------------- the calendar against the real binary (X11)

def dated_torrent(ts):
    """a minimal single-file torrent whose only optional key is `creation date`"""
    return b"d13:creation datei%de4:infod6:lengthi1e4:name1:n12:piece lengthi16384e6:pieces0:ee" % ts


def calendar_boundaries():
    """deterministic sweep of second counts at the seams of the calendar and of chrono's range"""
    leap = lambda y: y % 4 == 0 and (y % 100 != 0 or y % 400 == 0)
    out = {}

    def add(ts, why):
        for k in (-1, 0, 1):
            if 0 <= ts + k < 1 << 64:
                out.setdefault(ts + k, why if k == 0 else "%s%+d" % (why, k))
    years = [1970, 1971, 1972, 1999, 2000, 2001, 2004, 2037, 2038, 2100, 2101, 2200, 2300, 2400, 9999, 10000, 10001, 10100, 10400,
             99999, 100000, 100001, 262000, 262100, 262141, 262142]
    for y in years:
        for m in range(1, 13):
            add(days_from_civil(y, m, 1) * 86400, "first second of %d-%02d" % (y, m))      # -1: last second of the month before
        add(days_from_civil(y, 2, 28) * 86400 + 86399, "%d-02-28 23:59:59 (%s year)" % (y, "leap" if leap(y) else "common"))
        add(days_from_civil(y, 3, 1) * 86400, "%d-03-01" % y)
        add(days_from_civil(y, 12, 31) * 86400 + 86399, "last second of %d" % y)
        for hh, mm, ss in ((0, 0, 59), (0, 59, 59), (12, 0, 0), (23, 59, 0)):
            add(days_from_civil(y, 6, 15) * 86400 + hh * 3600 + mm * 60 + ss, "time of day")
    for ts, why in ((0, "epoch"), (59, "minute"), (3599, "hour"), (86399, "day"), (946684799, "1999-12-31 23:59:59"),
                    ((1 << 31) - 1, "2^31-1"), (1 << 31, "2^31 (2038-01-19)"), ((1 << 32) - 1, "2^32-1"), (1 << 32, "2^32"),
                    (253402300799, "9999-12-31 23:59:59"), (253402300800, "year 10000"), (1 << 40, "2^40"), (1 << 43, "2^43"),
                    (CHRONO_MAX - 1, "largest-1"), (CHRONO_MAX, "largest representable"), (CHRONO_MAX + 1, "largest+1"),
                    (days_from_civil(262143, 1, 1) * 86400 + 86400, "second day of 262143"),
                    ((1 << 31) * 86400, "day count 2^31"), (((1 << 31) - 719163 - 365) * 86400, "day count near i32::MAX"),
                    (1 << 53, "2^53"), (1 << 62, "2^62"), ((1 << 63) - 1, "2^63-1"), (1 << 63, "2^63"), ((1 << 64) - 1, "2^64-1")):
        add(ts, why)
    return sorted(out.items())


def calendar_random(r, n):
    out = []
    for _ in range(n):
        k = r.random()
        if k < 0.45:                                   # log-uniform in size, inside chrono's range
            bits = r.randrange(1, 44)
            out.append(min(r.getrandbits(bits) | (1 << (bits - 1)), CHRONO_MAX))
        elif k < 0.7:                                  # uniform over the range
            out.append(r.randrange(0, CHRONO_MAX + 1))
        elif k < 0.8:                                  # today's clocks
            out.append(r.randrange(0, 1 << 32))
        else:                                          # log-uniform in size over the whole u64
            bits = r.randrange(1, 65)
            out.append(r.getrandbits(bits) | (1 << (bits - 1)))
    return out


def calendar_sweep(ctx, tmp):
    """Calendar.cal (the extracted model), the Creation Date row the REAL binary prints (`imdl torrent show` piped, on a
    minimal torrent with that creation date) and this file's Python calendar, three ways, on the boundary sweep and on random
    second counts; the specification-side reader (Calendar.cal_parse, and the oracle's calendar_read) is applied to the text
    the real binary printed and must give back the stored integer."""
    cases = [(ts, "boundary", why) for ts, why in calendar_boundaries()]
    cases += [(ts, "random", "random") for ts in calendar_random(ctx.rng, ctx.n(3000, 60000))]
    info_hash = hashlib.sha1(b"d6:lengthi1e4:name1:n12:piece lengthi16384e6:pieces0:e").hexdigest().encode()

    def run_one(c):
        ts = c[0]
        d = tempfile.mkdtemp(dir=tmp)
        data = dated_torrent(ts)
        with open(os.path.join(d, "t.torrent"), "wb") as f:
            f.write(data)
        env = {"NO_COLOR": "1"}
        tz = TIME_ZONES[ts % len(TIME_ZONES)]
        if tz is not None:
            env["TZ"] = tz
        res = ctx.imdl(["torrent", "show", "--input", "t.torrent"], cwd=d, env=env, timeout=60)
        shutil.rmtree(d, ignore_errors=True)
        return res
    outs = lib.pmap(run_one, cases)
    rows = []
    for (rc, out, err) in outs:
        row = None
        if rc == 0:
            for line in out.split(b"\n"):
                if line.startswith(b"creation date\t"):
                    row = line[len(b"creation date\t"):]
        rows.append(row)
    lines = []
    for (ts, _, _), row in zip(cases, rows):
        lines.append("cal %d" % ts)
        lines.append("calrange %d" % ts)
        lines.append("calparse %s" % lib.hexs(row if row is not None else b""))
        lines.append("c07showc %s %s ~" % (lib.hexs(dated_torrent(ts)), lib.hexs(info_hash)))
    replies = ctx.model(lines)
    for i, ((ts, kind, why), (rc, out, err), row) in enumerate(zip(cases, outs, rows)):
        m_cal, m_range, m_parse, m_show = replies[4 * i: 4 * i + 4]
        ctx.cov["evaluations"] += 1
        ctx.cov["traces_validated_against_impl"] += 1
        ctx.count("calendar_" + kind)
        ctx.distinct(("calendar", ts))
        case = {"kind": "calendar-" + kind, "why": why, "creation_date": ts, "torrent_hex": dated_torrent(ts).hex(), "rc": rc,
                "row": None if row is None else row.decode("utf-8", "replace"), "stderr": err.decode("utf-8", "replace")[-300:],
                "model": {"cal": m_cal, "calrange": m_range, "calparse": m_parse, "show": m_show[:400]},
                "reproduce": "printf %s | xxd -r -p > t.torrent; imdl torrent show --input t.torrent | cat" % dated_torrent(ts).hex()}
        # -- the direct oracle: what the row must be, from the integer alone
        if ts >= 1 << 63:
            # the integer does not fit the i64 every bencode integer is read into: the file is refused (exit 1, no report)
            ctx.count("calendar_form_refused_ge_2^63")
            if rc == 0:
                ctx.violation("model-impl-disagreement", "creation date %d >= 2^63 but the binary printed a report" % ts, case)
            elif rc != 1:
                ctx.violation("oracle-failure", "show exits abnormally (%d) on creation date %d" % (rc, ts), case)
            elif m_cal != "NONE" or m_range != "OK 0" or m_show != "REJ":
                ctx.cov["disagreements_checked"] += 1
                ctx.violation("model-impl-disagreement", "model has a calendar text / a report for creation date %d >= 2^63 (%s, %s, %s)"
                              % (ts, m_cal, m_range, m_show[:40]), case)
            continue
        want = calendar(ts)
        form = "integer" if ts > CHRONO_MAX else "year>9999" if ts >= 253402300800 else "year<=9999"
        ctx.count("calendar_form_" + form)
        if rc != 0 or row is None:
            ctx.violation("oracle-failure", "show prints no Creation Date row for creation date %d (exit %d)" % (ts, rc), case)
            continue
        if row != want.encode():
            ctx.violation("oracle-failure", "Creation Date row for %d (%s) is %r, the calendar says %r" % (ts, why, row, want), case)
            continue
        if ts <= CHRONO_MAX and calendar_read(want) != ts:
            ctx.violation("oracle-failure", "the printed calendar text %r does not denote the stored integer %d (it denotes %r)"
                          % (want, ts, calendar_read(want)), case)
            continue
        # -- model against implementation
        m_want = ("OK " + lib.hexs(row)) if ts <= CHRONO_MAX else "NONE"
        p_want = ("OK %d" % ts) if ts <= CHRONO_MAX else "NONE"      # a decimal numeral is not a calendar text
        r_want = "OK 1" if ts <= CHRONO_MAX else "OK 0"
        diffs = []
        if m_cal != m_want:
            diffs.append("Calendar.cal %d = %s, the binary prints %r" % (ts, m_cal, row))
        if m_range != r_want:
            diffs.append("Calendar.chrono_accepts %d = %s, the binary prints %r" % (ts, m_range, row))
        if m_parse != p_want:
            diffs.append("Calendar.cal_parse of the printed row %r = %s, stored %d" % (row, m_parse, ts))
        if not m_show.startswith("OK ") or lib.unhex(m_show.split(" ")[2]) != out:
            diffs.append("the whole tab-delimited report differs between model (%s) and binary (%r)" % (m_show[:60], out[:200]))
        if diffs:
            ctx.cov["disagreements_checked"] += 1
            ctx.violation("model-impl-disagreement", "Calendar model and binary differ on creation date %d (%s): %s" % (ts, why, diffs[0][:300]),
                          dict(case, diffs=diffs))
            continue
        if kind == "boundary" and why in ("largest representable", "largest+1", "year 10000", "2^31 (2038-01-19)"):
            ctx.sample({"creation_date": ts, "why": why, "row": row.decode()}, cap=8)


def repro(data):
    return ("printf %s | xxd -r -p > t.torrent; imdl torrent show --input t.torrent --json; imdl torrent show --input t.torrent | cat; "
            "imdl --terminal torrent show --input t.torrent; imdl torrent show --input - --json < t.torrent" % data.hex())


def shrink(ctx, tmp, top, still_fails):
    """greedy structural shrinking of a generated torrent while the oracle still fails"""
    import copy
    cur = copy.deepcopy(top)
    changed = True
    while changed:
        changed = False
        cands = []
        for k in list(cur):
            if k != b"info":
                cands.append(("top", k))
        info = cur.get(b"info", {})
        if isinstance(info, dict):
            for k in list(info):
                if k not in (b"name", b"pieces", b"piece length", b"length", b"files"):
                    cands.append(("info", k))
            if isinstance(info.get(b"files"), list):
                for i in range(len(info[b"files"])):
                    cands.append(("file", i))
            if info.get(b"pieces"):
                cands.append(("pieces", None))
        for kind, k in cands:
            t = copy.deepcopy(cur)
            try:
                if kind == "top": del t[k]
                elif kind == "info": del t[b"info"][k]
                elif kind == "file": del t[b"info"][b"files"][k]
                elif kind == "pieces": t[b"info"][b"pieces"] = b""
            except Exception:
                continue
            if still_fails(lib.bencode(t)):
                cur = t; changed = True
                break
    return cur


def run(ctx):
    ctx.need_coq()
    if not ctx.need_rust() or not ctx.need_runner():
        return finish(ctx)
    r = ctx.rng
    cases = []   # (kind, expect, top-or-None, bytes)
    for name, expect, top in corpus():                   # regression corpus first (past findings, the 2^64 boundary)
        cases.append((name, expect, top, lib.bencode(top)))
    # X4: where the C07 model was repaired after comparison with the other loader models - serde's sequence form of a
    # file entry is printed like the dictionary form; nesting deeper than 2048 is refused (2047 levels under a top-level key fit)
    seqf = {b"info": {b"name": b"n", b"piece length": 16384, b"pieces": b"",
                      b"files": [[5, [b"a"]], [7, [b"d", b"e"], b"0" * 32], {b"length": 1, b"path": [b"z"]}]}}
    cases.append(("corpus-file-entries-as-sequences", "accept", seqf, lib.bencode(seqf)))
    bad = {b"info": {b"name": b"n", b"piece length": 16384, b"pieces": b"", b"files": [[5, [b"a"], b"0" * 32, 1]]}}
    cases.append(("corpus-file-entry-sequence-of-four", "reject", bad, lib.bencode(bad)))
    plain = lib.bencode({b"info": {b"name": b"n", b"piece length": 16384, b"pieces": b"", b"length": 3}})
    for n, exp in ((2047, "accept"), (2048, "reject")):
        cases.append(("corpus-unknown-key-nested-%d" % n, exp, None, plain[:-1] + b"3:zzz" + b"l" * n + b"e" * n + b"e"))
    for _ in range(ctx.n(360, 9000)):
        top, fits = gen_spec(r, big=r.choice(BIG_SUMS) if r.random() < 0.06 else None)
        cases.append(("valid", "accept" if fits else "reject", top, lib.bencode(top)))
    for _ in range(ctx.n(240, 5000)):
        m, raw = gen_malformed(r)
        cases.append(("mal-" + m, None, None, raw))
    tmp = tempfile.mkdtemp(prefix="c07-")
    try:
        allruns = lib.pmap(lambda c: run_binary(ctx, tmp, c[3]), cases)
        rendering_follows_stdout_only(ctx, tmp, cases)
        replies = ctx.model([model_line(c[3], rr) for c, rr in zip(cases, allruns)])
        for (kind, expect, top, data), runs, reply in zip(cases, allruns, replies):
            ctx.cov["evaluations"] += 1
            ctx.cov["traces_validated_against_impl"] += 1
            ctx.count("corpus" if kind.startswith("corpus") else kind)
            accepted, fails, x = judge(data, runs)
            mstate, diffs = compare_model(reply, runs)
            case = {"kind": kind, "torrent_hex": data.hex(), "rc": {k: v[0] for k, v in runs.items()},
                    "json_stdout": runs["json"][1].decode("utf-8", "replace")[:3000],
                    "stderr": runs["json"][2].decode("utf-8", "replace")[-400:], "model": reply[:600],
                    "oracle_reading": {k: v for k, v in (x or {}).items() if not k.startswith("_")}, "reproduce": repro(data)}
            if accepted:
                ctx.count("accepted")
                if x is not None:
                    for k in x.get("_skipped", []):
                        ctx.count("non_normal_%s_compared_modulo_normaliser" % k)
                    ctx.distinct((x["file_count"], x["_paths"] is None, x["comment"] is None, x["creation_date"] is None,
                                  x["created_by"] is None, x["source"] is None, x["tracker"] is None, x["_has_al"],
                                  x["update_url"] is None, x["_has_nodes"], x["private"], x["content_size"].bit_length() // 8))
                    ctx.count("files_%s" % ("single" if x["_paths"] is None else min(x["file_count"], 5)))
                    if x["content_size"] >= 1 << 63: ctx.count("content_size_ge_2^63")
                    if x["creation_date"] is not None:
                        ctx.count("date_" + ("year<=9999" if x["creation_date"] < 253402300800 else "year>9999" if x["creation_date"] <= CHRONO_MAX else "unrepresentable"))
                    if any(ord(ch) < 32 or ord(ch) > 126 for s in [x["name"], x["comment"] or "", x["source"] or "", x["created_by"] or ""] for ch in s):
                        ctx.count("unicode_or_control_in_strings")
            else:
                ctx.count("rejected")
            if fails:
                if top is not None:
                    def still(b):
                        a2, f2, _ = judge(b, run_binary(ctx, tmp, b))
                        return bool(f2)
                    small = lib.bencode(shrink(ctx, tmp, top, still))
                    a2, f2, x2 = judge(small, run_binary(ctx, tmp, small))
                    if f2:
                        case.update({"torrent_hex": small.hex(), "reproduce": repro(small), "failures": f2,
                                     "oracle_reading": {k: v for k, v in (x2 or {}).items() if not k.startswith("_")},
                                     "unshrunk_hex": data.hex()})
                        fails = f2
                case["failures"] = fails
                ctx.violation("oracle-failure", "show misreports %s: %s" % (kind, fails[0][:300]), case)
                continue
            if expect == "accept" and not accepted:
                ctx.cov["disagreements_checked"] += 1
                ctx.violation("model-impl-disagreement", "a generated well-formed torrent is rejected by the binary (%s)" %
                              runs["json"][2].decode("utf-8", "replace")[-200:].strip(), case)
                continue
            if expect == "reject" and accepted:
                # the oracle found the printed numbers right (sum < 2^64 would be needed) - cannot happen; kept for completeness
                ctx.violation("model-impl-disagreement", "length sum >= 2^64 but the binary printed a report the oracle accepts", case)
                continue
            if diffs:
                ctx.cov["disagreements_checked"] += 1
                ctx.violation("model-impl-disagreement", "Summary model and binary differ (%s): %s" % (kind, diffs[0][:300]),
                              dict(case, diffs=diffs))
                continue
            if mstate == "ok-implrej":
                ctx.count("impl_rejects_unmodelled:" + kind)
            if kind == "valid" and accepted:
                ctx.sample({"torrent_hex": data.hex()[:400], "json": runs["json"][1].decode("utf-8", "replace")[:400]}, cap=3)
        x14_tie(ctx, cases, allruns)
        calendar_sweep(ctx, tmp)
    finally:
        shutil.rmtree(tmp, ignore_errors=True)
    # end to end with create (X5, c07_created_bytes_show_back): real `create`, then `show` of the written file, against the
    # extracted composition build -> encode -> loader -> report and against the command line itself
    from props import e2e_create
    e2e_create.run_show(ctx, ctx.n(150, 2500))
    return finish(ctx)


def x14_tie(ctx, cases, allruns):
    """X14: `torrent show` with NO url-crate variable left (UrlConcrete.c_show = show_concrete at c_host_disp / c_url_norm) against
    the real binary, on every file of the run whose update-url and node hosts the model places inside the fragments; and every
    update-url, node host and encoded node of the run through the instances and the hooks (urlconcrete.Tie)."""
    from props import urlconcrete
    tie = urlconcrete.Tie(ctx, "c07")
    for (kind, expect, top, data), runs in zip(cases, allruns):
        try:
            v, _ = lib.bdecode_strict(data)
        except Exception:
            continue
        uu = lib.dget(lib.dget(v, "info"), "update-url")
        if isinstance(uu, bytes):
            tie.url(uu, "info.update-url of a torrent (%s)" % kind)
        nodes = lib.dget(v, "nodes")
        for nd in nodes if isinstance(nodes, list) else []:
            tie.node(lib.bencode(nd), "node of a torrent (%s)" % kind)
            if isinstance(nd, list) and nd and isinstance(nd[0], bytes):
                tie.host(nd[0], "node host of a torrent (%s)" % kind)
                if len(nd) == 2 and isinstance(nd[1], int) and not isinstance(nd[1], bool) and 0 <= nd[1] < 65536:
                    tie.hostport(urlconcrete.rebracket(nd[0]) + b":%d" % nd[1], "node of a torrent as show prints it (%s)" % kind)
    from props import c17, urlnorm
    for _ in range(ctx.n(300, 5000)):                       # more hosts and update URLs than the files of the run carry
        tie.host(ghost(ctx.rng).encode(), "c07 node host generator")
        tie.url(gurl(ctx.rng), "c07 update-url generator")
        k = ctx.rng.random()                                # C17's spellings: odd domains, IPv4 in every radix, IPv6 in every form
        h = c17.host_domain(ctx.rng) if k < 0.35 else c17.host_ipv4(ctx.rng) if k < 0.6 else c17.host_ipv6(ctx.rng)
        tie.host(h, "c17 host generator (as a stored node host)")
    for h in list(urlnorm.HOSTS) + list(c17.V4_EDGES) + c17.host_ipv6_sweep(ctx.rng)[::3]:
        tie.host(urlconcrete.unbracket(h.encode("utf-8")), "recorded odd host spellings (as a stored node host)")
    tie.run()
    replies = ctx.model(["c_show " + lib.hexs(c[3]) for c in cases])
    for (kind, expect, top, data), runs, rep in zip(cases, allruns, replies):
        f = rep.split(" ")
        ctx.cov["evaluations"] += 1
        case = {"kind": kind, "x14": "c_show", "torrent_hex": data.hex(), "model": rep[:600], "rc": runs["json"][0],
                "json_stdout": runs["json"][1].decode("utf-8", "replace")[:2000], "reproduce": repro(data)}
        if f[0] not in ("IN", "OUT") or len(f) < 2:
            ctx.violation("infrastructure", "X14 c_show: model runner replied %r" % rep[:200], case); continue
        if f[0] == "OUT":
            ctx.count("x14_show_out_of_fragment"); continue
        ctx.count("x14_show_in_fragment")
        accepted = runs["json"][0] == 0
        if f[1] == "REJ":
            ctx.cov["traces_validated_against_impl"] += 1
            if accepted:
                ctx.cov["disagreements_checked"] += 1
                ctx.violation("model-impl-disagreement", "X14: show with the concrete url-crate instances refuses a file (inside the fragments) "
                              "for which the binary prints a report (%s)" % kind, case)
            continue
        if not accepted:
            ctx.count("x14_show_model_ok_impl_rejects:" + kind); continue
        ctx.cov["traces_validated_against_impl"] += 1
        try:
            got = json.loads(runs["json"][1].decode("utf-8"))
        except Exception:
            continue
        want_upd = None if f[2] == "~" else lib.unhex(f[2]).decode("utf-8", "replace")
        want_nodes = [x.decode("utf-8", "replace") for x in lib.unhexlist(f[3])]
        ctx.distinct(("x14-show", want_upd is None, len(want_nodes), (want_upd or "")[:10]))
        if got.get("update_url") != want_upd or (got.get("dht_nodes") or []) != want_nodes:
            ctx.cov["disagreements_checked"] += 1
            ctx.violation("model-impl-disagreement", "X14: update_url / dht_nodes printed by the binary %r / %r, by show with the concrete "
                          "url-crate instances %r / %r" % (got.get("update_url"), got.get("dht_nodes"), want_upd, want_nodes), case)
        # the tie's own tables: what show printed is c_host_disp of the stored host
        try:
            v, _ = lib.bdecode_strict(data)
            nodes = lib.dget(v, "nodes")
            if isinstance(nodes, list) and isinstance(got.get("dht_nodes"), list) and len(nodes) == len(got["dht_nodes"]):
                for nd, shown in zip(nodes, got["dht_nodes"]):
                    tail = ":%d" % nd[1]
                    if shown.endswith(tail):
                        tie.observed_host(nd[0], shown[:-len(tail)].encode(), "dht_nodes of the binary's report", field="disp", what="prints")
            uu = lib.dget(lib.dget(v, "info"), "update-url")
            if isinstance(uu, bytes) and isinstance(got.get("update_url"), str):
                tie.observed_url(uu, got["update_url"].encode(), "update_url of the binary's report", what="prints")
        except Exception:
            pass


def finish(ctx):
    ctx.assumptions += [
        "chrono 0.4.38's rendering of the creation date is MODELLED (Model/Calendar.v: closed-form civil-from-days where chrono "
        "walks its tables; proved for every second count) and tied to the real binary by the calendar sweep of this run; Bytes "
        "Display is C16's model (ByteSize.bs_display); neither is a Section variable of the run any more",
        "url-crate normal form of update-url and of node hosts: Section variables url_norm, host_disp in the older theorems; since X14 "
        "concrete inside the fragments of Model/UrlConcrete.v (c_url_norm, c_host_disp; c07_concrete_*), where show with no library variable "
        "left (c_show) is compared with the binary on every file of this run",
        "every integer in an accepted file fits i64 (bendy Value decoding in Infohash::from_input; exercised by the wideint mutants)",
    ]
    return ctx.finish(
        rule="generated torrents (single/multi file, each optional key present with probability 1/2, unicode/control/punctuation "
             "strings, IPv4/IPv6/domain nodes, empty and multi-tier announce lists, lengths up to 2^63-1 with sums around 2^63 and "
             "2^64, unknown keys) plus a mutated stream; each run through --json, piped (tab), --terminal and stdin; a case is "
             "distinct/non-trivial by (file count, mode, presence pattern of the optional fields, private, content-size magnitude). "
             "End to end with create (counts x5_*): C05's generator of `create` command lines (option subsets x file / directory / "
             "stdin, every recorded url-crate normalisation) - real `create --output`, then `show` --json / piped / --terminal of the "
             "written file, compared with the extracted composition build -> encode -> loader -> report and with the command line "
             "itself; the MD5 texts the loader carries (counts x5_md5_*): `md5sum` entries of the written file and the extracted "
             "build -> encode -> from_input against hashlib's MD5 of the contents under --md5 and none otherwise; "
             "distinct by (options given, tree kind, number of files). Calendar (counts calendar_*): a deterministic boundary "
             "sweep (first/last second of every month and Feb 28/29/Mar 1 of 26 years - leap, common, century, 9999/10000, "
             "262141/262142 -, 1999-12-31/2000-01-01, 2^31, 2^32, the largest representable second 8210266876799 +-2, 2^62, 2^63-1, "
             "2^63, 2^64-1, each +-1) plus random second counts (log-uniform in size and uniform over chrono's range): the Creation "
             "Date row the real binary prints for a minimal torrent with that creation date against the extracted Calendar.cal, "
             "chrono_accepts and cal_parse (the row read back must be the stored integer), the whole tab report against "
             "show_concrete, and against the Python calendar of this file; distinct by second count. X14 (counts x14_*): every file of the "
             "run through UrlConcrete.c_show (no url-crate variable left) against the binary's update_url / dht_nodes and verdict when the "
             "model places its texts inside the fragments; every update-url, node host, printed host:port and encoded node of the run, plus "
             "generated hosts / URLs, through the concrete instances and the hooks; distinct by (kind, outcome, first bytes, length class)",
        trusted_base=["Coq 8.16.1 kernel (coqc)", "tools/rs2v_summary.py (GenSummary)",
                      "extraction with ExtrOcamlBasic + runner/driver.d/summary.ml, runner/driver.d/calendar.ml, runner/driver.d/endtoendshow.ml, "
                      "runner/driver.d/urlconcrete.ml (c_show, c_url, c_host, c_hp, c_node)", "real imdl binary (debug profile)",
                      "Python oracle in tools/props/c07.py (lib.bdecode_strict, hashlib, datetime, posixpath)"],
    )


def replay(ctx, path):
    case = json.load(open(path))["case"]
    if case.get("e2e"):
        from props import e2e_create
        return e2e_create.replay(ctx, case)
    if "x14_kind" in case:
        from props import urlconcrete
        return urlconcrete.replay(ctx, case)
    hx = case.get("torrent_hex")
    if not hx:
        print(json.dumps(case, indent=1)[:3000]); return 0
    data = bytes.fromhex(hx)
    ctx.need_rust(); ctx.need_runner()
    if case.get("x14") == "c_show":
        print("model c_show:", ctx.model(["c_show " + lib.hexs(data)])[0])
    tmp = tempfile.mkdtemp(prefix="c07-")
    try:
        runs = run_binary(ctx, tmp, data)
    finally:
        shutil.rmtree(tmp, ignore_errors=True)
    for k, (rc, out, err) in runs.items():
        print("impl %-10s rc=%d %s%s" % (k, rc, out.decode("utf-8", "replace")[:1500], (" | " + err.decode("utf-8", "replace")[-300:]) if rc else ""))
    print("model:", ctx.model([model_line(data, runs)])[0][:2000])
    accepted, fails, x = judge(data, runs)
    print("oracle: accepted=%s failures=%s" % (accepted, fails))
    print("oracle reading:", {k: v for k, v in (x or {}).items() if not k.startswith("_")})
    return 0


def rendering_follows_stdout_only(ctx, tmp, cases):
    """Which rendering `show` uses is decided by what standard OUTPUT is attached to, not standard error: with stdout on a pipe
    the report is the tab-delimited one whether or not stderr is a terminal. (Added after seeded change C07-8: the terminal test
    of stdout reading stderr's descriptor; every other run of this check has both on pipes.)"""
    from props import c18
    picked = [c for c in cases if c[1] == "accept"][:6]
    for kind, expect, top, data in picked:
        d = tempfile.mkdtemp(dir=tmp)
        try:
            with open(os.path.join(d, "t.torrent"), "wb") as f:
                f.write(data)
            argv = [ctx.bins["imdl"], "torrent", "show", "--input", "t.torrent"]
            rc0, out0, err0 = c18.run_proc(argv, d, {"NO_COLOR": "1"})
            rc1, out1, err1 = c18.run_proc(argv, d, {"NO_COLOR": "1"}, err_tty=True)
            ctx.cov["evaluations"] += 1
            ctx.count("stderr_on_a_terminal_stdout_piped")
            ctx.distinct(("stderr-tty", kind, len(data)))
            if (rc0, out0) != (rc1, out1):
                ctx.violation("oracle-failure",
                              "`imdl torrent show` with standard output on a pipe prints a different report when standard error is a "
                              "terminal (exit %d / %d, %d / %d bytes; first lines %r / %r)"
                              % (rc0, rc1, len(out0), len(out1), out0.split(b"\n")[0][:80], out1.split(b"\n")[0][:80]),
                              {"kind": kind, "torrent_hex": data.hex()[:4000], "argv": argv[1:],
                               "reproduce": "script -qec 'imdl torrent show --input t.torrent 2>/dev/tty | cat' /dev/null  versus  imdl torrent show --input t.torrent 2>/dev/null | cat"})
        finally:
            shutil.rmtree(d, ignore_errors=True)

